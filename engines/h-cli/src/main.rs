//! C20 — derived argument parsers (`#[derive(ArgParse)]`, `#[derive(Subcommand)]`).
//!
//! Bounded-exhaustive enumeration (engine E4) on the REAL derive output: the family
//! of structs/enums in `shapes.rs` is expanded by the proc-macro of the repository
//! at build time.  Every shape carries a small hand-written description of its
//! declared grammar (`Grammar`); renderer, recogniser and value model below work
//! from that description only and share no code with the derive.
//!
//! Sweep 1 (round trip): every assignment of field values from small per-field
//!   domains, rendered in every order of the option occurrences and every
//!   long/short alias form, must parse to `Ok` with equal values.
//! Sweep 2 (grammar / robustness): every argument list up to a length bound over the
//!   shape's token alphabet; no panic, `Ok` only for lists the declared grammar can
//!   account for, `Err` renders and starts with the relevant help text.

use common::*;
use serde_json::{json, Value};
use std::cell::RefCell;
use std::collections::HashMap;
use tiny_std::unix::cli::ArgParse;
use tiny_std::UnixStr;

mod shapes;

// ---------------------------------------------------------------------------
// declared grammar of a shape (independent description)

pub type Tok = &'static [u8];

#[derive(Clone, Copy, PartialEq, Debug)]
pub enum Ty {
    /// `&'static UnixStr`: any byte string
    Unix,
    /// `&'static str` / `String`: UTF-8
    Str,
    /// `UnixString` (converted through `FromStr`, i.e. through `&str`): UTF-8 certainly
    /// accepted; whether a non-UTF-8 argument is a value is left open by the declaration
    UnixString,
    /// integer with inclusive range
    Int(i128, i128),
    /// user type (shapes.rs, `echo_type!`): a possibly empty run of ASCII letters and digits
    Word,
    /// user type (shapes.rs, `swallow_type!`): a possibly empty run of Unicode letters and digits
    WordU,
}

#[derive(Clone, Copy, PartialEq, Debug)]
pub enum Kind {
    Req,
    Opt,
    Rep,
    Flag,
}

#[derive(Clone)]
pub struct OptD {
    pub long: Option<&'static str>,
    pub short: Option<&'static str>,
    pub kind: Kind,
    pub ty: Ty,
    /// value domain of sweep 1, quick tier
    pub dom: &'static [Tok],
}
#[derive(Clone)]
pub struct PosD {
    pub required: bool,
    pub ty: Ty,
    pub dom: &'static [Tok],
}
#[derive(Clone)]
pub struct SubD {
    pub required: bool,
    pub cmds: Vec<(&'static str, Option<Grammar>)>,
}
#[derive(Clone)]
pub struct Grammar {
    /// near-miss spellings of this level's names (not declared): extra tokens of sweep 2
    pub alts: Vec<&'static str>,
    /// pre-order index of this struct in the shape's tree (index into the help texts)
    pub id: usize,
    pub opts: Vec<OptD>,
    pub pos: Vec<PosD>,
    pub sub: Option<SubD>,
}

impl OptD {
    fn lits(&self) -> Vec<&'static str> {
        self.long.iter().chain(self.short.iter()).copied().collect()
    }
}

fn number(g: &mut Grammar, next: &mut usize) {
    g.id = *next;
    *next += 1;
    if let Some(s) = &mut g.sub {
        for (_, inner) in &mut s.cmds {
            if let Some(ig) = inner {
                number(ig, next);
            }
        }
    }
}

fn levels<'a>(g: &'a Grammar, out: &mut Vec<&'a Grammar>) {
    out.push(g);
    if let Some(s) = &g.sub {
        for (_, inner) in &s.cmds {
            if let Some(ig) = inner {
                levels(ig, out);
            }
        }
    }
}

// ---------------------------------------------------------------------------
// value model

#[derive(Clone, PartialEq, Debug)]
pub enum V {
    B(Vec<u8>),
    I(i128),
}
#[derive(Clone, PartialEq, Debug)]
pub enum F {
    Flag(bool),
    One(Option<V>),
    Many(Vec<V>),
}
/// One struct level: option fields in declaration order, positional slots, subcommand
/// (index of the command + its inner struct when the variant carries one).
#[derive(Clone, PartialEq, Debug, Default)]
pub struct M {
    pub opts: Vec<F>,
    pub pos: Vec<Option<V>>,
    pub sub: Option<(usize, Option<Box<M>>)>,
}

pub enum Outcome {
    Ok(M, usize),
    Err { text: Result<String, String>, debug_ok: bool },
    Panic(String),
}

pub trait ToM {
    fn to_m(&self) -> M;
}

/// Parse with the derived parser under `catch`; errors are rendered (also under `catch`).
pub fn run<T: ArgParse + ToM>(args: &[&'static UnixStr]) -> Outcome {
    let res = catch(|| {
        let mut it = args.iter().copied();
        let r = T::arg_parse(&mut it);
        let left = it.count();
        (r.map(|t| t.to_m()), left)
    });
    match res {
        Err(p) => Outcome::Panic(p),
        Ok((Ok(m), left)) => Outcome::Ok(m, left),
        Ok((Err(e), _)) => {
            let text = catch(|| e.to_string());
            let debug_ok = catch(|| format!("{e:?}")).is_ok();
            Outcome::Err { text, debug_ok }
        }
    }
}

pub fn help_of<T: ArgParse>() -> String
where
    T::HelpPrinter: 'static,
{
    format!("{}", T::help_printer())
}

pub struct Shape {
    pub name: &'static str,
    pub g: Grammar,
    pub parse: fn(&[&'static UnixStr]) -> Outcome,
    /// help text of every struct of the tree, pre-order (same numbering as `Grammar::id`)
    pub helps: fn() -> Vec<String>,
    /// "" normally; "help-advertised-" when the grammar carries the spellings read from the help text
    pub key_prefix: &'static str,
    /// judge a single-valued option given twice / a second command as outside the declared grammar (keys
    /// accepted-repeated-single-option / accepted-two-subcommands); elsewhere such lists count as "open grammar"
    pub strict_repeats: bool,
}

// ---------------------------------------------------------------------------
// tokens

pub const L200: &[u8] = &[b'7'; 200];

thread_local! {
    static INTERN: RefCell<HashMap<Vec<u8>, &'static UnixStr>> = RefCell::new(HashMap::new());
}

/// `&'static UnixStr` for a NUL-free byte string (leaked once per thread and token).
fn intern(b: &[u8]) -> &'static UnixStr {
    INTERN.with(|t| {
        let mut t = t.borrow_mut();
        if let Some(u) = t.get(b) {
            return *u;
        }
        assert!(!b.contains(&0));
        let mut v = b.to_vec();
        v.push(0);
        let leaked: &'static [u8] = Box::leak(v.into_boxed_slice());
        let u = UnixStr::try_from_bytes(leaked).expect("interned token");
        t.insert(b.to_vec(), u);
        u
    })
}

fn content(u: &UnixStr) -> &[u8] {
    let s = u.as_slice();
    &s[..s.len() - 1]
}

// ---------------------------------------------------------------------------
// what a token means as a value of a declared type (independent of the derive)

enum Val {
    Good(V),
    Bad,
    /// the declaration does not settle it; either outcome is accepted
    Open,
}

fn int_of(tok: &[u8], min: i128, max: i128) -> Option<i128> {
    let (neg, digits) = match tok.first() {
        Some(b'-') if min < 0 => (true, &tok[1..]),
        Some(b'+') => (false, &tok[1..]),
        _ => (false, tok),
    };
    if digits.is_empty() || !digits.iter().all(u8::is_ascii_digit) {
        return None;
    }
    let mut acc: i128 = 0;
    for d in digits {
        let d = (d - b'0') as i128;
        acc = acc.checked_mul(10)?;
        acc = if neg { acc.checked_sub(d)? } else { acc.checked_add(d)? };
    }
    if acc < min || acc > max {
        return None;
    }
    Some(acc)
}

fn value_of(ty: Ty, tok: &[u8]) -> Val {
    let utf8 = std::str::from_utf8(tok).is_ok();
    match ty {
        Ty::Unix => Val::Good(V::B(tok.to_vec())),
        Ty::Str => {
            if utf8 {
                Val::Good(V::B(tok.to_vec()))
            } else {
                Val::Bad
            }
        }
        Ty::UnixString => {
            if utf8 {
                Val::Good(V::B(tok.to_vec()))
            } else {
                Val::Open
            }
        }
        Ty::Int(min, max) => match int_of(tok, min, max) {
            Some(i) => Val::Good(V::I(i)),
            None => Val::Bad,
        },
        Ty::WordU => match std::str::from_utf8(tok) {
            Ok(s) if s.chars().all(char::is_alphanumeric) => Val::Good(V::B(tok.to_vec())),
            _ => Val::Bad,
        },
        Ty::Word => {
            if tok.iter().all(u8::is_ascii_alphanumeric) {
                Val::Good(V::B(tok.to_vec()))
            } else {
                Val::Bad
            }
        }
    }
}

// ---------------------------------------------------------------------------
// recogniser: a left-to-right account of an argument list under the declared grammar

/// What the grammar collected: per option field the values of its occurrences in
/// order (a flag occurrence is `I(1)`), positional values, subcommand occurrences.
#[derive(Default, Debug)]
struct Acct {
    occ: Vec<Vec<V>>,
    /// one entry per declared slot
    pos: Vec<Option<V>>,
    subs: Vec<(usize, Option<Acct>)>,
}

#[derive(Clone, Copy, PartialEq, Debug)]
enum Why {
    /// help token in option position, at the struct level with this id
    Help(usize),
    Unknown,
    MissingValue,
    Malformed,
    MissingRequired,
}

#[derive(Default, Clone, Copy, Debug)]
struct Flags {
    /// the list uses something whose acceptance the declaration leaves open (single-valued
    /// option or subcommand given twice, tokens after a unit subcommand, option-like token in
    /// a positional slot, `Val::Open`): either outcome is accepted
    open: bool,
    /// some option's value starts with '-'
    optlike_value: bool,
    /// a single-valued (non-`Vec`, non-bool) option occurs more than once at one level
    repeated_single: bool,
    /// more than one command at one level
    two_subcommands: bool,
}

fn is_help(t: &[u8]) -> bool {
    t == b"-h" || t == b"--help"
}

fn scan(g: &Grammar, toks: &[&[u8]], fl: &mut Flags) -> Result<Acct, Why> {
    let mut a = Acct { occ: vec![Vec::new(); g.opts.len()], pos: Vec::new(), subs: Vec::new() };
    // tokens that stand in positional position, distributed over the slots at the end
    let mut ptoks: Vec<&[u8]> = Vec::new();
    let mut after_unit = false;
    let mut i = 0;
    while i < toks.len() {
        let t = toks[i];
        if after_unit {
            fl.open = true;
        }
        if let Some(k) = g.opts.iter().position(|o| o.lits().iter().any(|l| l.as_bytes() == t)) {
            let o = &g.opts[k];
            if o.kind == Kind::Flag {
                a.occ[k].push(V::I(1));
                i += 1;
                continue;
            }
            let Some(v) = toks.get(i + 1) else { return Err(Why::MissingValue) };
            let val = match value_of(o.ty, v) {
                Val::Good(x) => x,
                Val::Bad => return Err(Why::Malformed),
                Val::Open => {
                    fl.open = true;
                    V::B(v.to_vec())
                }
            };
            if v.first() == Some(&b'-') {
                fl.optlike_value = true;
            }
            if o.kind != Kind::Rep && !a.occ[k].is_empty() {
                fl.open = true;
                fl.repeated_single = true;
            }
            a.occ[k].push(val);
            i += 2;
        } else if is_help(t) {
            return Err(Why::Help(g.id));
        } else if let Some((j, inner)) =
            g.sub.as_ref().and_then(|s| s.cmds.iter().position(|c| c.0.as_bytes() == t).map(|j| (j, &s.cmds[j].1)))
        {
            if !a.subs.is_empty() {
                fl.open = true;
                fl.two_subcommands = true;
            }
            match inner {
                Some(ig) => {
                    let ia = scan(ig, &toks[i + 1..], fl)?;
                    a.subs.push((j, Some(ia)));
                    i = toks.len();
                }
                None => {
                    a.subs.push((j, None));
                    after_unit = true;
                    i += 1;
                }
            }
        } else if ptoks.len() < g.pos.len() {
            if t.first() == Some(&b'-') {
                // could equally be called an unknown option
                fl.open = true;
            }
            ptoks.push(t);
            i += 1;
        } else {
            return Err(Why::Unknown);
        }
    }
    for (k, o) in g.opts.iter().enumerate() {
        if o.kind == Kind::Req && a.occ[k].is_empty() {
            return Err(Why::MissingRequired);
        }
    }
    // the positional tokens fill the slots left to right; an optional slot is filled only by a token the
    // required slots after it can spare (`[first] second` given one argument: it is `second`)
    let required = g.pos.iter().filter(|p| p.required).count();
    if ptoks.len() < required {
        return Err(Why::MissingRequired);
    }
    let mut spare = ptoks.len() - required;
    let mut next = ptoks.iter();
    for slot in &g.pos {
        if !slot.required {
            if spare == 0 {
                a.pos.push(None);
                continue;
            }
            spare -= 1;
        }
        let t = next.next().expect("harness: positional distribution");
        a.pos.push(Some(match value_of(slot.ty, t) {
            Val::Good(x) => x,
            Val::Bad => return Err(Why::Malformed),
            Val::Open => {
                fl.open = true;
                V::B(t.to_vec())
            }
        }));
    }
    if let Some(s) = &g.sub {
        if s.required && a.subs.is_empty() {
            return Err(Why::MissingRequired);
        }
    }
    Ok(a)
}

/// Is the parsed value `m` one that the account `a` allows?
fn consistent(g: &Grammar, m: &M, a: &Acct) -> bool {
    if m.opts.len() != g.opts.len() || m.pos.len() != g.pos.len() {
        return false;
    }
    for (k, o) in g.opts.iter().enumerate() {
        let occ = &a.occ[k];
        let ok = match (&m.opts[k], o.kind) {
            (F::Flag(b), Kind::Flag) => *b == !occ.is_empty(),
            (F::One(None), Kind::Opt) => occ.is_empty(),
            (F::One(Some(v)), Kind::Opt | Kind::Req) => occ.contains(v),
            (F::Many(vs), Kind::Rep) => vs == occ,
            _ => false,
        };
        if !ok {
            return false;
        }
    }
    if m.pos != a.pos {
        return false;
    }
    match (&m.sub, &g.sub) {
        (None, _) => a.subs.is_empty(),
        (Some(_), None) => false,
        (Some((j, inner)), Some(sd)) => a.subs.iter().any(|(aj, ai)| {
            aj == j
                && match (inner, ai, &sd.cmds[*j].1) {
                    (None, None, None) => true,
                    (Some(im), Some(ia), Some(ig)) => consistent(ig, im, ia),
                    _ => false,
                }
        }),
    }
}

/// The value denoted by an account without open choices.
fn model_of(g: &Grammar, a: &Acct) -> M {
    M {
        opts: g
            .opts
            .iter()
            .enumerate()
            .map(|(k, o)| match o.kind {
                Kind::Flag => F::Flag(!a.occ[k].is_empty()),
                Kind::Rep => F::Many(a.occ[k].clone()),
                _ => F::One(a.occ[k].last().cloned()),
            })
            .collect(),
        pos: a.pos.clone(),
        sub: a.subs.last().map(|(j, ia)| {
            let ig = g.sub.as_ref().unwrap().cmds[*j].1.as_ref();
            (*j, ia.as_ref().map(|x| Box::new(model_of(ig.unwrap(), x))))
        }),
    }
}

// ---------------------------------------------------------------------------
// sweep 1: assignment space and renderer

fn push_unique(v: &mut Vec<Vec<u8>>, t: &[u8]) {
    if !v.iter().any(|x| x == t) {
        v.push(t.to_vec());
    }
}

/// Value domain of a field: the quick tier uses the 2–5 hand-picked values of the
/// declaration, the thorough tier the full ladder of its type (which contains them).
fn domain(ty: Ty, dom: &[Tok], after_option: bool, own_lit: Option<&str>, thorough: bool) -> Vec<Vec<u8>> {
    let mut v: Vec<Vec<u8>> = Vec::new();
    if !thorough {
        for d in dom {
            push_unique(&mut v, d);
        }
        return v;
    }
    match ty {
        Ty::Int(min, max) => {
            for t in [&b"7"[..], b"0"] {
                push_unique(&mut v, t);
            }
            push_unique(&mut v, max.to_string().as_bytes());
            for d in dom.iter().filter(|d| d.first() != Some(&b'-')) {
                push_unique(&mut v, d);
            }
            if after_option && min < 0 {
                push_unique(&mut v, b"-5");
                push_unique(&mut v, min.to_string().as_bytes());
            }
            for d in dom {
                push_unique(&mut v, d);
            }
        }
        Ty::Word | Ty::WordU => {
            for t in [&b"x"[..], b"", L200, b"7", b"12x"] {
                push_unique(&mut v, t);
            }
            for d in dom {
                push_unique(&mut v, d);
            }
        }
        _ => {
            for t in [&b"x"[..], b"", L200, "é".as_bytes()] {
                push_unique(&mut v, t);
            }
            if ty == Ty::Unix {
                push_unique(&mut v, b"\xff\xfe");
            }
            for d in dom.iter().filter(|d| d.first() != Some(&b'-')) {
                push_unique(&mut v, d);
            }
            if after_option {
                for t in [&b"-x"[..], b"--help", b"-h"] {
                    push_unique(&mut v, t);
                }
                if let Some(l) = own_lit {
                    push_unique(&mut v, l.as_bytes());
                }
            }
            for d in dom {
                push_unique(&mut v, d);
            }
        }
    }
    v
}

/// Cartesian space of raw assignments (values are still argument byte strings) of one struct level.
struct Space {
    opt_choices: Vec<Vec<F>>,
    pos_choices: Vec<Vec<Option<V>>>,
    sub_choices: Vec<Option<(usize, Option<Box<M>>)>>,
}

impl Space {
    fn new(g: &Grammar, thorough: bool, max_rep: usize) -> Space {
        let mut opt_choices = Vec::new();
        for o in &g.opts {
            let dom: Vec<V> =
                domain(o.ty, o.dom, true, o.lits().first().copied(), thorough).into_iter().map(V::B).collect();
            let ch: Vec<F> = match o.kind {
                Kind::Flag => vec![F::Flag(false), F::Flag(true)],
                Kind::Req => dom.iter().map(|v| F::One(Some(v.clone()))).collect(),
                Kind::Opt => std::iter::once(F::One(None)).chain(dom.iter().map(|v| F::One(Some(v.clone())))).collect(),
                Kind::Rep => {
                    let mut c = Vec::new();
                    for_each_seq(dom.len(), max_rep, |s| c.push(F::Many(s.iter().map(|&i| dom[i].clone()).collect())));
                    c
                }
            };
            opt_choices.push(ch);
        }
        let mut pos_choices = Vec::new();
        for p in &g.pos {
            let dom = domain(p.ty, p.dom, false, None, thorough);
            let mut ch: Vec<Option<V>> = Vec::new();
            if !p.required {
                ch.push(None);
            }
            ch.extend(dom.into_iter().map(|d| Some(V::B(d))));
            pos_choices.push(ch);
        }
        let mut sub_choices = Vec::new();
        match &g.sub {
            None => sub_choices.push(None),
            Some(sd) => {
                if !sd.required {
                    sub_choices.push(None);
                }
                for (j, (_, inner)) in sd.cmds.iter().enumerate() {
                    match inner {
                        None => sub_choices.push(Some((j, None))),
                        Some(ig) => {
                            let sp = Space::new(ig, thorough, max_rep);
                            for n in 0..sp.size() {
                                sub_choices.push(Some((j, Some(Box::new(sp.get(n))))));
                            }
                        }
                    }
                }
            }
        }
        Space { opt_choices, pos_choices, sub_choices }
    }
    fn size(&self) -> u64 {
        let mut n = self.sub_choices.len() as u64;
        for c in &self.opt_choices {
            n *= c.len() as u64;
        }
        for c in &self.pos_choices {
            n *= c.len() as u64;
        }
        n
    }
    /// mixed-radix decode; index 0 is the first (simplest) choice of every field
    fn get(&self, mut n: u64) -> M {
        let mut m = M::default();
        for c in &self.opt_choices {
            m.opts.push(c[(n % c.len() as u64) as usize].clone());
            n /= c.len() as u64;
        }
        for c in &self.pos_choices {
            m.pos.push(c[(n % c.len() as u64) as usize].clone());
            n /= c.len() as u64;
        }
        m.sub = self.sub_choices[n as usize].clone();
        m
    }
}

fn raw_bytes(v: &V) -> &[u8] {
    match v {
        V::B(b) => b,
        V::I(_) => unreachable!("raw assignment holds argument bytes"),
    }
}

/// The typed value a raw assignment denotes (what the parser must give back).
fn typed(g: &Grammar, m: &M) -> M {
    let conv = |ty: Ty, v: &V| match value_of(ty, raw_bytes(v)) {
        Val::Good(x) => x,
        _ => panic!("harness: domain value {} is not a value of {ty:?}", show_bytes(raw_bytes(v))),
    };
    M {
        opts: g
            .opts
            .iter()
            .zip(&m.opts)
            .map(|(o, f)| match f {
                F::Flag(b) => F::Flag(*b),
                F::One(v) => F::One(v.as_ref().map(|v| conv(o.ty, v))),
                F::Many(vs) => F::Many(vs.iter().map(|v| conv(o.ty, v)).collect()),
            })
            .collect(),
        pos: g.pos.iter().zip(&m.pos).map(|(p, v)| v.as_ref().map(|v| conv(p.ty, v))).collect(),
        sub: m.sub.as_ref().map(|(j, im)| {
            let ig = g.sub.as_ref().unwrap().cmds[*j].1.as_ref();
            (*j, im.as_ref().map(|x| Box::new(typed(ig.unwrap(), x))))
        }),
    }
}

fn has_optlike_value(m: &M) -> bool {
    let ol = |v: &V| raw_bytes(v).first() == Some(&b'-');
    m.opts.iter().any(|f| match f {
        F::Flag(_) => false,
        F::One(v) => v.as_ref().is_some_and(ol),
        F::Many(vs) => vs.iter().any(ol),
    }) || m.sub.as_ref().is_some_and(|(_, im)| im.as_ref().is_some_and(|x| has_optlike_value(x)))
}

struct Item {
    /// one token list per alias form
    forms: Vec<Vec<&'static UnixStr>>,
    /// items of one group keep their relative order (occurrences of one repeated option; the positionals)
    group: Option<usize>,
}

fn items_of(g: &Grammar, m: &M) -> Vec<Item> {
    let mut items = Vec::new();
    for (k, (o, f)) in g.opts.iter().zip(&m.opts).enumerate() {
        let lits = o.lits();
        match f {
            F::Flag(false) | F::One(None) => {}
            F::Flag(true) => items.push(Item { forms: lits.iter().map(|l| vec![intern(l.as_bytes())]).collect(), group: None }),
            F::One(Some(v)) => items.push(Item {
                forms: lits.iter().map(|l| vec![intern(l.as_bytes()), intern(raw_bytes(v))]).collect(),
                group: None,
            }),
            F::Many(vs) => {
                for v in vs {
                    items.push(Item {
                        forms: lits.iter().map(|l| vec![intern(l.as_bytes()), intern(raw_bytes(v))]).collect(),
                        group: Some(k),
                    });
                }
            }
        }
    }
    for v in m.pos.iter().flatten() {
        items.push(Item { forms: vec![vec![intern(raw_bytes(v))]], group: Some(usize::MAX) });
    }
    items
}

thread_local! {
    static PERMS: RefCell<HashMap<usize, std::rc::Rc<Vec<Vec<usize>>>>> = RefCell::new(HashMap::new());
}
fn perms(n: usize) -> std::rc::Rc<Vec<Vec<usize>>> {
    PERMS.with(|p| p.borrow_mut().entry(n).or_insert_with(|| std::rc::Rc::new(permutations(n))).clone())
}

/// `perm[slot] = item`; valid when the items of every group appear in increasing item order.
fn order_ok(items: &[Item], perm: &[usize]) -> bool {
    for (a, &ia) in perm.iter().enumerate() {
        for &ib in &perm[a + 1..] {
            if ib < ia && items[ia].group.is_some() && items[ia].group == items[ib].group {
                return false;
            }
        }
    }
    true
}

/// Every rendering of the assignment: every admissible order of the items of a level, every
/// alias form of every option occurrence, the subcommand (and recursively its struct) last.
fn for_each_rendering(g: &Grammar, m: &M, prefix: &mut Vec<&'static UnixStr>, f: &mut dyn FnMut(&[&'static UnixStr])) {
    let items = items_of(g, m);
    assert!(items.len() <= 7, "harness: too many items at one level");
    let all = perms(items.len());
    let radix: Vec<usize> = items.iter().map(|i| i.forms.len()).collect();
    let n_forms: usize = radix.iter().product();
    for perm in all.iter().filter(|p| order_ok(&items, p)) {
        for mut code in 0..n_forms {
            let base = prefix.len();
            let mut form = vec![0usize; items.len()];
            for (k, r) in radix.iter().enumerate() {
                form[k] = code % r;
                code /= r;
            }
            for &it in perm {
                prefix.extend_from_slice(&items[it].forms[form[it]]);
            }
            match &m.sub {
                None => f(prefix),
                Some((j, inner)) => {
                    let (lit, ig) = &g.sub.as_ref().unwrap().cmds[*j];
                    prefix.push(intern(lit.as_bytes()));
                    match inner {
                        None => f(prefix),
                        Some(im) => for_each_rendering(ig.as_ref().unwrap(), im, prefix, f),
                    }
                }
            }
            prefix.truncate(base);
        }
    }
}

fn shown(args: &[&'static UnixStr]) -> Vec<String> {
    args.iter().map(|a| show_bytes(content(a))).collect()
}

fn case_json(sh: &Shape, sweep: &str, args: &[&'static UnixStr]) -> Value {
    json!({"shape": sh.name, "sweep": sweep, "args": shown(args)})
}

fn brief(args: &[&'static UnixStr]) -> String {
    let mut s = String::from("[");
    for (i, a) in args.iter().enumerate() {
        if i > 0 {
            s.push_str(", ");
        }
        let c = content(a);
        if c.len() > 40 {
            s.push_str(&format!("<{} bytes {}…>", c.len(), show_bytes(&c[..8])));
        } else {
            s.push_str(&format!("{:?}", show_bytes(c)));
        }
    }
    s.push(']');
    s
}

fn check_err_render(sh: &Shape, helps: &[String], want_level: Option<usize>, args: &[&'static UnixStr], sweep: &str, text: &Result<String, String>, debug_ok: bool, r: &mut Report) {
    let key = |k: &str| format!("C20:{}:{k}", sh.name);
    match text {
        Err(p) => r.violation(&key("error-render-panic"), format!("{} on {}: Display of the error panicked: {p}", sh.name, brief(args)), case_json(sh, sweep, args)),
        Ok(t) => {
            let ok = match want_level {
                Some(l) => t.starts_with(helps[l].as_str()),
                None => helps.iter().any(|h| t.starts_with(h.as_str())),
            };
            if !ok {
                r.violation(
                    &key("error-without-help"),
                    format!(
                        "{} on {}: the rendered error does not start with the help text of {}; rendered: {:?}",
                        sh.name,
                        brief(args),
                        match want_level {
                            Some(l) => format!("the struct the help request was addressed to (level {l})"),
                            None => "any struct of the shape".to_string(),
                        },
                        t.chars().take(200).collect::<String>()
                    ),
                    case_json(sh, sweep, args),
                );
            }
        }
    }
    if !debug_ok {
        r.violation(&key("error-render-panic"), format!("{} on {}: Debug of the error panicked", sh.name, brief(args)), case_json(sh, sweep, args));
    }
}

/// Sweep 1 oracle for one rendering: must be `Ok` with exactly the expected values.
fn check_roundtrip(sh: &Shape, helps: &[String], args: &[&'static UnixStr], want: &M, optlike: bool, r: &mut Report) {
    r.eval();
    r.nontrivial_unique();
    let key = |k: &str| if k == "panic" { format!("C20:{}:{k}", sh.name) } else { format!("C20:{}:{}{k}", sh.name, sh.key_prefix) };
    let out = (sh.parse)(args);
    match out {
        Outcome::Panic(p) => {
            r.outcome("rt-panic");
            r.violation(&key("panic"), format!("{} panicked on {}: {p}", sh.name, brief(args)), case_json(sh, if sh.key_prefix.is_empty() { "roundtrip" } else { "help-roundtrip" }, args));
        }
        Outcome::Ok(m, left) => {
            if left > 0 {
                r.violation(&key("ok-arguments-left-unread"), format!("{} returned Ok on {} leaving {left} arguments unread", sh.name, brief(args)), case_json(sh, if sh.key_prefix.is_empty() { "roundtrip" } else { "help-roundtrip" }, args));
            }
            if &m == want {
                r.outcome(if optlike { "rt-ok-optionlike-value" } else { "rt-ok" });
            } else {
                r.outcome("rt-mismatch");
                r.violation(
                    &key(if optlike { "roundtrip-optionlike-value" } else { "roundtrip-mismatch" }),
                    format!("{} parsed {} to {m:?}, rendered from {want:?}", sh.name, brief(args)),
                    case_json(sh, if sh.key_prefix.is_empty() { "roundtrip" } else { "help-roundtrip" }, args),
                );
            }
        }
        Outcome::Err { text, debug_ok } => {
            r.outcome("rt-rejected");
            r.violation(
                &key(if optlike { "roundtrip-optionlike-value" } else { "roundtrip-rejected" }),
                format!(
                    "{} rejected {} (a rendering of {want:?}): {:?}",
                    sh.name,
                    brief(args),
                    text.as_ref().map(|t| t.lines().last().unwrap_or("").to_string())
                ),
                case_json(sh, if sh.key_prefix.is_empty() { "roundtrip" } else { "help-roundtrip" }, args),
            );
            check_err_render(sh, helps, None, args, "roundtrip", &text, debug_ok, r);
        }
    }
}

fn roundtrip_chunk(sh: &Shape, helps: &[String], thorough: bool, chunk: u64, nchunks: u64) -> Report {
    let mut r = Report::new();
    let sp = Space::new(&sh.g, thorough, 2);
    let size = sp.size();
    // contiguous index ranges, so that merging the chunks in order keeps the enumeration simplest-first
    let (mut n, end) = (chunk * size / nchunks, (chunk + 1) * size / nchunks);
    let mut first = true;
    while n < end {
        let raw = sp.get(n);
        let want = typed(&sh.g, &raw);
        let optlike = has_optlike_value(&raw);
        let mut prefix = Vec::new();
        for_each_rendering(&sh.g, &raw, &mut prefix, &mut |args| {
            // machinery self-check: renderer and recogniser (both the harness's) must agree
            let bytes: Vec<&[u8]> = args.iter().map(|a| content(a)).collect();
            let mut fl = Flags::default();
            match scan(&sh.g, &bytes, &mut fl) {
                Ok(a) if !fl.open && model_of(&sh.g, &a) == want => {}
                other => panic!("harness: recogniser does not account for rendering {} of {want:?}: {other:?} {fl:?}", brief(args)),
            }
            check_roundtrip(sh, helps, args, &want, optlike, &mut r);
            if first && n == size / 2 && sh.g.opts.len() % 2 == 1 {
                first = false;
                r.sample(json!({"shape": sh.name, "sweep": "roundtrip", "args": shown(args), "values": format!("{want:?}")}));
            }
        });
        n += 1;
    }
    r
}

// ---------------------------------------------------------------------------
// sweep 2

fn alphabet(g: &Grammar) -> Vec<Vec<u8>> {
    let mut lv = Vec::new();
    levels(g, &mut lv);
    // simplest tokens first: the first list reported under a violation key is the replay artefact
    let mut v: Vec<Vec<u8>> = Vec::new();
    for t in [&b"7"[..], b"12x", b""] {
        push_unique(&mut v, t);
    }
    let mut signed = false;
    for l in &lv {
        for o in &l.opts {
            for lit in o.lits() {
                push_unique(&mut v, lit.as_bytes());
            }
            signed |= matches!(o.ty, Ty::Int(min, _) if min < 0);
        }
        signed |= l.pos.iter().any(|p| matches!(p.ty, Ty::Int(min, _) if min < 0));
    }
    for l in &lv {
        if let Some(s) = &l.sub {
            for (c, _) in &s.cmds {
                push_unique(&mut v, c.as_bytes());
            }
        }
    }
    for l in &lv {
        for a in &l.alts {
            push_unique(&mut v, a.as_bytes());
        }
    }
    for t in [&b"--nope"[..], b"-h", b"--help"] {
        push_unique(&mut v, t);
    }
    if signed {
        push_unique(&mut v, b"-5");
    }
    let wordy = |t: Ty| t == Ty::Word || t == Ty::WordU;
    if lv.iter().any(|l| l.opts.iter().any(|o| wordy(o.ty)) || l.pos.iter().any(|p| wordy(p.ty))) {
        push_unique(&mut v, "a€".as_bytes());
    }
    for t in [&b"\xff\xfe"[..], L200] {
        push_unique(&mut v, t);
    }
    v
}

fn grammar_len(n_symbols: usize, thorough: bool) -> usize {
    let budget: u64 = if thorough { 40_000_000 } else { 1_500_000 };
    let (lo, hi) = if thorough { (4, 8) } else { (3, 6) };
    let mut l = lo;
    while l < hi && (n_symbols as u64).pow(l as u32 + 1) <= budget {
        l += 1;
    }
    l
}

/// Sweep 2 oracle for one argument list.
fn check_grammar(sh: &Shape, helps: &[String], args: &[&'static UnixStr], r: &mut Report) {
    r.eval();
    r.nontrivial_unique();
    let key = |k: &str| format!("C20:{}:{k}", sh.name);
    let case = || case_json(sh, "grammar", args);
    let bytes: Vec<&[u8]> = args.iter().map(|a| content(a)).collect();
    let mut fl = Flags::default();
    let acct = scan(&sh.g, &bytes, &mut fl);
    let out = (sh.parse)(args);
    match out {
        Outcome::Panic(p) => {
            r.outcome("panic");
            r.violation(&key("panic"), format!("{} panicked on {}: {p}", sh.name, brief(args)), case());
        }
        Outcome::Ok(m, left) => {
            if left > 0 {
                r.violation(&key("ok-arguments-left-unread"), format!("{} returned Ok on {} leaving {left} arguments unread", sh.name, brief(args)), case());
            }
            match acct {
                Err(why) => {
                    r.outcome("ok-unaccountable");
                    let (k, what) = match why {
                        Why::Help(_) => ("help-not-error", "a help request (-h/--help where an option may stand)"),
                        Why::Unknown => ("accepted-unknown-option", "a token that is no option literal, no option's value, no command and fits no free positional slot"),
                        Why::MissingValue => ("accepted-missing-value", "an option literal as last argument, its value missing"),
                        Why::Malformed => ("accepted-malformed-value", "a value that is not of the field's type"),
                        Why::MissingRequired => ("accepted-missing-required", "no occurrence of a required option / argument / command"),
                    };
                    r.violation(&key(k), format!("{} accepted {} as {m:?} although it contains {what}", sh.name, brief(args)), case());
                }
                Ok(a) => {
                    if sh.strict_repeats && fl.two_subcommands {
                        r.violation(
                            &key("accepted-two-subcommands"),
                            format!("{} accepted {} as {m:?}: more than one command on the line, the declaration has one command field", sh.name, brief(args)),
                            case(),
                        );
                    }
                    if sh.strict_repeats && fl.repeated_single {
                        r.violation(
                            &key("accepted-repeated-single-option"),
                            format!("{} accepted {} as {m:?}: an option declared single-valued (not Vec) is given more than once", sh.name, brief(args)),
                            case(),
                        );
                    }
                    if consistent(&sh.g, &m, &a) {
                        r.outcome(if fl.two_subcommands {
                            "ok-two-subcommands(last wins)"
                        } else if fl.repeated_single {
                            "ok-repeated-single-option(last wins)"
                        } else if fl.open {
                            "ok-open-grammar"
                        } else {
                            "ok"
                        });
                    } else {
                        r.outcome("ok-inconsistent");
                        r.violation(
                            &key("ok-values-inconsistent"),
                            format!("{} parsed {} to {m:?}; the declared grammar accounts for the arguments as {a:?}", sh.name, brief(args)),
                            case(),
                        );
                    }
                }
            }
        }
        Outcome::Err { text, debug_ok } => {
            let mut want_level = None;
            match acct {
                Err(Why::Help(l)) => {
                    r.outcome("err-help");
                    if !fl.open {
                        want_level = Some(l);
                    }
                }
                Err(Why::Unknown) => r.outcome("err-unknown"),
                Err(Why::MissingValue) => r.outcome("err-missing-value"),
                Err(Why::Malformed) => r.outcome("err-malformed"),
                Err(Why::MissingRequired) => r.outcome("err-missing-required"),
                Ok(_) if fl.open => r.outcome("err-open-grammar"),
                Ok(a) => {
                    // exactly a rendering of a value assignment: the first sentence of the property applies
                    r.outcome("err-rejected-valid");
                    r.violation(
                        &key(if fl.optlike_value { "roundtrip-optionlike-value" } else { "rejected-valid" }),
                        format!(
                            "{} rejected {}, which the declared grammar accounts for without any open choice as {:?}: {:?}",
                            sh.name,
                            brief(args),
                            model_of(&sh.g, &a),
                            text.as_ref().map(|t| t.lines().last().unwrap_or("").to_string())
                        ),
                        case(),
                    );
                }
            }
            if let Ok(t) = &text {
                if t.contains("too many characters to write into output buffer") {
                    r.outcome("err-cause-overflowed-buffer");
                }
            }
            check_err_render(sh, helps, want_level, args, "grammar", &text, debug_ok, r);
        }
    }
}

/// Every sequence of exactly `len` symbols over `0..n`, odometer order.
fn for_each_seq_exact(n: usize, len: usize, mut f: impl FnMut(&[usize])) {
    let mut idx = vec![0usize; len];
    loop {
        f(&idx);
        let mut p = len;
        loop {
            if p == 0 {
                return;
            }
            p -= 1;
            idx[p] += 1;
            if idx[p] < n {
                break;
            }
            idx[p] = 0;
        }
    }
}

/// All lists of exactly `len` arguments starting with symbol `first` (`len == 0`: the empty list).
fn grammar_chunk(sh: &Shape, helps: &[String], len: usize, first: usize) -> Report {
    let mut r = Report::new();
    let alpha: Vec<&'static UnixStr> = alphabet(&sh.g).iter().map(|t| intern(t)).collect();
    if len == 0 {
        check_grammar(sh, helps, &[], &mut r);
        return r;
    }
    let mut args: Vec<&'static UnixStr> = Vec::with_capacity(len);
    for_each_seq_exact(alpha.len(), len - 1, |rest| {
        args.clear();
        args.push(alpha[first]);
        args.extend(rest.iter().map(|&i| alpha[i]));
        check_grammar(sh, helps, &args, &mut r);
    });
    if first == 1 && len == 4 && sh.g.opts.len() % 2 == 0 {
        let s: Vec<&'static UnixStr> = (0..len).map(|i| alpha[(i * 5 + 3) % alpha.len()]).collect();
        r.sample(json!({"shape": sh.name, "sweep": "grammar", "args": shown(&s)}));
    }
    r
}

// ---------------------------------------------------------------------------
// help texts: obtained once, checked against the declaration

fn help_texts(sh: &Shape, r: &mut Report) -> Vec<String> {
    let helps = match catch(|| (sh.helps)()) {
        Ok(h) => h,
        Err(p) => {
            r.violation(&format!("C20:{}:help-render-panic", sh.name), format!("rendering the help text of {} panicked: {p}", sh.name), json!({"shape": sh.name, "sweep": "help"}));
            return Vec::new();
        }
    };
    let mut lv = Vec::new();
    levels(&sh.g, &mut lv);
    assert_eq!(lv.len(), helps.len(), "harness: {} declares {} levels, {} help texts", sh.name, lv.len(), helps.len());
    for (g, h) in lv.iter().zip(&helps) {
        r.eval();
        let mut missing = Vec::new();
        if !h.contains("Usage:") {
            missing.push("Usage:".to_string());
        }
        for o in &g.opts {
            for l in o.lits() {
                if !h.contains(l) {
                    missing.push(l.to_string());
                }
            }
        }
        if let Some(s) = &g.sub {
            for (c, _) in &s.cmds {
                if !h.contains(c) {
                    missing.push(c.to_string());
                }
            }
        }
        if !missing.is_empty() {
            r.violation(
                &format!("C20:{}:help-omits-declared-item", sh.name),
                format!("help text of level {} of {} does not mention {missing:?}: {h:?}", g.id, sh.name),
                json!({"shape": sh.name, "sweep": "help"}),
            );
        }
    }
    helps
}

// ---------------------------------------------------------------------------
// differential oracle between the two outputs of the derive: the names the help text
// advertises and the names the generated matcher accepts

#[derive(Default, Debug, PartialEq)]
struct Advertised {
    /// (short, long) per option entry, in order
    opts: Vec<(Option<String>, Option<String>)>,
    cmds: Vec<String>,
}

/// Read the option and command names out of one help text (sections after the `Usage:` line;
/// an entry line is indented by 2 or 6, a documentation line by 8).
fn advertised(help: &str) -> Advertised {
    let mut a = Advertised::default();
    let mut section = "";
    let mut seen_usage = false;
    for line in help.lines() {
        if !seen_usage {
            seen_usage = line.starts_with("Usage:");
            continue;
        }
        match line {
            "Commands:" | "Options:" | "Arguments:" => {
                section = line;
                continue;
            }
            _ => {}
        }
        let indent = line.len() - line.trim_start_matches(' ').len();
        let body = line.trim();
        if body.is_empty() || indent >= 8 {
            continue;
        }
        match section {
            "Commands:" if indent == 2 => a.cmds.push(body.split(' ').next().unwrap_or("").to_string()),
            "Options:" if body.starts_with('-') => {
                let mut short = None;
                let mut long = None;
                for part in body.split(", ") {
                    if part.starts_with("--") {
                        long = Some(part.to_string());
                    } else {
                        short = Some(part.to_string());
                    }
                }
                a.opts.push((short, long));
            }
            _ => {}
        }
    }
    a
}

fn leak(s: &str) -> &'static str {
    Box::leak(s.to_string().into_boxed_str())
}

/// Compare, level by level, the advertised names with the declared ones.  Returns the grammar respelled
/// as the help text has it (when the entries correspond one to one).
fn help_grammar(sh: &Shape, helps: &[String], r: &mut Report) -> Option<Grammar> {
    fn respell(g: &mut Grammar, helps: &[String], diffs: &mut Vec<String>, shape_ok: &mut bool) {
        let adv = advertised(&helps[g.id]);
        let declared = Advertised {
            opts: g.opts.iter().map(|o| (o.short.map(String::from), o.long.map(String::from))).collect(),
            cmds: g.sub.iter().flat_map(|s| s.cmds.iter().map(|c| c.0.to_string())).collect(),
        };
        if adv != declared {
            diffs.push(format!("level {}: help advertises {adv:?}, declared {declared:?}", g.id));
            let same_shape = adv.opts.len() == declared.opts.len()
                && adv.cmds.len() == declared.cmds.len()
                && adv.opts.iter().zip(&declared.opts).all(|(x, y)| x.0.is_some() == y.0.is_some() && x.1.is_some() == y.1.is_some());
            if same_shape {
                for (o, (s, l)) in g.opts.iter_mut().zip(&adv.opts) {
                    o.short = s.as_deref().map(leak);
                    o.long = l.as_deref().map(leak);
                }
                if let Some(sd) = &mut g.sub {
                    for (c, name) in sd.cmds.iter_mut().zip(&adv.cmds) {
                        c.0 = leak(name);
                    }
                }
            } else {
                *shape_ok = false;
            }
        }
        if let Some(sd) = &mut g.sub {
            for (_, inner) in &mut sd.cmds {
                if let Some(ig) = inner {
                    respell(ig, helps, diffs, shape_ok);
                }
            }
        }
    }
    let mut g = sh.g.clone();
    let mut diffs = Vec::new();
    let mut shape_ok = true;
    respell(&mut g, helps, &mut diffs, &mut shape_ok);
    r.eval();
    if diffs.is_empty() {
        r.outcome("help-names-equal-declared");
        // the grammar spelled after the help text is still handed out: sweep 1 is run on it as well, so that
        // "every advertised name is accepted" does not rest on the hand-written declaration
        return Some(g);
    }
    r.outcome("help-names-differ");
    r.violation(
        &format!("C20:{}:help-names-differ-from-declared", sh.name),
        format!("{}: the names in the help text are not the declared ones (which sweeps 1 and 2 hold the matcher to): {}", sh.name, diffs.join("; ")),
        json!({"shape": sh.name, "sweep": "help"}),
    );
    shape_ok.then_some(g)
}

// ---------------------------------------------------------------------------
// sweep 5 (observation, not judged): positional VALUES that look like options.  The grammar has no `--`
// escape, so a positional equal to -h / --help / one of the struct's own option literals cannot be told from
// the option; what the parser does with the rendering is recorded as an outcome class only (a panic is
// still a violation).

fn positional_optionlike(sh: &Shape, r: &mut Report) {
    fn visit(sh: &Shape, g: &Grammar, path: &mut Vec<(usize, usize)>, r: &mut Report) {
        for k in 0..g.pos.len() {
            if !matches!(g.pos[k].ty, Ty::Unix | Ty::Str | Ty::UnixString) {
                continue;
            }
            let mut specials: Vec<Vec<u8>> = vec![b"-h".to_vec(), b"--help".to_vec(), b"-x".to_vec()];
            for o in &g.opts {
                for l in o.lits() {
                    push_unique(&mut specials, l.as_bytes());
                }
            }
            for v in specials {
                // simplest assignment of the whole shape that reaches this level, slots 0..=k filled, slot k = v
                let mut raw = simplest(&sh.g);
                {
                    let mut cur = &mut raw;
                    let mut cg = &sh.g;
                    for &(j, _) in path.iter() {
                        let ig = cg.sub.as_ref().unwrap().cmds[j].1.as_ref().unwrap();
                        cur.sub = Some((j, Some(Box::new(simplest(ig)))));
                        cur = cur.sub.as_mut().unwrap().1.as_mut().unwrap();
                        cg = ig;
                    }
                    for s in 0..=k {
                        if cur.pos[s].is_none() {
                            cur.pos[s] = Some(V::B(g.pos[s].dom[0].to_vec()));
                        }
                    }
                    cur.pos[k] = Some(V::B(v.clone()));
                }
                let want = typed(&sh.g, &raw);
                let mut prefix = Vec::new();
                for_each_rendering(&sh.g, &raw, &mut prefix, &mut |args| {
                    r.eval();
                    r.nontrivial_unique();
                    let kind = if is_help(&v) { "help-token" } else if v == b"-x" { "unknown-dash-word" } else { "own-option-literal" };
                    match (sh.parse)(args) {
                        Outcome::Panic(p) => r.violation(
                            &format!("C20:{}:panic", sh.name),
                            format!("{} panicked on {}: {p}", sh.name, brief(args)),
                            case_json(sh, "grammar", args),
                        ),
                        Outcome::Ok(m, _) if m == want => r.outcome(&format!("positional={kind}:round-trips")),
                        Outcome::Ok(..) => r.outcome(&format!("positional={kind}:ok-with-other-values")),
                        Outcome::Err { .. } => r.outcome(&format!("positional={kind}:rejected")),
                    }
                });
            }
        }
        if let Some(sd) = &g.sub {
            for (j, (_, inner)) in sd.cmds.iter().enumerate() {
                if let Some(ig) = inner {
                    path.push((j, 0));
                    visit(sh, ig, path, r);
                    path.pop();
                }
            }
        }
    }
    /// first choice of every field, but every required thing present
    fn simplest(g: &Grammar) -> M {
        Space::new(g, false, 0).get(0)
    }
    visit(sh, &sh.g, &mut Vec::new(), r);
}

enum Work {
    Roundtrip(usize, u64, u64),
    /// shape, list length, first symbol
    Grammar(usize, usize, usize),
    /// shape: sweep 3, every token length across the fixed-size buffers of the error path
    Ladder(usize),
    /// sweep 4: index into CAUSE_WAYS
    Cause(usize),
    /// index into the list of shapes respelled after their help text: sweep 1 with the ADVERTISED names
    HelpRoundtrip(usize, u64, u64),
    /// sweep 5 for one shape
    PosObserve(usize),
}

/// Sweep 3: one token of EVERY length 0..=max (plain, option-like, multi-byte, Debug-escaped bytes) alone, after each
/// option literal (value position) and after a valid leading token; same oracle as sweep 2.  Covers every way the
/// fixed 128-byte cause buffer of the error path can be straddled, which the 200-byte token of sweep 2 jumps over.
fn ladder_chunk(sh: &Shape, helps: &[String], thorough: bool) -> Report {
    let mut r = Report::new();
    let max = if thorough { 1100 } else { 300 };
    let mut lv = Vec::new();
    levels(&sh.g, &mut lv);
    let mut prefixes: Vec<Vec<Vec<u8>>> = vec![vec![]];
    for l in &lv {
        for o in &l.opts {
            if let Some(lit) = o.lits().first() {
                prefixes.push(vec![lit.as_bytes().to_vec()]);
            }
        }
    }
    prefixes.push(vec![b"7".to_vec()]);
    prefixes.truncate(6);
    for len in 0..=max {
        let mut toks: Vec<Vec<u8>> = vec![vec![b'x'; len]];
        if len >= 2 {
            let mut t = vec![b'-'; 2];
            t.extend(std::iter::repeat(b'y').take(len - 2));
            toks.push(t);
            // multi-byte characters at every phase: a 2-, 3- and 4-byte character repeated after a 0..3-byte ASCII
            // prefix, padded with ASCII at the end - so for every byte offset some token has a character straddling
            // it (byte-indexed truncation or splitting of the echoed argument must respect char boundaries), and
            // Debug/escape rendering changes the written length
            for ch in ["é", "€", "😀"] {
                for shift in 0..ch.len() {
                    if shift + ch.len() > len {
                        continue;
                    }
                    let mut t: Vec<u8> = vec![b'p'; shift];
                    while t.len() + ch.len() <= len {
                        t.extend_from_slice(ch.as_bytes());
                    }
                    while t.len() < len {
                        t.push(b'z');
                    }
                    toks.push(t);
                }
            }
            toks.push(vec![0xff; len]);
        }
        // a run of letters ending in ONE character of 1, 2, 3, 4 bytes (alone at the end / followed by a tail): error
        // types that echo "text before + offending char" put that char at every byte offset of the cause buffer,
        // as a `char` format argument (write_char), not as part of a str
        for ch in ["!", "é", "€", "😀"] {
            for tail in ["", "zz"] {
                if ch.len() + tail.len() <= len {
                    let mut t = vec![b'a'; len - ch.len() - tail.len()];
                    t.extend_from_slice(ch.as_bytes());
                    t.extend_from_slice(tail.as_bytes());
                    toks.push(t);
                }
            }
        }
        // a run of multi-byte LETTERS (2, 3, 4 bytes, at every phase) ending in `!`: for error types that echo the
        // text before the offending character, byte 128 of the cause falls inside a character of the echoed run
        for ch in ["é", "中", "𝐀"] {
            for shift in 0..ch.len() {
                if shift + ch.len() + 1 > len {
                    continue;
                }
                let mut t: Vec<u8> = vec![b'p'; shift];
                while t.len() + ch.len() + 1 <= len {
                    t.extend_from_slice(ch.as_bytes());
                }
                while t.len() < len {
                    t.push(b'!');
                }
                toks.push(t);
            }
        }
        for t in &toks {
            for pre in &prefixes {
                let mut list: Vec<&'static UnixStr> = pre.iter().map(|p| intern(p)).collect();
                list.push(intern(t));
                check_grammar(sh, helps, &list, &mut r);
            }
        }
    }
    r
}

// ---------------------------------------------------------------------------
// sweep 4: the public constructors of the error value, driven directly.  Every way text can
// reach the fixed-size cause buffer (one str, str pieces, a `char` argument with `{}` / `{:?}` /
// padding, `Formatter::write_char`, nested `format_args!`), with the text before the character
// ending at EVERY byte offset around the capacity.

use tiny_std::unix::cli::ArgParseError;

struct ViaWriteChar(char);
impl std::fmt::Display for ViaWriteChar {
    fn fmt(&self, f: &mut std::fmt::Formatter<'_>) -> std::fmt::Result {
        use std::fmt::Write;
        f.write_char(self.0)
    }
}

const CAUSE_WAYS: &[&str] =
    &["str", "fmt-one-str", "fmt-char", "fmt-char-debug", "fmt-pieces", "fmt-nested", "fmt-write_char", "fmt-char-padded", "fmt-char-first", "fmt-two-chars"];
const CAUSE_CHARS: &[char] = &['!', 'é', '€', '😀', '\n', '\u{301}'];
const CAUSE_SUFFIXES: &[&str] = &["", "z", "zzzz"];

fn cause_prefix(pat: &str, k: usize) -> String {
    let mut s = String::new();
    if pat.len() > 1 {
        while s.len() + pat.len() <= k {
            s.push_str(pat);
        }
    }
    while s.len() < k {
        s.insert(0, 'a');
    }
    s
}

fn check_cause(way: &str, pat: &str, k: usize, c: char, suffix: &str, r: &mut Report) {
    r.eval();
    r.nontrivial_unique();
    let (help, help_text) = shapes::cause_help();
    let p = cause_prefix(pat, k);
    let p = p.as_str();
    let (p1, p2) = p.split_at(p.char_indices().map(|x| x.0).nth(p.chars().count() / 2).unwrap_or(0));
    macro_rules! both {
        ($($a:tt)*) => {
            (format!($($a)*), catch(|| ArgParseError::new_cause_fmt(help, format_args!($($a)*))))
        };
    }
    let (expected, made) = match way {
        "str" => {
            let s = format!("{p}{c}{suffix}");
            let res = catch(|| ArgParseError::new_cause_str(help, &s));
            (s, res)
        }
        "fmt-one-str" => {
            let s = format!("{p}{c}{suffix}");
            both!("{s}")
        }
        "fmt-char" => both!("{p}{c}{suffix}"),
        "fmt-char-debug" => both!("{p}{c:?}{suffix}"),
        "fmt-pieces" => both!("{p1}{p2}{c}{suffix}"),
        "fmt-nested" => both!("{}{suffix}", format_args!("{}{c}", format_args!("{p1}{}", p2))),
        "fmt-write_char" => both!("{p}{}{suffix}", ViaWriteChar(c)),
        "fmt-char-padded" => both!("{p}{c:>3}{c:*<2}{suffix}"),
        "fmt-char-first" => both!("{c}{p}{suffix}"),
        "fmt-two-chars" => both!("{p}{c}{c}{suffix}"),
        _ => panic!("unknown way {way}"),
    };
    let op = if way == "str" { "new_cause_str" } else { "new_cause_fmt" };
    let case = json!({"sweep": "cause", "way": way, "prefix": pat, "prefix_len": k, "ch": c.to_string(), "suffix": suffix});
    let what = format!("{op} [{way}] with {k} bytes of {pat:?} before {c:?} and {suffix:?} after it ({} bytes in all)", expected.len());
    let e = match made {
        Err(pn) => {
            r.outcome("cause-panic");
            r.violation(&format!("C20:{op}:panic"), format!("{what} panicked: {pn}"), case);
            return;
        }
        Ok(Ok(e)) | Ok(Err(e)) => e,
    };
    let text = catch(|| e.to_string());
    let debug_ok = catch(|| format!("{e:?}")).is_ok();
    match text {
        Err(pn) => r.violation(&format!("C20:{op}:error-render-panic"), format!("{what}: Display of the error panicked: {pn}"), case.clone()),
        Ok(t) => {
            if !t.starts_with(help_text.as_str()) {
                r.violation(&format!("C20:{op}:error-without-help"), format!("{what}: rendered error does not start with the help text: {t:?}"), case.clone());
            } else if t[help_text.len()..] == expected {
                r.outcome(if expected.len() <= 128 { "cause-exact" } else { "cause-exact-beyond-128" });
            } else if t.contains("too many characters to write into output buffer") {
                r.outcome(if expected.len() <= 128 { "cause-fallback-although-short" } else { "cause-overflow-fallback" });
            } else {
                r.outcome("cause-other-text");
            }
        }
    }
    if !debug_ok {
        r.violation(&format!("C20:{op}:error-render-panic"), format!("{what}: Debug of the error panicked"), case);
    }
}

/// Sweep 4b: `fmt::Write` calls made directly on an `ArgParseCauseBuffer` (the `cause` field of the error value is
/// public, a caller may append context to it).  After EVERY call, whatever it returned: the buffer renders (valid
/// UTF-8), holds exactly the accepted pieces - a refused piece leaves it unchanged - and is at most 128 bytes long.
const SEQ_WAYS: &[&str] = &["str+str", "str+char", "str+fmt", "str+str-with-tail", "fmt(str,char)", "str+char+str"];

fn check_seq(way: &str, pat: &str, k: usize, c: char, r: &mut Report) {
    use std::fmt::Write;
    r.eval();
    r.nontrivial_unique();
    let (help, _) = shapes::cause_help();
    let case = json!({"sweep": "cause-seq", "way": way, "prefix": pat, "prefix_len": k, "ch": c.to_string()});
    let p = cause_prefix(pat, k);
    let cs = c.to_string();
    let ctail = format!("{c}zz");
    // each step: (what is written, the whole-piece prefixes that may be in the buffer after a refusal)
    enum Call<'a> {
        Str(&'a str),
        Char(char),
        Fmt(&'a str, char),
    }
    let steps: Vec<Call> = match way {
        "str+str" => vec![Call::Str(&p), Call::Str(&cs)],
        "str+char" => vec![Call::Str(&p), Call::Char(c)],
        "str+fmt" => vec![Call::Str(&p), Call::Fmt("", c)],
        "str+str-with-tail" => vec![Call::Str(&p), Call::Str(&ctail), Call::Str("y")],
        "fmt(str,char)" => vec![Call::Fmt(&p, c), Call::Str("y")],
        "str+char+str" => vec![Call::Str(&p), Call::Char(c), Call::Str("y"), Call::Char('!')],
        _ => panic!("unknown way {way}"),
    };
    let res = catch(|| {
        let mut buf = match ArgParseError::new_cause_str(help, "") {
            Ok(e) | Err(e) => e.cause,
        };
        let mut model = String::new();
        for (i, st) in steps.iter().enumerate() {
            let (ret, piece, partials): (std::fmt::Result, String, Vec<String>) = match st {
                Call::Str(s) => (buf.write_str(s), s.to_string(), vec![]),
                Call::Char(ch) => (buf.write_char(*ch), ch.to_string(), vec![]),
                Call::Fmt(s, ch) => (buf.write_fmt(format_args!("{s}{ch}")), format!("{s}{ch}"), vec![s.to_string()]),
            };
            let shown = catch(|| buf.to_string());
            let got = match shown {
                Ok(g) => g,
                Err(e) => return Err((i, ret.is_ok(), format!("the buffer no longer renders ({e}); len() = {}", buf.len()))),
            };
            if buf.len() > 128 || buf.len() != got.len() {
                return Err((i, ret.is_ok(), format!("len() = {} but {} bytes render", buf.len(), got.len())));
            }
            let allowed: Vec<String> = if ret.is_ok() {
                vec![format!("{model}{piece}")]
            } else {
                std::iter::once(model.clone()).chain(partials.iter().map(|x| format!("{model}{x}"))).collect()
            };
            if !allowed.contains(&got) {
                return Err((i, ret.is_ok(), format!("holds {} bytes {:?}…, expected {} bytes", got.len(), got.chars().rev().take(6).collect::<String>(), allowed[0].len())));
            }
            model = got;
        }
        Ok(())
    });
    match res {
        Err(pn) => r.violation("C20:cause-buffer:panic", format!("write sequence [{way}] prefix {pat:?}x{k} char {c:?} panicked: {pn}"), case),
        Ok(Ok(())) => r.outcome("cause-seq-consistent"),
        Ok(Err((i, accepted, what))) => {
            r.outcome("cause-seq-inconsistent");
            r.violation(
                if accepted { "C20:cause-buffer:accepted-write-not-appended" } else { "C20:cause-buffer:torn-after-refused-write" },
                format!("write sequence [{way}] with a {k}-byte prefix of {pat:?} and char {c:?}: after call #{i} ({}) {what}", if accepted { "returned Ok" } else { "refused" }),
                case,
            );
        }
    }
}

fn cause_chunk(way: &str, thorough: bool) -> Report {
    if SEQ_WAYS.contains(&way) {
        let mut r = Report::new();
        for k in 0..=(if thorough { 300 } else { 140 }) {
            for pat in ["a", "é", "€", "𝐀"] {
                for &c in CAUSE_CHARS {
                    check_seq(way, pat, k, c, &mut r);
                }
            }
        }
        return r;
    }
    let mut r = Report::new();
    let max = if thorough { 300 } else { 140 };
    for k in 0..=max {
        for pat in ["a", "é", "€"] {
            for &c in CAUSE_CHARS {
                for suffix in CAUSE_SUFFIXES {
                    check_cause(way, pat, k, c, suffix, &mut r);
                }
            }
        }
    }
    if way == "fmt-char" {
        r.sample(json!({"sweep": "cause", "way": way, "prefix": "a", "prefix_len": 126, "ch": "€", "suffix": ""}));
    }
    r
}

fn c20(args: &Args) -> Report {
    let shapes = shapes::all();
    let mut pre = Report::new();
    let helps: Vec<Vec<String>> = shapes.iter().map(|s| help_texts(s, &mut pre)).collect();
    let mut work = Vec::new();
    let mut space_sizes = serde_json::Map::new();
    let mut lens = serde_json::Map::new();
    let mut alpha_sizes = serde_json::Map::new();
    // round-trip work first, largest assignment space first (load balance); the order of the chunks of one shape is kept
    let mut by_size: Vec<(u64, usize)> =
        shapes.iter().enumerate().map(|(si, sh)| (Space::new(&sh.g, args.thorough, 2).size(), si)).collect();
    by_size.sort_by(|a, b| b.0.cmp(&a.0).then(a.1.cmp(&b.1)));
    for &(size, si) in &by_size {
        if helps[si].is_empty() {
            continue;
        }
        space_sizes.insert(shapes[si].name.into(), size.into());
        let nchunks = size.clamp(1, if args.thorough { 128 } else { 16 });
        for c in 0..nchunks {
            work.push(Work::Roundtrip(si, c, nchunks));
        }
    }
    for (si, sh) in shapes.iter().enumerate() {
        if helps[si].is_empty() {
            continue;
        }
        let n = alphabet(&sh.g).len();
        alpha_sizes.insert(sh.name.into(), n.into());
        let max_len = grammar_len(n, args.thorough);
        lens.insert(sh.name.into(), max_len.into());
        // shortest lists first, so that the first list reported under a key is a shortest one
        work.push(Work::Grammar(si, 0, 0));
        for len in 1..=max_len {
            for f in 0..n {
                work.push(Work::Grammar(si, len, f));
            }
        }
    }
    for (si, _) in shapes.iter().enumerate() {
        if !helps[si].is_empty() {
            work.push(Work::Ladder(si));
        }
    }
    for w in 0..CAUSE_WAYS.len() + SEQ_WAYS.len() {
        work.push(Work::Cause(w));
    }
    for (si, _) in shapes.iter().enumerate() {
        if !helps[si].is_empty() {
            work.push(Work::PosObserve(si));
        }
    }
    // help vs matcher: the names read out of the help text are put to the matcher (sweep 1, quick domains)
    let mut respelled: Vec<(Shape, usize)> = Vec::new();
    for (si, sh) in shapes.iter().enumerate() {
        if helps[si].is_empty() {
            continue;
        }
        if let Some(g) = help_grammar(sh, &helps[si], &mut pre) {
            respelled.push((Shape { name: sh.name, g, parse: sh.parse, helps: sh.helps, key_prefix: "help-advertised-", strict_repeats: false }, si));
            let size = Space::new(&respelled.last().unwrap().0.g, false, 2).size();
            let nchunks = size.clamp(1, 8);
            for c in 0..nchunks {
                work.push(Work::HelpRoundtrip(respelled.len() - 1, c, nchunks));
            }
        }
    }
    let mut r = par_items(work.len(), args.seed, |i| match work[i] {
        Work::Cause(w) => cause_chunk(if w < CAUSE_WAYS.len() { CAUSE_WAYS[w] } else { SEQ_WAYS[w - CAUSE_WAYS.len()] }, args.thorough),
        Work::PosObserve(si) => {
            let mut r = Report::new();
            positional_optionlike(&shapes[si], &mut r);
            r
        }
        Work::HelpRoundtrip(k, c, n) => roundtrip_chunk(&respelled[k].0, &helps[respelled[k].1], false, c, n),
        Work::Roundtrip(si, c, n) => roundtrip_chunk(&shapes[si], &helps[si], args.thorough, c, n),
        Work::Grammar(si, len, f) => grammar_chunk(&shapes[si], &helps[si], len, f),
        Work::Ladder(si) => ladder_chunk(&shapes[si], &helps[si], args.thorough),
    });
    pre.merge(r);
    r = pre;
    r.rule = "Family of derived parsers (shapes.rs), each with a hand-written declaration of its grammar. \
        Sweep 1: every assignment of field values (flags both ways; optional fields absent or each domain value; repeated options every \
        sequence of <= 2 domain values; every command, recursively every assignment of its struct), rendered in every order of the items of a \
        level that keeps the positionals and the occurrences of one repeated option in order, in every long/short alias form, command last; \
        must parse to Ok with equal values (assignments with an option value starting with '-' are keyed roundtrip-optionlike-value). \
        Sweep 2: every argument list of length <= max_len[shape] over the shape's alphabet (all option and command literals of the tree, --nope, -h, \
        --help, 7, 12x, -5, empty, \\xff\\xfe, 200 bytes); no panic; Ok only if the independent left-to-right account of the list succeeds and the values are \
        among those it allows; a list that is a rendering without open choices must be Ok; every Err renders (Display, Debug) and starts with the help \
        text of a struct of the shape (of the addressed struct for a help request). Each (assignment, order, alias form) and each list is generated once; \
        every case is non-trivial (it is parsed by the derived code). \
        Sweep 3: one token of every length 0..=300 (thorough 1100) in four byte patterns, alone / in value position after each option literal / after a valid \
        token, same oracle: straddles the fixed 128-byte cause buffer of the error path at every offset (the family has field types whose FromStr::Err \
        echoes the text before an offending character and the character itself through {}, {:?}, Formatter::write_char, nested format_args! and padding). \
        Help vs matcher: the option and command names are read out of every help text and must equal the declared ones level by level; \
        sweep 1 (quick domains) is repeated with the grammar spelled after the help text (keys help-advertised-*); near-miss spellings of every name (as written in the source, ASCII-only \
        case mapping, missing dash) are tokens of sweep 2 and must not be recognised. \
        Repeats: a single-valued option given twice or a second command make a list open (either outcome accepted) except for the shapes marked \
        strict_repeats, where accepting it is keyed accepted-repeated-single-option / accepted-two-subcommands. \
        Sweep 5 (observation only): positional values equal to -h, --help, -x or an own option literal, outcome classes positional=<kind>:<what>. \
        Sweep 4b: write_str / write_char / write_fmt sequences of 2-4 calls made directly on the public cause buffer (prefix of every length 0..=140 in 1-, 2-, 3-, \
        4-byte characters, each of the six characters at the boundary): after every call the buffer renders, holds exactly the accepted pieces, len <= 128. \
        The family has field types whose FromStr::Err Display swallows write errors (ignore-and-Ok, ignored middle piece, write after a failure). \
        Sweep 4: ArgParseError::new_cause_str / new_cause_fmt called directly, every way of writing (one str, pieces, char argument plain / Debug / padded / \
        first / doubled, write_char, nested arguments) x prefix of every byte length 0..=140 (thorough 300) in 1-, 2- and 3-byte characters x six \
        characters of 1..4 bytes x three suffixes: no panic, the error renders and starts with the help text."
        .into();
    // declarations of the quantifier's family that the derive cannot expand (checked once by a compile probe on
    // 6cbfbce, not re-built at run time): `#[cli(arg = "other")]` with a name that is no field -> E0425; `Vec<bool>` -> E0599
    r.outcome_n("shape-does-not-compile", 2);
    r.note("shape-does-not-compile: #[cli(arg = \"input\")] on a field not named `input` (E0425: the generated code tests `input.is_none()`); Vec<bool> option field (E0599: declared `bool`, assigned with push(true))");
    r.bound("shapes", shapes.len());
    r.bound("assignments_per_shape", Value::Object(space_sizes));
    r.bound("grammar_alphabet_size", Value::Object(alpha_sizes));
    r.bound("grammar_max_len", Value::Object(lens));
    r.bound("max_repeats", 2);
    r.bound("ladder_max_token_len", if args.thorough { 1100 } else { 300 });
    r.bound("cause_prefix_max_len", if args.thorough { 300 } else { 140 });
    r.bound("cause_ways", CAUSE_WAYS.len());
    r.bound("value_domains", if args.thorough { "full ladder per type" } else { "2-9 declared values per field" });
    r
}

fn replay(v: &Value, r: &mut Report) {
    if v["sweep"].as_str() == Some("cause-seq") {
        let c = v["ch"].as_str().and_then(|s| s.chars().next()).unwrap_or('?');
        check_seq(v["way"].as_str().unwrap_or("str+str"), v["prefix"].as_str().unwrap_or("a"), v["prefix_len"].as_u64().unwrap_or(0) as usize, c, r);
        println!("outcomes: {:?}", r.outcomes);
        for v in r.violations.values() {
            println!("VIOLATED {}: {}", v.key, v.desc);
        }
        return;
    }
    if v["sweep"].as_str() == Some("cause") {
        let c = v["ch"].as_str().and_then(|s| s.chars().next()).unwrap_or('?');
        let (way, pat, k, suffix) =
            (v["way"].as_str().unwrap_or("fmt-char"), v["prefix"].as_str().unwrap_or("a"), v["prefix_len"].as_u64().unwrap_or(0) as usize, v["suffix"].as_str().unwrap_or(""));
        println!("replaying cause way={way} prefix={pat:?}x{k} ch={c:?} suffix={suffix:?}");
        check_cause(way, pat, k, c, suffix, r);
        println!("outcomes: {:?}", r.outcomes);
        for v in r.violations.values() {
            println!("VIOLATED {}: {}", v.key, v.desc);
        }
        return;
    }
    let shapes = shapes::all();
    let name = v["shape"].as_str().unwrap_or("");
    let Some(sh) = shapes.iter().find(|s| s.name == name) else { panic!("unknown shape {name}") };
    let helps = help_texts(sh, r);
    let respelled;
    let sh = if v["sweep"].as_str() == Some("help-roundtrip") || v["sweep"].as_str() == Some("help") {
        match help_grammar(sh, &helps, r) {
            Some(g) => {
                respelled = Shape { name: sh.name, g, parse: sh.parse, helps: sh.helps, key_prefix: "help-advertised-", strict_repeats: false };
                &respelled
            }
            None => sh,
        }
    } else {
        sh
    };
    let args: Vec<&'static UnixStr> =
        v["args"].as_array().map(|a| a.iter().map(|x| intern(&parse_shown(x.as_str().unwrap_or("")))).collect()).unwrap_or_default();
    println!("replaying shape={name} args={}", brief(&args));
    match (sh.parse)(&args) {
        Outcome::Ok(m, left) => println!("parser: Ok({m:?}), {left} arguments left unread"),
        Outcome::Err { text, .. } => println!("parser: Err, rendered: {text:?}"),
        Outcome::Panic(p) => println!("parser: PANIC {p}"),
    }
    let bytes: Vec<&[u8]> = args.iter().map(|a| content(a)).collect();
    let mut fl = Flags::default();
    let acct = scan(&sh.g, &bytes, &mut fl);
    println!("declared grammar: {acct:?} {fl:?}");
    if matches!(v["sweep"].as_str(), Some("roundtrip" | "help-roundtrip")) {
        if let (Ok(a), false) = (&acct, fl.open) {
            check_roundtrip(sh, &helps, &args, &model_of(&sh.g, a), fl.optlike_value, r);
        }
    }
    if sh.key_prefix.is_empty() {
        check_grammar(sh, &helps, &args, r);
    }
    for v in r.violations.values() {
        println!("VIOLATED {}: {}", v.key, v.desc);
    }
}

fn main() {
    let args = parse_args();
    install_panic_hook();
    if let Some(p) = &args.replay {
        let v = read_replay(p);
        let mut r = Report::new();
        replay(&v, &mut r);
        println!("{}", serde_json::to_string_pretty(&r.to_json()).unwrap());
        std::process::exit(if r.violations.is_empty() { 0 } else { 1 });
    }
    let phase = args.phase.clone().unwrap_or_else(|| "c20".into());
    let r = match phase.as_str() {
        "c20" => c20(&args),
        _ => panic!("unknown phase"),
    };
    r.write(&args.out);
}
