//! The family of derived parsers under test.  For every shape: the struct/enum
//! definitions (expanded by the repository's proc-macro), the conversion of a parsed
//! value into the harness's value model, and the hand-written declaration of its grammar.
#![allow(dead_code, non_snake_case, non_camel_case_types)]

use crate::Kind::{Flag, Opt, Rep, Req};
use crate::Ty::{Str, Unix, UnixString as UStr, Word, WordU};
use crate::{help_of, number, run, Grammar, Kind, OptD, PosD, Shape, SubD, ToM, Tok, Ty, F, L200, M, V};
use tiny_cli::{ArgParse, Subcommand};
use tiny_std::{UnixStr, UnixString};

// ---- value helpers ---------------------------------------------------------

fn vu(u: &UnixStr) -> V {
    let s = u.as_slice();
    V::B(s[..s.len() - 1].to_vec())
}
fn vs(s: &str) -> V {
    V::B(s.as_bytes().to_vec())
}
fn vi<T: Into<i128> + Copy>(i: T) -> V {
    V::I(i.into())
}
fn one(v: V) -> F {
    F::One(Some(v))
}
type SubM = Option<(usize, Option<Box<M>>)>;
fn unit(j: usize) -> (usize, Option<Box<M>>) {
    (j, None)
}
fn with<T: ToM>(j: usize, t: &T) -> (usize, Option<Box<M>>) {
    (j, Some(Box::new(t.to_m())))
}

// ---- declaration helpers ---------------------------------------------------

const I32: Ty = Ty::Int(i32::MIN as i128, i32::MAX as i128);
const I64: Ty = Ty::Int(i64::MIN as i128, i64::MAX as i128);
const I128: Ty = Ty::Int(i128::MIN, i128::MAX);
const U8: Ty = Ty::Int(0, u8::MAX as i128);
const U16: Ty = Ty::Int(0, u16::MAX as i128);
const U64: Ty = Ty::Int(0, u64::MAX as i128);

const X: Tok = b"x";
const E: Tok = b"";
const L: Tok = L200;
const ACC: Tok = "é".as_bytes();
const NU: Tok = b"\xff\xfe";
const DX: Tok = b"-x";
const DHELP: Tok = b"--help";
const DH: Tok = b"-h";

fn o(long: Option<&'static str>, short: Option<&'static str>, kind: Kind, ty: Ty, dom: &'static [Tok]) -> OptD {
    OptD { long, short, kind, ty, dom }
}
fn p(required: bool, ty: Ty, dom: &'static [Tok]) -> PosD {
    PosD { required, ty, dom }
}
fn g(opts: Vec<OptD>, pos: Vec<PosD>, sub: Option<SubD>) -> Grammar {
    Grammar { id: 0, opts, pos, sub, alts: Vec::new() }
}
fn shape(name: &'static str, mut gr: Grammar, parse: fn(&[&'static UnixStr]) -> crate::Outcome, helps: fn() -> Vec<String>) -> Shape {
    number(&mut gr, &mut 0);
    Shape { name, g: gr, parse, helps, key_prefix: "", strict_repeats: false }
}

// ---- 1. required option, long name only, &'static UnixStr -------------------

#[derive(ArgParse)]
#[cli(help_path = "h-cli, req-opt")]
struct ReqOpt {
    #[cli(long = "req")]
    req: &'static UnixStr,
}
impl ToM for ReqOpt {
    fn to_m(&self) -> M {
        M { opts: vec![one(vu(self.req))], pos: vec![], sub: None }
    }
}

// ---- 2. required option with short+long alias, integer ----------------------

#[derive(ArgParse)]
struct Aliases {
    #[cli(short = "s", long = "long")]
    v: i32,
}
impl ToM for Aliases {
    fn to_m(&self) -> M {
        M { opts: vec![one(vi(self.v))], pos: vec![], sub: None }
    }
}

// ---- 3. optional option and a flag -----------------------------------------

/// Optional option and a flag
#[derive(ArgParse)]
#[cli(help_path = "h-cli")]
struct OptFlag {
    /// an optional string
    #[cli(short = "o", long = "opt")]
    o: Option<&'static str>,
    #[cli(short = "b", long = "flag")]
    b: bool,
}
impl ToM for OptFlag {
    fn to_m(&self) -> M {
        M { opts: vec![F::One(self.o.map(vs)), F::Flag(self.b)], pos: vec![], sub: None }
    }
}

// ---- 4. repeated options ---------------------------------------------------

#[derive(ArgParse)]
#[cli(help_path = "h-cli")]
struct Repeated {
    #[cli(short = "r", long = "rep")]
    r: Vec<&'static UnixStr>,
    #[cli(long = "num")]
    n: Vec<u64>,
}
impl ToM for Repeated {
    fn to_m(&self) -> M {
        M {
            opts: vec![F::Many(self.r.iter().map(|u| vu(u)).collect()), F::Many(self.n.iter().map(|&i| vi(i)).collect())],
            pos: vec![],
            sub: None,
        }
    }
}

// ---- 5. required + optional + repeated + flag ------------------------------

/// All packagings together
#[derive(ArgParse)]
#[cli(help_path = "h-cli, mixed")]
struct Mixed {
    #[cli(short = "a", long = "alpha")]
    a: String,
    /// optional number
    #[cli(long = "beta")]
    b: Option<i64>,
    #[cli(short = "g", long = "gamma")]
    g: Vec<&'static str>,
    #[cli(short = "v")]
    v: bool,
}
impl ToM for Mixed {
    fn to_m(&self) -> M {
        M {
            opts: vec![one(vs(&self.a)), F::One(self.b.map(vi)), F::Many(self.g.iter().map(|s| vs(s)).collect()), F::Flag(self.v)],
            pos: vec![],
            sub: None,
        }
    }
}

// ---- 6. owned field types --------------------------------------------------

#[derive(ArgParse)]
#[cli(help_path = "h-cli")]
struct Owned {
    #[cli(long = "us")]
    us: UnixString,
    #[cli(short = "u")]
    ou: Option<UnixString>,
    #[cli(long = "big")]
    big: Option<i128>,
    #[cli(long = "small")]
    small: Vec<u8>,
}
impl ToM for Owned {
    fn to_m(&self) -> M {
        M {
            opts: vec![
                one(vu(&self.us)),
                F::One(self.ou.as_ref().map(|u| vu(u))),
                F::One(self.big.map(vi)),
                F::Many(self.small.iter().map(|&i| vi(i)).collect()),
            ],
            pos: vec![],
            sub: None,
        }
    }
}

// ---- 7. one positional -----------------------------------------------------

#[derive(ArgParse)]
#[cli(help_path = "h-cli")]
struct Pos1 {
    /// the target
    target: &'static UnixStr,
}
impl ToM for Pos1 {
    fn to_m(&self) -> M {
        M { opts: vec![], pos: vec![Some(vu(self.target))], sub: None }
    }
}

// ---- 8. two positionals ----------------------------------------------------

#[derive(ArgParse)]
#[cli(help_path = "h-cli")]
struct Pos2 {
    first: String,
    second: i64,
}
impl ToM for Pos2 {
    fn to_m(&self) -> M {
        M { opts: vec![], pos: vec![Some(vs(&self.first)), Some(vi(self.second))], sub: None }
    }
}

// ---- 9. optional positional last, plus an option ---------------------------

#[derive(ArgParse)]
#[cli(help_path = "h-cli")]
struct PosOptLast {
    first: &'static str,
    #[cli(arg = "second")]
    second: Option<u16>,
    #[cli(short = "o")]
    o: Option<i32>,
}
impl ToM for PosOptLast {
    fn to_m(&self) -> M {
        M { opts: vec![F::One(self.o.map(vi))], pos: vec![Some(vs(self.first)), self.second.map(vi)], sub: None }
    }
}

// ---- 10. positionals interleaved with options ------------------------------

#[derive(ArgParse)]
#[cli(help_path = "h-cli, pos-mixed")]
struct PosMixed {
    #[cli(long = "mode")]
    mode: &'static str,
    target: &'static UnixStr,
    #[cli(short = "f", long = "force")]
    force: bool,
    extra: Option<String>,
}
impl ToM for PosMixed {
    fn to_m(&self) -> M {
        M {
            opts: vec![one(vs(self.mode)), F::Flag(self.force)],
            pos: vec![Some(vu(self.target)), self.extra.as_deref().map(vs)],
            sub: None,
        }
    }
}

// ---- 11. required subcommand -----------------------------------------------

#[derive(ArgParse)]
#[cli(help_path = "h-cli")]
struct SubReq {
    #[cli(subcommand)]
    cmd: Cmd,
}
/// Commands of SubReq
#[derive(Subcommand)]
enum Cmd {
    /// first
    One,
    Two(TwoArgs),
    ThreeWord,
}
#[derive(ArgParse)]
#[cli(help_path = "h-cli, two")]
struct TwoArgs {
    #[cli(long = "n")]
    n: i32,
    #[cli(short = "q")]
    q: bool,
}
impl ToM for TwoArgs {
    fn to_m(&self) -> M {
        M { opts: vec![one(vi(self.n)), F::Flag(self.q)], pos: vec![], sub: None }
    }
}
impl ToM for SubReq {
    fn to_m(&self) -> M {
        let sub = match &self.cmd {
            Cmd::One => unit(0),
            Cmd::Two(t) => with(1, t),
            Cmd::ThreeWord => unit(2),
        };
        M { opts: vec![], pos: vec![], sub: Some(sub) }
    }
}

// ---- 12. optional subcommand next to options -------------------------------

#[derive(ArgParse)]
#[cli(help_path = "h-cli")]
struct SubOpt {
    #[cli(short = "l", long = "level")]
    level: Option<u8>,
    #[cli(long = "dry")]
    dry: bool,
    #[cli(subcommand)]
    cmd: Option<OptCmd>,
}
#[derive(Subcommand)]
enum OptCmd {
    Go(GoArgs),
    /// stop it
    Stop,
}
#[derive(ArgParse)]
#[cli(help_path = "h-cli, go")]
struct GoArgs {
    dest: &'static UnixStr,
    #[cli(long = "fast")]
    fast: bool,
}
impl ToM for GoArgs {
    fn to_m(&self) -> M {
        M { opts: vec![F::Flag(self.fast)], pos: vec![Some(vu(self.dest))], sub: None }
    }
}
impl ToM for SubOpt {
    fn to_m(&self) -> M {
        let sub: SubM = self.cmd.as_ref().map(|c| match c {
            OptCmd::Go(x) => with(0, x),
            OptCmd::Stop => unit(1),
        });
        M { opts: vec![F::One(self.level.map(vi)), F::Flag(self.dry)], pos: vec![], sub }
    }
}

// ---- 13. nested subcommands, three levels ----------------------------------

#[derive(ArgParse)]
struct Nested {
    #[cli(subcommand)]
    cmd: NestCmd,
}
#[derive(Subcommand)]
enum NestCmd {
    Outer(OuterArgs),
}
#[derive(ArgParse)]
#[cli(help_path = "h-cli, outer")]
struct OuterArgs {
    #[cli(long = "tag")]
    tag: Option<&'static str>,
    #[cli(subcommand)]
    inner: Option<InnerCmd>,
}
#[derive(Subcommand)]
enum InnerCmd {
    A,
    B(Leaf),
}
#[derive(ArgParse)]
#[cli(help_path = "h-cli, outer, b")]
struct Leaf {
    #[cli(long = "k")]
    k: Vec<i32>,
    #[cli(subcommand)]
    deep: Option<DeepCmd>,
}
#[derive(Subcommand)]
enum DeepCmd {
    End,
}
impl ToM for Leaf {
    fn to_m(&self) -> M {
        M { opts: vec![F::Many(self.k.iter().map(|&i| vi(i)).collect())], pos: vec![], sub: self.deep.as_ref().map(|DeepCmd::End| unit(0)) }
    }
}
impl ToM for OuterArgs {
    fn to_m(&self) -> M {
        let sub: SubM = self.inner.as_ref().map(|c| match c {
            InnerCmd::A => unit(0),
            InnerCmd::B(l) => with(1, l),
        });
        M { opts: vec![F::One(self.tag.map(vs))], pos: vec![], sub }
    }
}
impl ToM for Nested {
    fn to_m(&self) -> M {
        let NestCmd::Outer(x) = &self.cmd;
        M { opts: vec![], pos: vec![], sub: Some(with(0, x)) }
    }
}

// ---- 14. everything at once ------------------------------------------------

/// A complex tool
#[derive(ArgParse)]
#[cli(help_path = "h-cli")]
struct Complex {
    /// numeric id
    #[cli(long = "id")]
    id: i32,
    #[cli(short = "n", long = "name")]
    name: &'static UnixStr,
    #[cli(short = "t")]
    tags: Vec<String>,
    #[cli(subcommand)]
    cmd: CCmd,
}
#[derive(Subcommand)]
enum CCmd {
    /// For running
    Run(RunArgs),
    List,
    Arg(ArgArgs),
}
#[derive(ArgParse)]
#[cli(help_path = "h-cli, run")]
struct RunArgs {
    #[cli(short = "a")]
    a: Option<&'static str>,
    #[cli(short = "d")]
    d: Vec<&'static UnixStr>,
}
#[derive(ArgParse)]
#[cli(help_path = "h-cli, arg")]
struct ArgArgs {
    /// Required positional argument
    what: String,
    #[cli(short = "o")]
    o: Option<i32>,
}
impl ToM for RunArgs {
    fn to_m(&self) -> M {
        M { opts: vec![F::One(self.a.map(vs)), F::Many(self.d.iter().map(|u| vu(u)).collect())], pos: vec![], sub: None }
    }
}
impl ToM for ArgArgs {
    fn to_m(&self) -> M {
        M { opts: vec![F::One(self.o.map(vi))], pos: vec![Some(vs(&self.what))], sub: None }
    }
}
impl ToM for Complex {
    fn to_m(&self) -> M {
        let sub = match &self.cmd {
            CCmd::Run(x) => with(0, x),
            CCmd::List => unit(1),
            CCmd::Arg(x) => with(2, x),
        };
        M {
            opts: vec![one(vi(self.id)), one(vu(self.name)), F::Many(self.tags.iter().map(|s| vs(s)).collect())],
            pos: vec![],
            sub: Some(sub),
        }
    }
}

// ---- 15. no fields at all --------------------------------------------------

#[derive(ArgParse)]
#[cli(help_path = "h-cli, empty")]
struct Empty {}
impl ToM for Empty {
    fn to_m(&self) -> M {
        M::default()
    }
}

// ---- the declarations ------------------------------------------------------

fn base() -> Vec<Shape> {
    vec![
        shape("ReqOpt", g(vec![o(Some("--req"), None, Req, Unix, &[X, E, L, ACC, NU, DX, DHELP, DH, b"--req"])], vec![], None), run::<ReqOpt>, || {
            vec![help_of::<ReqOpt>()]
        }),
        shape(
            "Aliases",
            g(vec![o(Some("--long"), Some("-s"), Req, I32, &[b"7", b"0", b"2147483647", b"-5", b"-2147483648"])], vec![], None),
            run::<Aliases>,
            || vec![help_of::<Aliases>()],
        ),
        shape(
            "OptFlag",
            g(
                vec![o(Some("--opt"), Some("-o"), Opt, Str, &[X, E, L, ACC, DX, DHELP, b"-b"]), o(Some("--flag"), Some("-b"), Flag, Str, &[])],
                vec![],
                None,
            ),
            run::<OptFlag>,
            || vec![help_of::<OptFlag>()],
        ),
        shape(
            "Repeated",
            g(
                vec![o(Some("--rep"), Some("-r"), Rep, Unix, &[X, NU, DX]), o(Some("--num"), None, Rep, U64, &[b"7", b"18446744073709551615"])],
                vec![],
                None,
            ),
            run::<Repeated>,
            || vec![help_of::<Repeated>()],
        ),
        shape(
            "Mixed",
            g(
                vec![
                    o(Some("--alpha"), Some("-a"), Req, Str, &[X, E, DHELP]),
                    o(Some("--beta"), None, Opt, I64, &[b"7", b"-5"]),
                    o(Some("--gamma"), Some("-g"), Rep, Str, &[ACC, L, b"-a"]),
                    o(None, Some("-v"), Flag, Str, &[]),
                ],
                vec![],
                None,
            ),
            run::<Mixed>,
            || vec![help_of::<Mixed>()],
        ),
        shape(
            "Owned",
            g(
                vec![
                    o(Some("--us"), None, Req, UStr, &[X, E, DX]),
                    o(None, Some("-u"), Opt, UStr, &[ACC, L, b"--us"]),
                    o(Some("--big"), None, Opt, I128, &[b"7", b"-170141183460469231731687303715884105728"]),
                    o(Some("--small"), None, Rep, U8, &[b"0", b"255"]),
                ],
                vec![],
                None,
            ),
            run::<Owned>,
            || vec![help_of::<Owned>()],
        ),
        shape("Pos1", g(vec![], vec![p(true, Unix, &[X, E, L, ACC, NU])], None), run::<Pos1>, || vec![help_of::<Pos1>()]),
        shape(
            "Pos2",
            g(vec![], vec![p(true, Str, &[X, E, ACC]), p(true, I64, &[b"7", b"0", b"9223372036854775807"])], None),
            run::<Pos2>,
            || vec![help_of::<Pos2>()],
        ),
        shape(
            "PosOptLast",
            g(vec![o(None, Some("-o"), Opt, I32, &[b"0", b"-5"])], vec![p(true, Str, &[X, E, L]), p(false, U16, &[b"7", b"65535"])], None),
            run::<PosOptLast>,
            || vec![help_of::<PosOptLast>()],
        ),
        shape(
            "PosMixed",
            g(
                vec![o(Some("--mode"), None, Req, Str, &[X, DX, b"--force"]), o(Some("--force"), Some("-f"), Flag, Str, &[])],
                vec![p(true, Unix, &[X, NU, E]), p(false, Str, &[ACC, L])],
                None,
            ),
            run::<PosMixed>,
            || vec![help_of::<PosMixed>()],
        ),
        shape(
            "SubReq",
            g(
                vec![],
                vec![],
                Some(SubD {
                    required: true,
                    cmds: vec![
                        ("one", None),
                        ("two", Some(g(vec![o(Some("--n"), None, Req, I32, &[b"7", b"-5"]), o(None, Some("-q"), Flag, Str, &[])], vec![], None))),
                        ("three-word", None),
                    ],
                }),
            ),
            run::<SubReq>,
            || vec![help_of::<SubReq>(), help_of::<TwoArgs>()],
        ),
        shape(
            "SubOpt",
            g(
                vec![o(Some("--level"), Some("-l"), Opt, U8, &[b"7", b"255"]), o(Some("--dry"), None, Flag, Str, &[])],
                vec![],
                Some(SubD {
                    required: false,
                    cmds: vec![("go", Some(g(vec![o(Some("--fast"), None, Flag, Str, &[])], vec![p(true, Unix, &[X, NU, E])], None))), ("stop", None)],
                }),
            ),
            run::<SubOpt>,
            || vec![help_of::<SubOpt>(), help_of::<GoArgs>()],
        ),
        shape(
            "Nested",
            g(
                vec![],
                vec![],
                Some(SubD {
                    required: true,
                    cmds: vec![(
                        "outer",
                        Some(g(
                            vec![o(Some("--tag"), None, Opt, Str, &[X, DHELP, b"outer"])],
                            vec![],
                            Some(SubD {
                                required: false,
                                cmds: vec![
                                    ("a", None),
                                    (
                                        "b",
                                        Some(g(
                                            vec![o(Some("--k"), None, Rep, I32, &[b"7", b"-5"])],
                                            vec![],
                                            Some(SubD { required: false, cmds: vec![("end", None)] }),
                                        )),
                                    ),
                                ],
                            }),
                        )),
                    )],
                }),
            ),
            run::<Nested>,
            || vec![help_of::<Nested>(), help_of::<OuterArgs>(), help_of::<Leaf>()],
        ),
        shape(
            "Complex",
            g(
                vec![
                    o(Some("--id"), None, Req, I32, &[b"7", b"-5"]),
                    o(Some("--name"), Some("-n"), Req, Unix, &[X, NU, b"run"]),
                    o(None, Some("-t"), Rep, Str, &[E, DX]),
                ],
                vec![],
                Some(SubD {
                    required: true,
                    cmds: vec![
                        ("run", Some(g(vec![o(None, Some("-a"), Opt, Str, &[X, DH]), o(None, Some("-d"), Rep, Unix, &[L, DHELP])], vec![], None))),
                        ("list", None),
                        ("arg", Some(g(vec![o(None, Some("-o"), Opt, I32, &[b"7", b"-5"])], vec![p(true, Str, &[X, ACC])], None))),
                    ],
                }),
            ),
            run::<Complex>,
            || vec![help_of::<Complex>(), help_of::<RunArgs>(), help_of::<ArgArgs>()],
        ),
        shape("Empty", g(vec![], vec![], None), run::<Empty>, || vec![help_of::<Empty>()]),
    ]
}

/// A help printer (and its text) for the direct drive of the error constructors.
pub fn cause_help() -> (&'static dyn core::fmt::Display, String) {
    (<ReqOpt as tiny_std::unix::cli::ArgParse>::help_printer(), help_of::<ReqOpt>())
}

pub fn all() -> Vec<Shape> {
    let mut v = base();
    v.extend(collisions());
    v.extend(echoes());
    v.extend(spellings());
    v.extend(audit());
    v.extend(swallowers());
    v
}

// ===========================================================================
// Declared names that collide with the built-in help tokens `-h` / `--help`.
// A declared option is part of the declared grammar: `-h v` must parse back to `v`
// wherever the struct declares short "h" (long "help" likewise); the built-in help
// stays on whichever of the two tokens the struct does NOT declare.

// ---- 16. short "h" with another long, required; next to an ordinary option ----

/// connect somewhere
#[derive(ArgParse)]
#[cli(help_path = "h-cli, connect")]
struct HShortReq {
    /// the host
    #[cli(short = "h", long = "host")]
    host: &'static str,
    #[cli(short = "p", long = "port")]
    port: Option<u16>,
}
impl ToM for HShortReq {
    fn to_m(&self) -> M {
        M { opts: vec![one(vs(self.host)), F::One(self.port.map(vi))], pos: vec![], sub: None }
    }
}

// ---- 17. optional short "h" and repeated long "help" on two different fields ----

#[derive(ArgParse)]
#[cli(help_path = "h-cli")]
struct HOptHelpRep {
    #[cli(short = "h", long = "height")]
    height: Option<i32>,
    #[cli(short = "x", long = "help")]
    topics: Vec<&'static UnixStr>,
}
impl ToM for HOptHelpRep {
    fn to_m(&self) -> M {
        M { opts: vec![F::One(self.height.map(vi)), F::Many(self.topics.iter().map(|u| vu(u)).collect())], pos: vec![], sub: None }
    }
}

// ---- 18. boolean fields: short "h" (with a long), long "help" (alone) ----------

#[derive(ArgParse)]
#[cli(help_path = "h-cli")]
struct HFlags {
    #[cli(short = "h", long = "human")]
    human: bool,
    #[cli(long = "help")]
    help: bool,
    #[cli(short = "n")]
    n: Option<u8>,
}
impl ToM for HFlags {
    fn to_m(&self) -> M {
        M { opts: vec![F::Flag(self.human), F::Flag(self.help), F::One(self.n.map(vi))], pos: vec![], sub: None }
    }
}

// ---- 19. both built-in names on ONE required field -----------------------------

#[derive(ArgParse)]
#[cli(help_path = "h-cli")]
struct HBoth {
    #[cli(short = "h", long = "help")]
    topic: String,
    #[cli(short = "v")]
    v: bool,
}
impl ToM for HBoth {
    fn to_m(&self) -> M {
        M { opts: vec![one(vs(&self.topic)), F::Flag(self.v)], pos: vec![], sub: None }
    }
}

// ---- 20. short "h" alone (no long), repeated, next to a positional -------------

#[derive(ArgParse)]
#[cli(help_path = "h-cli")]
struct HShortOnlyRep {
    #[cli(short = "h")]
    hosts: Vec<String>,
    target: &'static UnixStr,
}
impl ToM for HShortOnlyRep {
    fn to_m(&self) -> M {
        M { opts: vec![F::Many(self.hosts.iter().map(|s| vs(s)).collect())], pos: vec![Some(vu(self.target))], sub: None }
    }
}

// ---- 21. optional long "help" with another short --------------------------------

#[derive(ArgParse)]
#[cli(help_path = "h-cli")]
struct LongHelpOpt {
    #[cli(short = "t", long = "help")]
    topic: Option<&'static str>,
    #[cli(long = "req")]
    req: i64,
}
impl ToM for LongHelpOpt {
    fn to_m(&self) -> M {
        M { opts: vec![F::One(self.topic.map(vs)), one(vi(self.req))], pos: vec![], sub: None }
    }
}

// ---- 22. collisions in a struct with a subcommand and inside subcommand variants -

#[derive(ArgParse)]
#[cli(help_path = "h-cli")]
struct HSub {
    #[cli(short = "h", long = "host")]
    host: &'static str,
    #[cli(subcommand)]
    cmd: HCmd,
}
#[derive(Subcommand)]
enum HCmd {
    Ping,
    /// declares short h again, for another field
    Get(HGetArgs),
    /// declares neither: both built-ins live here
    Plain(HPlainArgs),
}
#[derive(ArgParse)]
#[cli(help_path = "h-cli, get")]
struct HGetArgs {
    #[cli(short = "h", long = "header")]
    headers: Vec<&'static str>,
    #[cli(short = "o")]
    out: Option<&'static UnixStr>,
}
#[derive(ArgParse)]
#[cli(help_path = "h-cli, plain")]
struct HPlainArgs {
    #[cli(short = "k")]
    k: Option<i32>,
}
impl ToM for HGetArgs {
    fn to_m(&self) -> M {
        M { opts: vec![F::Many(self.headers.iter().map(|s| vs(s)).collect()), F::One(self.out.map(vu))], pos: vec![], sub: None }
    }
}
impl ToM for HPlainArgs {
    fn to_m(&self) -> M {
        M { opts: vec![F::One(self.k.map(vi))], pos: vec![], sub: None }
    }
}
impl ToM for HSub {
    fn to_m(&self) -> M {
        let sub = match &self.cmd {
            HCmd::Ping => unit(0),
            HCmd::Get(x) => with(1, x),
            HCmd::Plain(x) => with(2, x),
        };
        M { opts: vec![one(vs(self.host))], pos: vec![], sub: Some(sub) }
    }
}

// ---- 23. no collision outside, long "help" flag + short "h" option inside an optional subcommand -

#[derive(ArgParse)]
#[cli(help_path = "h-cli")]
struct HSubOpt {
    #[cli(long = "dry")]
    dry: bool,
    #[cli(subcommand)]
    cmd: Option<HOptCmd>,
}
#[derive(Subcommand)]
enum HOptCmd {
    Show(HShowArgs),
    Quit,
}
#[derive(ArgParse)]
#[cli(help_path = "h-cli, show")]
struct HShowArgs {
    #[cli(long = "help")]
    help: bool,
    #[cli(short = "h")]
    height: Option<u8>,
    what: Option<String>,
}
impl ToM for HShowArgs {
    fn to_m(&self) -> M {
        M { opts: vec![F::Flag(self.help), F::One(self.height.map(vi))], pos: vec![self.what.as_deref().map(vs)], sub: None }
    }
}
impl ToM for HSubOpt {
    fn to_m(&self) -> M {
        let sub: SubM = self.cmd.as_ref().map(|c| match c {
            HOptCmd::Show(x) => with(0, x),
            HOptCmd::Quit => unit(1),
        });
        M { opts: vec![F::Flag(self.dry)], pos: vec![], sub }
    }
}

fn collisions() -> Vec<Shape> {
    vec![
        shape(
            "HShortReq",
            g(
                vec![o(Some("--host"), Some("-h"), Req, Str, &[X, E, DH, DHELP, b"--host"]), o(Some("--port"), Some("-p"), Opt, U16, &[b"7", b"65535"])],
                vec![],
                None,
            ),
            run::<HShortReq>,
            || vec![help_of::<HShortReq>()],
        ),
        shape(
            "HOptHelpRep",
            g(
                vec![o(Some("--height"), Some("-h"), Opt, I32, &[b"7", b"-5"]), o(Some("--help"), Some("-x"), Rep, Unix, &[X, NU, DH, DHELP])],
                vec![],
                None,
            ),
            run::<HOptHelpRep>,
            || vec![help_of::<HOptHelpRep>()],
        ),
        shape(
            "HFlags",
            g(
                vec![
                    o(Some("--human"), Some("-h"), Flag, Str, &[]),
                    o(Some("--help"), None, Flag, Str, &[]),
                    o(None, Some("-n"), Opt, U8, &[b"7", b"255"]),
                ],
                vec![],
                None,
            ),
            run::<HFlags>,
            || vec![help_of::<HFlags>()],
        ),
        shape(
            "HBoth",
            g(vec![o(Some("--help"), Some("-h"), Req, Str, &[X, E, ACC, L, DH, DHELP, DX]), o(None, Some("-v"), Flag, Str, &[])], vec![], None),
            run::<HBoth>,
            || vec![help_of::<HBoth>()],
        ),
        shape(
            "HShortOnlyRep",
            g(vec![o(None, Some("-h"), Rep, Str, &[X, DH, DHELP])], vec![p(true, Unix, &[X, NU, E])], None),
            run::<HShortOnlyRep>,
            || vec![help_of::<HShortOnlyRep>()],
        ),
        shape(
            "LongHelpOpt",
            g(vec![o(Some("--help"), Some("-t"), Opt, Str, &[X, E, DHELP, DH]), o(Some("--req"), None, Req, I64, &[b"7", b"-5"])], vec![], None),
            run::<LongHelpOpt>,
            || vec![help_of::<LongHelpOpt>()],
        ),
        shape(
            "HSub",
            g(
                vec![o(Some("--host"), Some("-h"), Req, Str, &[X, DH, b"get"])],
                vec![],
                Some(SubD {
                    required: true,
                    cmds: vec![
                        ("ping", None),
                        (
                            "get",
                            Some(g(vec![o(Some("--header"), Some("-h"), Rep, Str, &[X, DHELP]), o(None, Some("-o"), Opt, Unix, &[NU, DH])], vec![], None)),
                        ),
                        ("plain", Some(g(vec![o(None, Some("-k"), Opt, I32, &[b"7", b"-5"])], vec![], None))),
                    ],
                }),
            ),
            run::<HSub>,
            || vec![help_of::<HSub>(), help_of::<HGetArgs>(), help_of::<HPlainArgs>()],
        ),
        shape(
            "HSubOpt",
            g(
                vec![o(Some("--dry"), None, Flag, Str, &[])],
                vec![],
                Some(SubD {
                    required: false,
                    cmds: vec![
                        (
                            "show",
                            Some(g(
                                vec![o(Some("--help"), None, Flag, Str, &[]), o(None, Some("-h"), Opt, U8, &[b"7", b"255"])],
                                vec![p(false, Str, &[X, ACC])],
                                None,
                            )),
                        ),
                        ("quit", None),
                    ],
                }),
            ),
            run::<HSubOpt>,
            || vec![help_of::<HSubOpt>(), help_of::<HShowArgs>()],
        ),
    ]
}

// ===========================================================================
// User field types whose `FromStr::Err` echoes the offending character: every way
// text can reach the fixed-size cause buffer of the error path (`write_str`, a `char`
// format argument -> `write_char`, Debug of a char, nested `format_args!`, padding).
// A value is a (possibly empty) run of ASCII letters and digits; the first other
// character is reported together with the text before it.

pub struct BadChar {
    before: String,
    c: char,
}
fn word(s: &str) -> Result<String, BadChar> {
    for (i, c) in s.char_indices() {
        if !c.is_ascii_alphanumeric() {
            return Err(BadChar { before: s[..i].to_string(), c });
        }
    }
    Ok(s.to_string())
}
macro_rules! echo_type {
    ($name:ident, $err:ident, |$e:ident, $f:ident| $body:expr) => {
        pub struct $name(String);
        pub struct $err(BadChar);
        impl core::str::FromStr for $name {
            type Err = $err;
            fn from_str(s: &str) -> Result<Self, Self::Err> {
                word(s).map($name).map_err($err)
            }
        }
        impl core::fmt::Display for $err {
            fn fmt(&self, $f: &mut core::fmt::Formatter<'_>) -> core::fmt::Result {
                let $e = &self.0;
                $body
            }
        }
    };
}
use core::fmt::Write as _;
echo_type!(EchoDisp, EchoDispErr, |e, f| write!(f, "after '{}': bad char {}", e.before, e.c));
echo_type!(EchoDbg, EchoDbgErr, |e, f| write!(f, "after '{}': bad char {:?}", e.before, e.c));
echo_type!(EchoWc, EchoWcErr, |e, f| {
    f.write_str(&e.before)?;
    f.write_char(e.c)
});
echo_type!(EchoNested, EchoNestedErr, |e, f| write!(f, "{}", format_args!("{}: {}", format_args!("after {}", e.before), e.c)));
echo_type!(EchoPad, EchoPadErr, |e, f| write!(f, "{}{:>3}|{:-<2}", e.before, e.c, e.c));

#[derive(ArgParse)]
#[cli(help_path = "h-cli, echo-opts")]
struct EchoOpts {
    #[cli(long = "disp")]
    d: Option<EchoDisp>,
    #[cli(long = "dbg")]
    g: Option<EchoDbg>,
    #[cli(short = "w")]
    w: Vec<EchoWc>,
}
impl ToM for EchoOpts {
    fn to_m(&self) -> M {
        M {
            opts: vec![F::One(self.d.as_ref().map(|x| vs(&x.0))), F::One(self.g.as_ref().map(|x| vs(&x.0))), F::Many(self.w.iter().map(|x| vs(&x.0)).collect())],
            pos: vec![],
            sub: None,
        }
    }
}

#[derive(ArgParse)]
#[cli(help_path = "h-cli, echo-pos")]
struct EchoPos {
    first: EchoNested,
    second: Option<EchoPad>,
}
impl ToM for EchoPos {
    fn to_m(&self) -> M {
        M { opts: vec![], pos: vec![Some(vs(&self.first.0)), self.second.as_ref().map(|x| vs(&x.0))], sub: None }
    }
}

fn echoes() -> Vec<Shape> {
    vec![
        shape(
            "EchoOpts",
            g(
                vec![
                    o(Some("--disp"), None, Opt, Word, &[X, E, b"12x"]),
                    o(Some("--dbg"), None, Opt, Word, &[b"7", L]),
                    o(None, Some("-w"), Rep, Word, &[X, E]),
                ],
                vec![],
                None,
            ),
            run::<EchoOpts>,
            || vec![help_of::<EchoOpts>()],
        ),
        shape("EchoPos", g(vec![], vec![p(true, Word, &[X, E, L]), p(false, Word, &[b"12x", b"7"])], None), run::<EchoPos>, || vec![help_of::<EchoPos>()]),
    ]
}

// ===========================================================================
// Spelling of names.  The declared grammar is what the unchanged derive does with a name
// (checked case by case before writing these declarations), written out BY HAND below:
//  * a Subcommand variant `PascalCase` is spelled kebab-case with Unicode case mapping:
//    every upper-case letter (also a non-ASCII one) starts a new `-word` and is lower-cased
//    with its full mapping (`İ` -> `i` + U+0307);
//  * an explicit `long = "..."` / `short = "."` literal is lower-cased (Unicode) and `_` becomes `-`.
// `alts` are near-miss spellings (the tag / the literal as written, ASCII-only case mapping,
// missing dash): they are fed to sweep 2 as tokens and must NOT be recognised.

fn with_alts(mut gr: Grammar, alts: &[&'static str]) -> Grammar {
    gr.alts = alts.to_vec();
    gr
}

// ---- 26. non-ASCII variant identifiers, non-ASCII option literals --------------

#[derive(ArgParse)]
#[cli(help_path = "h-cli, uni")]
struct UniSub {
    #[cli(long = "größe")]
    size: Option<i32>,
    #[cli(subcommand)]
    cmd: UniCmd,
}
#[derive(Subcommand)]
enum UniCmd {
    /// leading non-ASCII capital
    Ändra,
    /// inner non-ASCII capital
    VisaÖversikt(ÖversiktArgs),
    /// non-ASCII lower-case only
    Straße,
    İstanbul,
    ÉÉ,
}
#[derive(ArgParse)]
#[cli(help_path = "h-cli, uni, visa-översikt")]
struct ÖversiktArgs {
    #[cli(long = "Ärger_Maß")]
    a: Vec<&'static str>,
    #[cli(short = "ö")]
    o: bool,
    #[cli(short = "Å", long = "İd")]
    id: Option<u8>,
}
impl ToM for ÖversiktArgs {
    fn to_m(&self) -> M {
        M { opts: vec![F::Many(self.a.iter().map(|s| vs(s)).collect()), F::Flag(self.o), F::One(self.id.map(vi))], pos: vec![], sub: None }
    }
}
impl ToM for UniSub {
    fn to_m(&self) -> M {
        let sub = match &self.cmd {
            UniCmd::Ändra => unit(0),
            UniCmd::VisaÖversikt(x) => with(1, x),
            UniCmd::Straße => unit(2),
            UniCmd::İstanbul => unit(3),
            UniCmd::ÉÉ => unit(4),
        };
        M { opts: vec![F::One(self.size.map(vi))], pos: vec![], sub: Some(sub) }
    }
}

// ---- 27. non-ASCII field names (positionals are named after the field) ---------

#[derive(ArgParse)]
#[cli(help_path = "h-cli, fält")]
struct UniFields {
    größe: i32,
    #[cli(long = "maß")]
    maß: Option<&'static UnixStr>,
    übrig: Option<String>,
}
impl ToM for UniFields {
    fn to_m(&self) -> M {
        M { opts: vec![F::One(self.maß.map(vu))], pos: vec![Some(vi(self.größe)), self.übrig.as_deref().map(vs)], sub: None }
    }
}

// ---- 28. explicitly written long/short literals of every kind ------------------

#[derive(ArgParse)]
#[cli(help_path = "h-cli, lits")]
struct LongLits {
    #[cli(long = "dry_run")]
    dry: bool,
    #[cli(long = "Out_Dir")]
    out: Option<&'static str>,
    #[cli(long = "v2")]
    v2: Option<u8>,
    #[cli(long = "already-kebab")]
    k: Option<i32>,
    #[cli(short = "V", long = "MiXed_case-Name9")]
    m: bool,
    #[cli(long = "UPPER")]
    u: Option<&'static UnixStr>,
}
impl ToM for LongLits {
    fn to_m(&self) -> M {
        M {
            opts: vec![F::Flag(self.dry), F::One(self.out.map(vs)), F::One(self.v2.map(vi)), F::One(self.k.map(vi)), F::Flag(self.m), F::One(self.u.map(vu))],
            pos: vec![],
            sub: None,
        }
    }
}

// ---- 29. the same kinds inside a subcommand variant, ASCII multi-word tags -----

#[derive(ArgParse)]
#[cli(help_path = "h-cli, tags")]
struct TagSub {
    #[cli(subcommand)]
    cmd: Option<TagCmd>,
}
#[derive(Subcommand)]
enum TagCmd {
    X,
    HTTPGet,
    Do2Things(Do2Args),
}
#[derive(ArgParse)]
#[cli(help_path = "h-cli, tags, do2-things")]
struct Do2Args {
    #[cli(long = "Snake_Case_Req")]
    r: i32,
    #[cli(short = "Q", long = "q_q")]
    q: bool,
}
impl ToM for Do2Args {
    fn to_m(&self) -> M {
        M { opts: vec![one(vi(self.r)), F::Flag(self.q)], pos: vec![], sub: None }
    }
}
impl ToM for TagSub {
    fn to_m(&self) -> M {
        let sub: SubM = self.cmd.as_ref().map(|c| match c {
            TagCmd::X => unit(0),
            TagCmd::HTTPGet => unit(1),
            TagCmd::Do2Things(x) => with(2, x),
        });
        M { opts: vec![], pos: vec![], sub }
    }
}

fn spellings() -> Vec<Shape> {
    vec![
        shape(
            "UniSub",
            with_alts(
                g(
                    vec![o(Some("--größe"), None, Opt, I32, &[b"7", b"-5"])],
                    vec![],
                    Some(SubD {
                        required: true,
                        cmds: vec![
                            ("ändra", None),
                            (
                                "visa-översikt",
                                Some(with_alts(
                                    g(
                                        vec![
                                            o(Some("--ärger-maß"), None, Rep, Str, &[X, ACC]),
                                            o(None, Some("-ö"), Flag, Str, &[]),
                                            o(Some("--i\u{307}d"), Some("-å"), Opt, U8, &[b"7"]),
                                        ],
                                        vec![],
                                        None,
                                    ),
                                    &["--Ärger_Maß", "--ärger_maß", "--Ärger-Maß", "-Ö", "-Å", "--İd", "--id"],
                                )),
                            ),
                            ("straße", None),
                            ("i\u{307}stanbul", None),
                            ("é-é", None),
                        ],
                    }),
                ),
                &["Ändra", "VisaÖversikt", "visaÖversikt", "visaöversikt", "visa-Översikt", "Straße", "strasse", "İstanbul", "istanbul", "ÉÉ", "éé", "É-É", "--Größe", "--GRÖSSE"],
            ),
            run::<UniSub>,
            || vec![help_of::<UniSub>(), help_of::<ÖversiktArgs>()],
        ),
        shape(
            "UniFields",
            g(vec![o(Some("--maß"), None, Opt, Unix, &[X, NU])], vec![p(true, I32, &[b"7", b"0"]), p(false, Str, &[X, ACC])], None),
            run::<UniFields>,
            || vec![help_of::<UniFields>()],
        ),
        shape(
            "LongLits",
            with_alts(
                g(
                    vec![
                        o(Some("--dry-run"), None, Flag, Str, &[]),
                        o(Some("--out-dir"), None, Opt, Str, &[X, b"--Out_Dir"]),
                        o(Some("--v2"), None, Opt, U8, &[b"7"]),
                        o(Some("--already-kebab"), None, Opt, I32, &[b"7", b"-5"]),
                        o(Some("--mixed-case-name9"), Some("-v"), Flag, Str, &[]),
                        o(Some("--upper"), None, Opt, Unix, &[X, NU]),
                    ],
                    vec![],
                    None,
                ),
                &["--dry_run", "--Out_Dir", "--out_dir", "--Out-Dir", "--V2", "--already_kebab", "-V", "--MiXed_case-Name9", "--mixed_case-name9", "--UPPER"],
            ),
            run::<LongLits>,
            || vec![help_of::<LongLits>()],
        ),
        shape(
            "TagSub",
            with_alts(
                g(
                    vec![],
                    vec![],
                    Some(SubD {
                        required: false,
                        cmds: vec![
                            ("x", None),
                            ("h-t-t-p-get", None),
                            (
                                "do2-things",
                                Some(with_alts(
                                    g(vec![o(Some("--snake-case-req"), None, Req, I32, &[b"7", b"-5"]), o(Some("--q-q"), Some("-q"), Flag, Str, &[])], vec![], None),
                                    &["--Snake_Case_Req", "--snake_case_req", "-Q", "--q_q"],
                                )),
                            ),
                        ],
                    }),
                ),
                &["X", "HTTPGet", "http-get", "httpget", "Do2Things", "do-2-things", "do2things"],
            ),
            run::<TagSub>,
            || vec![help_of::<TagSub>(), help_of::<Do2Args>()],
        ),
    ]
}

// ===========================================================================
// Shapes pinning the deviations an audit of the unchanged derive reported (2026-10-03).
// Each declaration below is the grammar the SOURCE TEXT declares; the keys these shapes
// raise are the pinned findings.

// ---- 30. exactly one command, single-valued options (audit 1) -------------------

#[derive(ArgParse)]
#[cli(help_path = "svc")]
struct Svc {
    #[cli(long = "num")]
    num: i32,
    #[cli(long = "name")]
    name: Option<&'static str>,
    #[cli(subcommand)]
    cmd: SvcCmd,
}
#[derive(Subcommand)]
enum SvcCmd {
    Start,
    Stop,
    Purge(PurgeArgs),
}
#[derive(ArgParse)]
#[cli(help_path = "svc, purge")]
struct PurgeArgs {
    #[cli(short = "f")]
    force: bool,
}
impl ToM for PurgeArgs {
    fn to_m(&self) -> M {
        M { opts: vec![F::Flag(self.force)], pos: vec![], sub: None }
    }
}
impl ToM for Svc {
    fn to_m(&self) -> M {
        let sub = match &self.cmd {
            SvcCmd::Start => unit(0),
            SvcCmd::Stop => unit(1),
            SvcCmd::Purge(x) => with(2, x),
        };
        M { opts: vec![one(vi(self.num)), F::One(self.name.map(vs))], pos: vec![], sub: Some(sub) }
    }
}

// ---- 31. optional positional declared before a required one (audit 2) ----------

#[derive(ArgParse)]
#[cli(help_path = "cp")]
struct OptPosFirst {
    first: Option<i32>,
    second: i32,
}
impl ToM for OptPosFirst {
    fn to_m(&self) -> M {
        M { opts: vec![], pos: vec![self.first.map(vi), Some(vi(self.second))], sub: None }
    }
}

// ---- 32-34. an attribute between #[cli(..)] and the field (audit 3) -------------

#[derive(ArgParse)]
#[cli(help_path = "doc-after")]
struct AttrDocAfter {
    #[cli(long = "count")]
    /// How many times
    count: i32,
}
impl ToM for AttrDocAfter {
    fn to_m(&self) -> M {
        M { opts: vec![one(vi(self.count))], pos: vec![], sub: None }
    }
}
#[derive(ArgParse)]
#[cli(help_path = "allow-after")]
struct AttrAllowAfter {
    #[cli(long = "out")]
    #[allow(unused)]
    out: Option<&'static str>,
}
impl ToM for AttrAllowAfter {
    fn to_m(&self) -> M {
        M { opts: vec![F::One(self.out.map(vs))], pos: vec![], sub: None }
    }
}
#[derive(ArgParse)]
#[cli(help_path = "two-cli")]
struct AttrTwoCli {
    #[cli(short = "o")]
    #[cli(long = "out")]
    out: Option<&'static str>,
}
impl ToM for AttrTwoCli {
    fn to_m(&self) -> M {
        M { opts: vec![F::One(self.out.map(vs))], pos: vec![], sub: None }
    }
}

// ---- 35. #[cli(arg = "<identifier of another field>")] (audit 6a) ---------------

#[derive(ArgParse)]
#[cli(help_path = "mv")]
struct ArgSwap {
    #[cli(arg = "dst")]
    src: &'static str,
    #[cli(arg = "src")]
    dst: &'static str,
}
impl ToM for ArgSwap {
    fn to_m(&self) -> M {
        M { opts: vec![], pos: vec![Some(vs(self.src)), Some(vs(self.dst))], sub: None }
    }
}

fn audit() -> Vec<Shape> {
    let mut svc = shape(
        "Svc",
        g(
            vec![o(Some("--num"), None, Req, I32, &[b"7", b"-5"]), o(Some("--name"), None, Opt, Str, &[X, b"start"])],
            vec![],
            Some(SubD { required: true, cmds: vec![("start", None), ("stop", None), ("purge", Some(g(vec![o(None, Some("-f"), Flag, Str, &[])], vec![], None)))] }),
        ),
        run::<Svc>,
        || vec![help_of::<Svc>(), help_of::<PurgeArgs>()],
    );
    svc.strict_repeats = true;
    vec![
        svc,
        shape("OptPosFirst", g(vec![], vec![p(false, I32, &[b"7", b"0"]), p(true, I32, &[b"7", b"0"])], None), run::<OptPosFirst>, || {
            vec![help_of::<OptPosFirst>()]
        }),
        shape("AttrDocAfter", g(vec![o(Some("--count"), None, Req, I32, &[b"7", b"-5"])], vec![], None), run::<AttrDocAfter>, || vec![help_of::<AttrDocAfter>()]),
        shape("AttrAllowAfter", g(vec![o(Some("--out"), None, Opt, Str, &[X, DX])], vec![], None), run::<AttrAllowAfter>, || vec![help_of::<AttrAllowAfter>()]),
        shape("AttrTwoCli", g(vec![o(Some("--out"), Some("-o"), Opt, Str, &[X, DX])], vec![], None), run::<AttrTwoCli>, || vec![help_of::<AttrTwoCli>()]),
        shape("ArgSwap", g(vec![], vec![p(true, Str, &[X, E]), p(true, Str, &[b"7", ACC])], None), run::<ArgSwap>, || vec![help_of::<ArgSwap>()]),
    ]
}

// ===========================================================================
// Field types whose `FromStr::Err` Display is best-effort: it swallows the error of a
// write the cause buffer refused.  A value is a possibly empty run of Unicode letters and
// digits; the error echoes the run before the first other character.  Whatever the
// Display does, the parser must hand back an error value that renders.

fn word_u(s: &str) -> Result<String, BadChar> {
    for (i, c) in s.char_indices() {
        if !c.is_alphanumeric() {
            return Err(BadChar { before: s[..i].to_string(), c });
        }
    }
    Ok(s.to_string())
}
macro_rules! swallow_type {
    ($name:ident, $err:ident, |$e:ident, $f:ident| $body:expr) => {
        pub struct $name(String);
        pub struct $err(BadChar);
        impl core::str::FromStr for $name {
            type Err = $err;
            fn from_str(s: &str) -> Result<Self, Self::Err> {
                word_u(s).map($name).map_err($err)
            }
        }
        impl core::fmt::Display for $err {
            fn fmt(&self, $f: &mut core::fmt::Formatter<'_>) -> core::fmt::Result {
                let $e = &self.0;
                $body
            }
        }
    };
}
// ignore-and-Ok
swallow_type!(SwAll, SwAllErr, |e, f| {
    let _ = write!(f, "after '{}': bad char {}", e.before, e.c);
    Ok(())
});
// a middle piece may fail, the rest is written regardless
swallow_type!(SwMiddle, SwMiddleErr, |e, f| {
    f.write_str("after ")?;
    let _ = f.write_str(&e.before);
    let _ = f.write_char(e.c);
    let _ = f.write_str(".");
    Ok(())
});
// writes a marker after a failure
swallow_type!(SwAfter, SwAfterErr, |e, f| {
    if f.write_str(&e.before).is_err() {
        let _ = f.write_str("…");
    }
    let _ = write!(f, "{:?}", e.c);
    Ok(())
});

#[derive(ArgParse)]
#[cli(help_path = "h-cli, swallow-opts")]
struct SwallowOpts {
    #[cli(long = "all")]
    a: Option<SwAll>,
    #[cli(long = "mid")]
    b: Option<SwMiddle>,
    #[cli(short = "k")]
    c: Vec<SwAfter>,
}
impl ToM for SwallowOpts {
    fn to_m(&self) -> M {
        M {
            opts: vec![F::One(self.a.as_ref().map(|x| vs(&x.0))), F::One(self.b.as_ref().map(|x| vs(&x.0))), F::Many(self.c.iter().map(|x| vs(&x.0)).collect())],
            pos: vec![],
            sub: None,
        }
    }
}
#[derive(ArgParse)]
#[cli(help_path = "h-cli, swallow-pos")]
struct SwallowPos {
    first: SwMiddle,
    second: Option<SwAll>,
}
impl ToM for SwallowPos {
    fn to_m(&self) -> M {
        M { opts: vec![], pos: vec![Some(vs(&self.first.0)), self.second.as_ref().map(|x| vs(&x.0))], sub: None }
    }
}

fn swallowers() -> Vec<Shape> {
    vec![
        shape(
            "SwallowOpts",
            g(
                vec![o(Some("--all"), None, Opt, WordU, &[X, ACC]), o(Some("--mid"), None, Opt, WordU, &[b"7", E]), o(None, Some("-k"), Rep, WordU, &[X, ACC])],
                vec![],
                None,
            ),
            run::<SwallowOpts>,
            || vec![help_of::<SwallowOpts>()],
        ),
        shape("SwallowPos", g(vec![], vec![p(true, WordU, &[X, ACC, E]), p(false, WordU, &[b"12x", L])], None), run::<SwallowPos>, || vec![help_of::<SwallowPos>()]),
    ]
}
