//! The family of derived parsers under test.  For every shape: the struct/enum
//! definitions (expanded by the repository's proc-macro), the conversion of a parsed
//! value into the harness's value model, and the hand-written declaration of its grammar.
#![allow(dead_code)]

use crate::Kind::{Flag, Opt, Rep, Req};
use crate::Ty::{Str, Unix, UnixString as UStr};
use crate::{help_of, number, run, Grammar, Kind, OptD, PosD, Shape, SubD, ToM, Tok, Ty, F, L200, M, V};
use tiny_cli::{ArgParse, Subcommand};
use tiny_std::{UnixStr, UnixString};

// ---- value helpers ---------------------------------------------------------

fn vu(u: &UnixStr) -> V {
    let s = u.as_slice();
    V::B(s[..s.len() - 1].to_vec())
}
fn vs(s: &str) -> V {
    V::B(s.as_bytes().to_vec())
}
fn vi<T: Into<i128> + Copy>(i: T) -> V {
    V::I(i.into())
}
fn one(v: V) -> F {
    F::One(Some(v))
}
type SubM = Option<(usize, Option<Box<M>>)>;
fn unit(j: usize) -> (usize, Option<Box<M>>) {
    (j, None)
}
fn with<T: ToM>(j: usize, t: &T) -> (usize, Option<Box<M>>) {
    (j, Some(Box::new(t.to_m())))
}

// ---- declaration helpers ---------------------------------------------------

const I32: Ty = Ty::Int(i32::MIN as i128, i32::MAX as i128);
const I64: Ty = Ty::Int(i64::MIN as i128, i64::MAX as i128);
const I128: Ty = Ty::Int(i128::MIN, i128::MAX);
const U8: Ty = Ty::Int(0, u8::MAX as i128);
const U16: Ty = Ty::Int(0, u16::MAX as i128);
const U64: Ty = Ty::Int(0, u64::MAX as i128);

const X: Tok = b"x";
const E: Tok = b"";
const L: Tok = L200;
const ACC: Tok = "é".as_bytes();
const NU: Tok = b"\xff\xfe";
const DX: Tok = b"-x";
const DHELP: Tok = b"--help";
const DH: Tok = b"-h";

fn o(long: Option<&'static str>, short: Option<&'static str>, kind: Kind, ty: Ty, dom: &'static [Tok]) -> OptD {
    OptD { long, short, kind, ty, dom }
}
fn p(required: bool, ty: Ty, dom: &'static [Tok]) -> PosD {
    PosD { required, ty, dom }
}
fn g(opts: Vec<OptD>, pos: Vec<PosD>, sub: Option<SubD>) -> Grammar {
    Grammar { id: 0, opts, pos, sub }
}
fn shape(name: &'static str, mut gr: Grammar, parse: fn(&[&'static UnixStr]) -> crate::Outcome, helps: fn() -> Vec<String>) -> Shape {
    number(&mut gr, &mut 0);
    Shape { name, g: gr, parse, helps }
}

// ---- 1. required option, long name only, &'static UnixStr -------------------

#[derive(ArgParse)]
#[cli(help_path = "h-cli, req-opt")]
struct ReqOpt {
    #[cli(long = "req")]
    req: &'static UnixStr,
}
impl ToM for ReqOpt {
    fn to_m(&self) -> M {
        M { opts: vec![one(vu(self.req))], pos: vec![], sub: None }
    }
}

// ---- 2. required option with short+long alias, integer ----------------------

#[derive(ArgParse)]
struct Aliases {
    #[cli(short = "s", long = "long")]
    v: i32,
}
impl ToM for Aliases {
    fn to_m(&self) -> M {
        M { opts: vec![one(vi(self.v))], pos: vec![], sub: None }
    }
}

// ---- 3. optional option and a flag -----------------------------------------

/// Optional option and a flag
#[derive(ArgParse)]
#[cli(help_path = "h-cli")]
struct OptFlag {
    /// an optional string
    #[cli(short = "o", long = "opt")]
    o: Option<&'static str>,
    #[cli(short = "b", long = "flag")]
    b: bool,
}
impl ToM for OptFlag {
    fn to_m(&self) -> M {
        M { opts: vec![F::One(self.o.map(vs)), F::Flag(self.b)], pos: vec![], sub: None }
    }
}

// ---- 4. repeated options ---------------------------------------------------

#[derive(ArgParse)]
#[cli(help_path = "h-cli")]
struct Repeated {
    #[cli(short = "r", long = "rep")]
    r: Vec<&'static UnixStr>,
    #[cli(long = "num")]
    n: Vec<u64>,
}
impl ToM for Repeated {
    fn to_m(&self) -> M {
        M {
            opts: vec![F::Many(self.r.iter().map(|u| vu(u)).collect()), F::Many(self.n.iter().map(|&i| vi(i)).collect())],
            pos: vec![],
            sub: None,
        }
    }
}

// ---- 5. required + optional + repeated + flag ------------------------------

/// All packagings together
#[derive(ArgParse)]
#[cli(help_path = "h-cli, mixed")]
struct Mixed {
    #[cli(short = "a", long = "alpha")]
    a: String,
    /// optional number
    #[cli(long = "beta")]
    b: Option<i64>,
    #[cli(short = "g", long = "gamma")]
    g: Vec<&'static str>,
    #[cli(short = "v")]
    v: bool,
}
impl ToM for Mixed {
    fn to_m(&self) -> M {
        M {
            opts: vec![one(vs(&self.a)), F::One(self.b.map(vi)), F::Many(self.g.iter().map(|s| vs(s)).collect()), F::Flag(self.v)],
            pos: vec![],
            sub: None,
        }
    }
}

// ---- 6. owned field types --------------------------------------------------

#[derive(ArgParse)]
#[cli(help_path = "h-cli")]
struct Owned {
    #[cli(long = "us")]
    us: UnixString,
    #[cli(short = "u")]
    ou: Option<UnixString>,
    #[cli(long = "big")]
    big: Option<i128>,
    #[cli(long = "small")]
    small: Vec<u8>,
}
impl ToM for Owned {
    fn to_m(&self) -> M {
        M {
            opts: vec![
                one(vu(&self.us)),
                F::One(self.ou.as_ref().map(|u| vu(u))),
                F::One(self.big.map(vi)),
                F::Many(self.small.iter().map(|&i| vi(i)).collect()),
            ],
            pos: vec![],
            sub: None,
        }
    }
}

// ---- 7. one positional -----------------------------------------------------

#[derive(ArgParse)]
#[cli(help_path = "h-cli")]
struct Pos1 {
    /// the target
    target: &'static UnixStr,
}
impl ToM for Pos1 {
    fn to_m(&self) -> M {
        M { opts: vec![], pos: vec![Some(vu(self.target))], sub: None }
    }
}

// ---- 8. two positionals ----------------------------------------------------

#[derive(ArgParse)]
#[cli(help_path = "h-cli")]
struct Pos2 {
    first: String,
    second: i64,
}
impl ToM for Pos2 {
    fn to_m(&self) -> M {
        M { opts: vec![], pos: vec![Some(vs(&self.first)), Some(vi(self.second))], sub: None }
    }
}

// ---- 9. optional positional last, plus an option ---------------------------

#[derive(ArgParse)]
#[cli(help_path = "h-cli")]
struct PosOptLast {
    first: &'static str,
    #[cli(arg = "second")]
    second: Option<u16>,
    #[cli(short = "o")]
    o: Option<i32>,
}
impl ToM for PosOptLast {
    fn to_m(&self) -> M {
        M { opts: vec![F::One(self.o.map(vi))], pos: vec![Some(vs(self.first)), self.second.map(vi)], sub: None }
    }
}

// ---- 10. positionals interleaved with options ------------------------------

#[derive(ArgParse)]
#[cli(help_path = "h-cli, pos-mixed")]
struct PosMixed {
    #[cli(long = "mode")]
    mode: &'static str,
    target: &'static UnixStr,
    #[cli(short = "f", long = "force")]
    force: bool,
    extra: Option<String>,
}
impl ToM for PosMixed {
    fn to_m(&self) -> M {
        M {
            opts: vec![one(vs(self.mode)), F::Flag(self.force)],
            pos: vec![Some(vu(self.target)), self.extra.as_deref().map(vs)],
            sub: None,
        }
    }
}

// ---- 11. required subcommand -----------------------------------------------

#[derive(ArgParse)]
#[cli(help_path = "h-cli")]
struct SubReq {
    #[cli(subcommand)]
    cmd: Cmd,
}
/// Commands of SubReq
#[derive(Subcommand)]
enum Cmd {
    /// first
    One,
    Two(TwoArgs),
    ThreeWord,
}
#[derive(ArgParse)]
#[cli(help_path = "h-cli, two")]
struct TwoArgs {
    #[cli(long = "n")]
    n: i32,
    #[cli(short = "q")]
    q: bool,
}
impl ToM for TwoArgs {
    fn to_m(&self) -> M {
        M { opts: vec![one(vi(self.n)), F::Flag(self.q)], pos: vec![], sub: None }
    }
}
impl ToM for SubReq {
    fn to_m(&self) -> M {
        let sub = match &self.cmd {
            Cmd::One => unit(0),
            Cmd::Two(t) => with(1, t),
            Cmd::ThreeWord => unit(2),
        };
        M { opts: vec![], pos: vec![], sub: Some(sub) }
    }
}

// ---- 12. optional subcommand next to options -------------------------------

#[derive(ArgParse)]
#[cli(help_path = "h-cli")]
struct SubOpt {
    #[cli(short = "l", long = "level")]
    level: Option<u8>,
    #[cli(long = "dry")]
    dry: bool,
    #[cli(subcommand)]
    cmd: Option<OptCmd>,
}
#[derive(Subcommand)]
enum OptCmd {
    Go(GoArgs),
    /// stop it
    Stop,
}
#[derive(ArgParse)]
#[cli(help_path = "h-cli, go")]
struct GoArgs {
    dest: &'static UnixStr,
    #[cli(long = "fast")]
    fast: bool,
}
impl ToM for GoArgs {
    fn to_m(&self) -> M {
        M { opts: vec![F::Flag(self.fast)], pos: vec![Some(vu(self.dest))], sub: None }
    }
}
impl ToM for SubOpt {
    fn to_m(&self) -> M {
        let sub: SubM = self.cmd.as_ref().map(|c| match c {
            OptCmd::Go(x) => with(0, x),
            OptCmd::Stop => unit(1),
        });
        M { opts: vec![F::One(self.level.map(vi)), F::Flag(self.dry)], pos: vec![], sub }
    }
}

// ---- 13. nested subcommands, three levels ----------------------------------

#[derive(ArgParse)]
struct Nested {
    #[cli(subcommand)]
    cmd: NestCmd,
}
#[derive(Subcommand)]
enum NestCmd {
    Outer(OuterArgs),
}
#[derive(ArgParse)]
#[cli(help_path = "h-cli, outer")]
struct OuterArgs {
    #[cli(long = "tag")]
    tag: Option<&'static str>,
    #[cli(subcommand)]
    inner: Option<InnerCmd>,
}
#[derive(Subcommand)]
enum InnerCmd {
    A,
    B(Leaf),
}
#[derive(ArgParse)]
#[cli(help_path = "h-cli, outer, b")]
struct Leaf {
    #[cli(long = "k")]
    k: Vec<i32>,
    #[cli(subcommand)]
    deep: Option<DeepCmd>,
}
#[derive(Subcommand)]
enum DeepCmd {
    End,
}
impl ToM for Leaf {
    fn to_m(&self) -> M {
        M { opts: vec![F::Many(self.k.iter().map(|&i| vi(i)).collect())], pos: vec![], sub: self.deep.as_ref().map(|DeepCmd::End| unit(0)) }
    }
}
impl ToM for OuterArgs {
    fn to_m(&self) -> M {
        let sub: SubM = self.inner.as_ref().map(|c| match c {
            InnerCmd::A => unit(0),
            InnerCmd::B(l) => with(1, l),
        });
        M { opts: vec![F::One(self.tag.map(vs))], pos: vec![], sub }
    }
}
impl ToM for Nested {
    fn to_m(&self) -> M {
        let NestCmd::Outer(x) = &self.cmd;
        M { opts: vec![], pos: vec![], sub: Some(with(0, x)) }
    }
}

// ---- 14. everything at once ------------------------------------------------

/// A complex tool
#[derive(ArgParse)]
#[cli(help_path = "h-cli")]
struct Complex {
    /// numeric id
    #[cli(long = "id")]
    id: i32,
    #[cli(short = "n", long = "name")]
    name: &'static UnixStr,
    #[cli(short = "t")]
    tags: Vec<String>,
    #[cli(subcommand)]
    cmd: CCmd,
}
#[derive(Subcommand)]
enum CCmd {
    /// For running
    Run(RunArgs),
    List,
    Arg(ArgArgs),
}
#[derive(ArgParse)]
#[cli(help_path = "h-cli, run")]
struct RunArgs {
    #[cli(short = "a")]
    a: Option<&'static str>,
    #[cli(short = "d")]
    d: Vec<&'static UnixStr>,
}
#[derive(ArgParse)]
#[cli(help_path = "h-cli, arg")]
struct ArgArgs {
    /// Required positional argument
    what: String,
    #[cli(short = "o")]
    o: Option<i32>,
}
impl ToM for RunArgs {
    fn to_m(&self) -> M {
        M { opts: vec![F::One(self.a.map(vs)), F::Many(self.d.iter().map(|u| vu(u)).collect())], pos: vec![], sub: None }
    }
}
impl ToM for ArgArgs {
    fn to_m(&self) -> M {
        M { opts: vec![F::One(self.o.map(vi))], pos: vec![Some(vs(&self.what))], sub: None }
    }
}
impl ToM for Complex {
    fn to_m(&self) -> M {
        let sub = match &self.cmd {
            CCmd::Run(x) => with(0, x),
            CCmd::List => unit(1),
            CCmd::Arg(x) => with(2, x),
        };
        M {
            opts: vec![one(vi(self.id)), one(vu(self.name)), F::Many(self.tags.iter().map(|s| vs(s)).collect())],
            pos: vec![],
            sub: Some(sub),
        }
    }
}

// ---- 15. no fields at all --------------------------------------------------

#[derive(ArgParse)]
#[cli(help_path = "h-cli, empty")]
struct Empty {}
impl ToM for Empty {
    fn to_m(&self) -> M {
        M::default()
    }
}

// ---- the declarations ------------------------------------------------------

pub fn all() -> Vec<Shape> {
    vec![
        shape("ReqOpt", g(vec![o(Some("--req"), None, Req, Unix, &[X, E, L, ACC, NU, DX, DHELP, DH, b"--req"])], vec![], None), run::<ReqOpt>, || {
            vec![help_of::<ReqOpt>()]
        }),
        shape(
            "Aliases",
            g(vec![o(Some("--long"), Some("-s"), Req, I32, &[b"7", b"0", b"2147483647", b"-5", b"-2147483648"])], vec![], None),
            run::<Aliases>,
            || vec![help_of::<Aliases>()],
        ),
        shape(
            "OptFlag",
            g(
                vec![o(Some("--opt"), Some("-o"), Opt, Str, &[X, E, L, ACC, DX, DHELP, b"-b"]), o(Some("--flag"), Some("-b"), Flag, Str, &[])],
                vec![],
                None,
            ),
            run::<OptFlag>,
            || vec![help_of::<OptFlag>()],
        ),
        shape(
            "Repeated",
            g(
                vec![o(Some("--rep"), Some("-r"), Rep, Unix, &[X, NU, DX]), o(Some("--num"), None, Rep, U64, &[b"7", b"18446744073709551615"])],
                vec![],
                None,
            ),
            run::<Repeated>,
            || vec![help_of::<Repeated>()],
        ),
        shape(
            "Mixed",
            g(
                vec![
                    o(Some("--alpha"), Some("-a"), Req, Str, &[X, E, DHELP]),
                    o(Some("--beta"), None, Opt, I64, &[b"7", b"-5"]),
                    o(Some("--gamma"), Some("-g"), Rep, Str, &[ACC, L, b"-a"]),
                    o(None, Some("-v"), Flag, Str, &[]),
                ],
                vec![],
                None,
            ),
            run::<Mixed>,
            || vec![help_of::<Mixed>()],
        ),
        shape(
            "Owned",
            g(
                vec![
                    o(Some("--us"), None, Req, UStr, &[X, E, DX]),
                    o(None, Some("-u"), Opt, UStr, &[ACC, L, b"--us"]),
                    o(Some("--big"), None, Opt, I128, &[b"7", b"-170141183460469231731687303715884105728"]),
                    o(Some("--small"), None, Rep, U8, &[b"0", b"255"]),
                ],
                vec![],
                None,
            ),
            run::<Owned>,
            || vec![help_of::<Owned>()],
        ),
        shape("Pos1", g(vec![], vec![p(true, Unix, &[X, E, L, ACC, NU])], None), run::<Pos1>, || vec![help_of::<Pos1>()]),
        shape(
            "Pos2",
            g(vec![], vec![p(true, Str, &[X, E, ACC]), p(true, I64, &[b"7", b"0", b"9223372036854775807"])], None),
            run::<Pos2>,
            || vec![help_of::<Pos2>()],
        ),
        shape(
            "PosOptLast",
            g(vec![o(None, Some("-o"), Opt, I32, &[b"0", b"-5"])], vec![p(true, Str, &[X, E, L]), p(false, U16, &[b"7", b"65535"])], None),
            run::<PosOptLast>,
            || vec![help_of::<PosOptLast>()],
        ),
        shape(
            "PosMixed",
            g(
                vec![o(Some("--mode"), None, Req, Str, &[X, DX, b"--force"]), o(Some("--force"), Some("-f"), Flag, Str, &[])],
                vec![p(true, Unix, &[X, NU, E]), p(false, Str, &[ACC, L])],
                None,
            ),
            run::<PosMixed>,
            || vec![help_of::<PosMixed>()],
        ),
        shape(
            "SubReq",
            g(
                vec![],
                vec![],
                Some(SubD {
                    required: true,
                    cmds: vec![
                        ("one", None),
                        ("two", Some(g(vec![o(Some("--n"), None, Req, I32, &[b"7", b"-5"]), o(None, Some("-q"), Flag, Str, &[])], vec![], None))),
                        ("three-word", None),
                    ],
                }),
            ),
            run::<SubReq>,
            || vec![help_of::<SubReq>(), help_of::<TwoArgs>()],
        ),
        shape(
            "SubOpt",
            g(
                vec![o(Some("--level"), Some("-l"), Opt, U8, &[b"7", b"255"]), o(Some("--dry"), None, Flag, Str, &[])],
                vec![],
                Some(SubD {
                    required: false,
                    cmds: vec![("go", Some(g(vec![o(Some("--fast"), None, Flag, Str, &[])], vec![p(true, Unix, &[X, NU, E])], None))), ("stop", None)],
                }),
            ),
            run::<SubOpt>,
            || vec![help_of::<SubOpt>(), help_of::<GoArgs>()],
        ),
        shape(
            "Nested",
            g(
                vec![],
                vec![],
                Some(SubD {
                    required: true,
                    cmds: vec![(
                        "outer",
                        Some(g(
                            vec![o(Some("--tag"), None, Opt, Str, &[X, DHELP, b"outer"])],
                            vec![],
                            Some(SubD {
                                required: false,
                                cmds: vec![
                                    ("a", None),
                                    (
                                        "b",
                                        Some(g(
                                            vec![o(Some("--k"), None, Rep, I32, &[b"7", b"-5"])],
                                            vec![],
                                            Some(SubD { required: false, cmds: vec![("end", None)] }),
                                        )),
                                    ),
                                ],
                            }),
                        )),
                    )],
                }),
            ),
            run::<Nested>,
            || vec![help_of::<Nested>(), help_of::<OuterArgs>(), help_of::<Leaf>()],
        ),
        shape(
            "Complex",
            g(
                vec![
                    o(Some("--id"), None, Req, I32, &[b"7", b"-5"]),
                    o(Some("--name"), Some("-n"), Req, Unix, &[X, NU, b"run"]),
                    o(None, Some("-t"), Rep, Str, &[E, DX]),
                ],
                vec![],
                Some(SubD {
                    required: true,
                    cmds: vec![
                        ("run", Some(g(vec![o(None, Some("-a"), Opt, Str, &[X, DH]), o(None, Some("-d"), Rep, Unix, &[L, DHELP])], vec![], None))),
                        ("list", None),
                        ("arg", Some(g(vec![o(None, Some("-o"), Opt, I32, &[b"7", b"-5"])], vec![p(true, Str, &[X, ACC])], None))),
                    ],
                }),
            ),
            run::<Complex>,
            || vec![help_of::<Complex>(), help_of::<RunArgs>(), help_of::<ArgArgs>()],
        ),
        shape("Empty", g(vec![], vec![], None), run::<Empty>, || vec![help_of::<Empty>()]),
    ]
}
