//! The C03 phases: hist, boundary, placement, oom.

use crate::exec::*;
use crate::kernel::*;
use common::*;
use serde_json::json;

pub const MIB: usize = 1 << 20;

pub fn dense_limit(thorough: bool) -> usize {
    if thorough {
        4 * MIB
    } else {
        128 * 1024
    }
}

pub fn hist_sizes(thorough: bool) -> Vec<usize> {
    let mut v = vec![1, 24, 248, 1000, 70_000, 3 * MIB];
    if thorough {
        v.extend([25, 249, 65_000, MIB, 20 * MIB]);
        v.sort();
    }
    v
}

/// The operation alphabet of the history enumerators.
#[derive(Clone, Debug)]
pub struct Alpha {
    /// (size, align) of malloc
    pub mallocs: Vec<(usize, usize)>,
    /// (size, align) of calloc
    pub callocs: Vec<(usize, usize)>,
    /// new sizes of realloc
    pub sizes: Vec<usize>,
}
impl Alpha {
    /// malloc(s, a) for a in {8, 64, 4096}, calloc(s, 8), realloc(_, s)
    pub fn new(sizes: &[usize]) -> Alpha {
        let mut mallocs = Vec::new();
        for &s in sizes {
            for a in [8usize, 64, 4096] {
                mallocs.push((s, a));
            }
        }
        Alpha { mallocs, callocs: sizes.iter().map(|&s| (s, 8)).collect(), sizes: sizes.to_vec() }
    }
    pub fn describe(&self) -> String {
        format!(
            "malloc(size,align) in {:?}, calloc(size,align) in {:?}, realloc(live slot, s) s in {:?}, free(live slot)",
            self.mallocs, self.callocs, self.sizes
        )
    }
}

/// The operations possible at a state with the given live slots.
pub fn next_ops(live: &[bool; 3], al: &Alpha, out: &mut Vec<Op>) {
    out.clear();
    let nlive = live.iter().filter(|x| **x).count();
    if nlive < 3 {
        for &(s, a) in &al.mallocs {
            out.push(Op::Malloc { size: s, align: a });
        }
        for &(s, a) in &al.callocs {
            out.push(Op::Calloc { size: s, align: a });
        }
    }
    for (slot, l) in live.iter().enumerate() {
        if *l {
            for &s in &al.sizes {
                out.push(Op::Realloc { slot, size: s });
            }
        }
    }
    for (slot, l) in live.iter().enumerate() {
        if *l {
            out.push(Op::Free { slot });
        }
    }
}

pub fn apply_live(live: &mut [bool; 3], op: Op) {
    match op {
        Op::Malloc { .. } | Op::Calloc { .. } => {
            let s = live.iter().position(|x| !*x).expect("alphabet keeps <= 3 live");
            live[s] = true;
        }
        Op::Free { slot } => live[slot] = false,
        Op::Realloc { .. } => {}
    }
}

/// Every history of exactly `depth` operations (all shorter ones are its prefixes) that extends `prefix`.
pub fn for_each_history(prefix: &[Op], depth: usize, al: &Alpha, f: &mut dyn FnMut(&[Op])) {
    fn rec(h: &mut Vec<Op>, live: [bool; 3], depth: usize, al: &Alpha, f: &mut dyn FnMut(&[Op])) {
        if h.len() == depth {
            f(h);
            return;
        }
        let mut ops = Vec::new();
        next_ops(&live, al, &mut ops);
        for op in ops {
            let mut l2 = live;
            apply_live(&mut l2, op);
            h.push(op);
            rec(h, l2, depth, al, f);
            h.pop();
        }
    }
    let mut live = [false; 3];
    for &op in prefix {
        apply_live(&mut live, op);
    }
    let mut h = prefix.to_vec();
    rec(&mut h, live, depth.max(prefix.len()), al, f);
}

pub fn prefixes(len: usize, al: &Alpha) -> Vec<Vec<Op>> {
    let mut v = Vec::new();
    for_each_history(&[], len, al, &mut |h| v.push(h.to_vec()));
    v
}

fn involves_large(h: &[Op]) -> bool {
    h.iter().any(|o| match *o {
        Op::Malloc { size, .. } | Op::Calloc { size, .. } | Op::Realloc { size, .. } => size >= 60_000,
        _ => false,
    })
}

// ---------------------------------------------------------------------------
// hist

/// The families of histories of the hist phase: (alphabet, exact length).  Lengths differ between
/// families, so no history is generated twice.
pub fn hist_families(th: bool) -> Vec<(Alpha, usize)> {
    let small_only = |al: &mut Alpha| {
        // the 3 MiB calloc and the over-aligned 3 MiB malloc (whose realloc always copies 3 MiB) stay in the shorter families
        al.callocs.retain(|x| x.0 < MIB);
        al.mallocs.retain(|x| x.0 < MIB || x.1 == 8);
    };
    let mut v = Vec::new();
    if !th {
        v.push((Alpha::new(&hist_sizes(false)), 3));
        let mut deep = Alpha::new(&[24, 1000, 70_000, 3 * MIB]);
        small_only(&mut deep);
        v.push((deep, 4));
    } else {
        let mut full = Alpha::new(&hist_sizes(true));
        full.callocs = full.mallocs.clone();
        v.push((full, 3));
        v.push((Alpha::new(&hist_sizes(false)), 4));
        let mut deep = Alpha::new(&[24, 1000, 70_000, 3 * MIB]);
        small_only(&mut deep);
        deep.mallocs.retain(|x| x.1 != 64);
        v.push((deep, 5));
        let mut tiny = Alpha::new(&[24, 1000, 70_000]);
        tiny.mallocs.retain(|x| x.1 == 8);
        v.push((tiny, 6));
    }
    if let Some(d) = std::env::var("H_ALLOC_DEPTH").ok().and_then(|s| s.parse::<usize>().ok()) {
        v.truncate(1);
        v[0].1 = d;
    }
    v
}

pub fn hist(args: &Args) -> Report {
    let th = args.thorough;
    let fams = hist_families(th);
    let nsh = if th { 256usize } else { 64 };
    let dl = dense_limit(th);
    // work items: (family, prefix of length 2), dealt round-robin to the shards
    let mut work: Vec<(usize, Vec<Op>)> = Vec::new();
    for (fi, (al, depth)) in fams.iter().enumerate() {
        for p in prefixes(2.min(*depth), al) {
            work.push((fi, p));
        }
    }
    let mut items = Vec::new();
    for sh in 0..nsh {
        let fams = fams.clone();
        let work: Vec<(usize, Vec<Op>)> = work.iter().enumerate().filter(|(i, _)| i % nsh == sh).map(|(_, w)| w.clone()).collect();
        items.push(isolated(format!("hist-{sh}"), move || {
            let mut r = Report::new();
            let mut w = World::new(dl);
            let mut nhist = 0usize;
            for (fi, p) in &work {
                let (al, depth) = &fams[*fi];
                for_each_history(p, *depth, al, &mut |h| {
                    r.eval();
                    r.nontrivial_unique();
                    let c = Case::plain("hist", h.to_vec());
                    run_case(&mut w, &c, &mut r, false);
                    // first family: also in an aged heap (countdown expires on the next / second tree-binned free)
                    if *fi == 0 && h[1..].iter().any(|o| matches!(o, Op::Free { .. } | Op::Realloc { .. })) {
                        nhist += 1;
                        for v in [1u64, 2] {
                            run_with_countdown(&mut w, &c, 1, v, nhist % 160 == 0, false, &mut r);
                        }
                    }
                });
            }
            if sh == 0 {
                r.sample(json!({"phase":"hist","history":["m24.8","c70000.8","r0.3145728","f1"]}));
                r.sample(json!({"phase":"hist","history":["m3145728.4096","f0","m1000.64"]}));
            }
            r
        }));
    }
    let mut r = run_isolated(items, &args.out, "C03");
    r.rule = format!(
        "for each family (alphabet, n): every history of exactly n operations (shorter ones are their prefixes; the oracle runs after every operation) with <= 3 live slots \
         (an allocation goes to the lowest free slot, realloc/free name any live slot); each run starts from a fresh allocator over an empty model address space, placement policy T \
         (Linux-like top-down first fit). Families: {}. Each history is generated once (the families have different lengths); every one is non-trivial (it reaches the allocator).",
        fams.iter().map(|(al, d)| format!("[n={d}: {}]", al.describe())).collect::<Vec<_>>().join(" ")
    );
    r.bound("depths", json!(fams.iter().map(|f| f.1).collect::<Vec<_>>()));
    r.bound("sizes_first_family", json!(fams[0].0.sizes));
    r.bound("max_live", 3);
    r.bound("dense_pattern_limit_bytes", dl);
    r
}

// ---------------------------------------------------------------------------
// boundary

pub struct Seed {
    pub name: &'static str,
    pub ops: Vec<Op>,
    pub script: Vec<Policy>,
}

/// tracks which slots a sequence of operations occupies (allocation goes to the lowest free slot)
#[derive(Clone, Default)]
pub struct Slots(pub Vec<bool>);
impl Slots {
    pub fn alloc(&mut self) -> usize {
        match self.0.iter().position(|x| !*x) {
            Some(i) => {
                self.0[i] = true;
                i
            }
            None => {
                self.0.push(true);
                self.0.len() - 1
            }
        }
    }
    pub fn free(&mut self, s: usize) {
        self.0[s] = false;
    }
    pub fn after(ops: &[Op]) -> Slots {
        let mut s = Slots::default();
        for o in ops {
            match *o {
                Op::Malloc { .. } | Op::Calloc { .. } => {
                    s.alloc();
                }
                Op::Free { slot } => s.free(slot),
                _ => {}
            }
        }
        s
    }
}

struct B {
    ops: Vec<Op>,
    s: Slots,
}
impl B {
    fn new(s: Slots) -> B {
        B { ops: vec![], s }
    }
    fn m(&mut self, size: usize, align: usize) -> usize {
        self.ops.push(Op::Malloc { size, align });
        self.s.alloc()
    }
    fn c(&mut self, size: usize, align: usize) -> usize {
        self.ops.push(Op::Calloc { size, align });
        self.s.alloc()
    }
    fn r(&mut self, slot: usize, size: usize) {
        self.ops.push(Op::Realloc { slot, size });
    }
    fn f(&mut self, slot: usize) {
        self.ops.push(Op::Free { slot });
        self.s.free(slot);
    }
}

pub fn seeds() -> Vec<Seed> {
    use Policy::*;
    let mut v = Vec::new();
    let mk = |name: &'static str, script: Vec<Policy>, build: &dyn Fn(&mut B)| {
        let mut b = B::new(Slots::default());
        build(&mut b);
        Seed { name, ops: b.ops, script }
    };
    v.push(mk("empty", vec![], &|_| {}));
    v.push(mk("smallbin-chunk", vec![], &|b| {
        let a = b.m(24, 8);
        b.m(24, 8);
        b.f(a);
    }));
    v.push(mk("dv-present", vec![], &|b| {
        let a = b.m(200, 8);
        b.m(24, 8);
        b.f(a);
        b.m(100, 8);
    }));
    v.push(mk("treebin-3-sizes", vec![], &|b| {
        let x = b.m(300, 8);
        b.m(24, 8);
        let y = b.m(600, 8);
        b.m(24, 8);
        let z = b.m(5000, 8);
        b.m(24, 8);
        b.f(x);
        b.f(y);
        b.f(z);
    }));
    v.push(mk("treebin-same-size-chain", vec![], &|b| {
        let x = b.m(1000, 8);
        b.m(24, 8);
        let y = b.m(1000, 8);
        b.m(24, 8);
        let z = b.m(1040, 8);
        b.m(24, 8);
        let u = b.m(1200, 8);
        b.m(24, 8);
        let t = b.m(1000, 8);
        b.m(24, 8);
        b.f(x);
        b.f(z);
        b.f(y);
        b.f(u);
        b.f(t);
    }));
    v.push(mk("two-segments-disjoint", vec![TopDown, Disjoint], &|b| {
        b.m(1000, 8);
        b.m(200_000, 8);
    }));
    v.push(mk("two-segments-prepended", vec![TopDown, Below], &|b| {
        b.m(1000, 8);
        b.m(200_000, 8);
    }));
    v.push(mk("two-segments-extended", vec![TopDown, Above], &|b| {
        b.m(1000, 8);
        b.m(200_000, 8);
    }));
    v.push(mk("three-segments-down-up", vec![TopDown, Disjoint, DisjointUp], &|b| {
        b.m(1000, 8);
        b.m(200_000, 8);
        b.m(300_000, 8);
    }));
    v.push(mk("three-segments-middle-free", vec![TopDown, Disjoint, Disjoint], &|b| {
        b.m(1000, 8);
        let x = b.m(200_000, 8);
        b.m(300_000, 8);
        b.f(x);
    }));
    v.push(mk("three-segments-touching", vec![TopDown, Disjoint, Above], &|b| {
        // the third mapping touches the first segment from above while top lives in the second
        b.m(1000, 8);
        b.m(200_000, 8);
        b.m(300_000, 8);
    }));
    v.push(mk("exhausted-top", vec![], &|b| {
        // 65432 + 8 -> chunk 65440; + top foot 80 + 16 = 65536: top is left with 16 bytes
        b.m(65432, 8);
    }));
    v.push(mk("after-memalign", vec![], &|b| {
        b.m(24, 8);
        b.m(100, 4096);
    }));
    v.push(mk("after-trim", vec![], &|b| {
        b.m(24, 8);
        let x = b.m(3 * MIB, 8);
        b.f(x);
    }));
    v.push(mk("after-trim-and-segment-release", vec![TopDown, Disjoint, Disjoint], &|b| {
        let a = b.m(1000, 8);
        b.m(200_000, 8);
        let x = b.m(3 * MIB, 8);
        b.f(a);
        b.f(x);
    }));
    v
}

pub fn boundary_sizes(thorough: bool) -> Vec<usize> {
    let mut v: Vec<usize> = Vec::new();
    // small bins: chunk sizes 16..=256 step 8; a request r gets chunk align16(r + 8)
    for c in (16..=256usize).step_by(8) {
        for d in [-1i64, 0, 1] {
            let r = c as i64 - 8 + d;
            if r >= 1 {
                v.push(r as usize);
            }
        }
    }
    // tree bins: chunk-size boundaries 2^k and 1.5 * 2^k
    let deltas: &[i64] = if thorough { &[-24, -16, -9, -8, -7, 0, 8] } else { &[-16, -8, 0] };
    for k in 8..=24u32 {
        for b in [1usize << k, 3usize << (k - 1)] {
            for d in deltas {
                v.push((b as i64 + d) as usize);
            }
        }
    }
    // granularity: chunk + 96 == n * 64 KiB  <=>  request == n * 65536 - 104
    for n in 1..=3usize {
        for d in [-16i64, -8, -1, 0, 1, 8, 16] {
            v.push((n as i64 * 65536 - 104 + d) as usize);
        }
    }
    // trim threshold (top > 2 MiB after the free)
    for d in [-65536i64 - 104, -104 - 8, -104, -96, -8, 0, 8, 65536] {
        v.push((2 * MIB as i64 + d) as usize);
    }
    v.extend([20 * MIB, 32 * MIB - 8, 40 * MIB]);
    v.sort();
    v.dedup();
    v
}

pub const ALL_ALIGNS: [usize; 14] = [1, 2, 4, 8, 16, 32, 64, 128, 256, 512, 1024, 2048, 4096, 8192];

/// The operation shapes applied at (size, align) on top of a seed; each returned list is one case.
pub fn shapes(seed_ops: &[Op], s: usize, a: usize) -> Vec<(&'static str, Vec<Op>)> {
    let base = Slots::after(seed_ops);
    let mut out = Vec::new();
    let mut sh = |name: &'static str, f: &dyn Fn(&mut B)| {
        let mut b = B::new(base.clone());
        f(&mut b);
        out.push((name, b.ops));
    };
    sh("malloc-free", &|b| {
        let x = b.m(s, a);
        b.f(x);
    });
    sh("calloc-free", &|b| {
        let x = b.c(s, a);
        b.f(x);
    });
    sh("realloc-grow", &|b| {
        let x = b.m((s / 2).max(1), a);
        b.r(x, s);
        b.f(x);
    });
    sh("realloc-shrink", &|b| {
        let x = b.m(2 * s, a);
        b.r(x, s);
        b.f(x);
    });
    for order in 0..2 {
        sh("realloc-moving", &|b| {
            let x = b.m((s / 2).max(1), a);
            let y = b.m(24, 8);
            b.r(x, s);
            if order == 0 {
                b.f(x);
                b.f(y);
            } else {
                b.f(y);
                b.f(x);
            }
        });
    }
    for perm in permutations(3) {
        sh("three-then-free-order", &|b| {
            let x = [b.m(s, a), b.c(s, a), b.m(s, a)];
            for &i in &perm {
                b.f(x[i]);
            }
        });
    }
    out
}

pub fn boundary_cases(thorough: bool) -> Vec<Case> {
    let mut v = Vec::new();
    let sizes = boundary_sizes(thorough);
    for seed in seeds() {
        for &s in &sizes {
            for &a in &ALL_ALIGNS {
                if !thorough && s > MIB && !(a == 8 || a == 4096) {
                    continue;
                }
                if !thorough && s > 65536 && !matches!(a, 1 | 8 | 16 | 64 | 4096 | 8192) {
                    continue;
                }
                for (name, ops) in shapes(&seed.ops, s, a) {
                    if !thorough && s > 4 * MIB && matches!(name, "realloc-moving" | "three-then-free-order") {
                        continue;
                    }
                    v.push(Case {
                        phase: "boundary",
                        seed_name: seed.name.to_string(),
                        seed: seed.ops.clone(),
                        ops,
                        script: seed.script.clone(),
                        default_policy: Policy::TopDown,
                        refuse: vec![],
                        sticky: false,
                        loop_ops: vec![],
                        loop_max: 0,
                        post: vec![],
                        countdown: None,
                        countdown_brute: false,
                    });
                }
            }
        }
    }
    v
}

pub fn boundary(args: &Args) -> Report {
    let th = args.thorough;
    let dl = dense_limit(th);
    let nsh = 64usize;
    let mut items = Vec::new();
    let n_sizes = boundary_sizes(th).len();
    for sh in 0..nsh {
        items.push(isolated(format!("boundary-{sh}"), move || {
            let mut r = Report::new();
            let mut w = World::new(dl);
            // interleave so that the expensive (large) sizes are spread over the shards
            for (i, c) in boundary_cases(th).into_iter().enumerate() {
                if i % nsh != sh {
                    continue;
                }
                r.eval();
                r.nontrivial_unique();
                let info = run_case(&mut w, &c, &mut r, false);
                if !info.completed && !info.violated {
                    r.outcome("history-ended-early(null-without-refusal)");
                }
                if i % 50_021 == 0 {
                    r.sample(c.to_json());
                }
            }
            r
        }));
    }
    let mut r = run_isolated(items, &args.out, "C03");
    r.rule = format!(
        "Cartesian grid: {} seed heap states (fixed prefixes, themselves checked: {:?}) x {n_sizes} request sizes at every size-class boundary (small-bin chunk sizes 16..256 +-1 byte; \
         tree-bin boundaries 2^k and 1.5*2^k, k=8..24, with offsets {}; 64 KiB granularity multiples 1..3 +-; the 2 MiB trim threshold +-; 20, 32, 40 MiB) x alignments {ALL_ALIGNS:?}{} \
         x 12 operation shapes (malloc-free, calloc-free, realloc grow, realloc shrink, realloc forced to move x 2 free orders, three same-size blocks x 3! free orders); \
         every grid point generated once and non-trivial (reaches the allocator)",
        seeds().len(),
        seeds().iter().map(|s| s.name).collect::<Vec<_>>(),
        if th { "-24,-16,-9,-8,-7,0,+8" } else { "-16,-8,0" },
        if th { "" } else { " (sizes above 64 KiB: alignments 1, 8, 16, 64, 4096, 8192 only; above 1 MiB: 8 and 4096 only; sizes above 4 MiB: the first four shapes only)" }
    );
    r.bound("seeds", seeds().len());
    r.bound("sizes", n_sizes);
    r.bound("alignments", ALL_ALIGNS.len());
    r.bound("max_size_bytes", 80 * MIB);
    r.bound("dense_pattern_limit_bytes", dl);
    r
}

// ---------------------------------------------------------------------------
// placement

/// Run `c.ops` under every placement script: depth-first over the choice at each mmap the run performs.
fn placement_tree(w: &mut World, base: &Case, r: &mut Report) {
    let mut stack: Vec<Vec<Policy>> = vec![vec![]];
    while let Some(script) = stack.pop() {
        let mut c = base.clone();
        c.script = script.clone();
        // positions beyond the script use T; the run tells how many mmaps there are
        let mut scratch = Report::new();
        let info = run_case(w, &c, &mut scratch, false);
        let n = if info.completed { info.mmaps } else { w.k.mmaps };
        if n > script.len() && !info.violated {
            // not a leaf: branch on the next undecided mmap (the run itself is repeated as the T child)
            for p in ALL_POLICIES.iter().rev() {
                let mut s2 = script.clone();
                s2.push(*p);
                stack.push(s2);
            }
            continue;
        }
        // leaf: the script decides every mmap of the run
        r.eval();
        r.nontrivial_unique();
        r.outcome(&format!("script-length-{}", script.len()));
        r.merge(scratch);
    }
}

/// Multi-segment release scenarios: n = 3, 4 heap segments that do not touch, each owning one large block
/// (300 000 bytes or 3 MiB), every order of freeing all blocks, then a trigger of the allocator's release
/// pass over its segment list while several list-adjacent segments are completely free:
/// (a) a 3 MiB malloc+free (top passes the trim threshold), (b, thorough) the release_checks countdown:
/// up to 4200 repetitions of malloc(1000) malloc(24) free free (one binned large free each).
pub fn multiseg_cases(th: bool) -> Vec<Case> {
    let mut v = Vec::new();
    for n in [3usize, 4] {
        let perms = permutations(n);
        for mask in 0..(1usize << n) {
            let sizes: Vec<usize> = (0..n).map(|i| if mask >> i & 1 == 1 { 3 * MIB } else { 300_000 }).collect();
            for (pname, script, default) in [
                ("all-D", vec![], Policy::Disjoint),
                ("all-U", vec![], Policy::DisjointUp),
                ("alternating-D-U", (0..12).map(|i| if i % 2 == 0 { Policy::Disjoint } else { Policy::DisjointUp }).collect(), Policy::Disjoint),
            ] {
                for perm in &perms {
                    let mut ops: Vec<Op> = sizes.iter().map(|&s| Op::Malloc { size: s, align: 8 }).collect();
                    ops.extend(perm.iter().map(|&i| Op::Free { slot: i }));
                    let mk = |loop_ops: Vec<Op>, loop_max: usize, post: Vec<Op>| Case {
                        phase: "multiseg",
                        seed_name: format!("{n}-segments-{pname}"),
                        seed: vec![],
                        ops: ops.clone(),
                        script: script.clone(),
                        default_policy: default,
                        refuse: vec![],
                        sticky: false,
                        loop_ops,
                        loop_max,
                        post,
                        countdown: None,
                        countdown_brute: false,
                    };
                    let m = |size| Op::Malloc { size, align: 8 };
                    v.push(mk(vec![], 0, vec![m(3 * MIB), Op::Free { slot: 0 }, m(1000), m(300_000), Op::Free { slot: 0 }, Op::Free { slot: 1 }]));
                    if th {
                        v.push(mk(
                            vec![m(1000), m(24), Op::Free { slot: 0 }, Op::Free { slot: 1 }],
                            4200,
                            vec![m(1000), m(300_000), Op::Free { slot: 0 }, Op::Free { slot: 1 }],
                        ));
                    }
                }
            }
        }
    }
    v
}

// ---------------------------------------------------------------------------
// junction family: what kind of chunk sits where a new mapping joins an existing segment

/// A constructed heap state whose segment boundary chunk (first chunk for a mapping placed directly
/// below = prepend, `top` for a mapping placed directly above = extend) is of a known kind.
pub struct Junction {
    pub name: String,
    pub seed: Vec<Op>,
    /// placement of the mmaps of the seed; the mmap of the big request gets `big_policy`
    pub script: Vec<Policy>,
    pub big_policy: Policy,
    slots: Slots,
    /// the block whose free meets the junction chunk (the neighbour behind a free first chunk, the in-use
    /// first chunk itself, the block in front of top)
    key: Option<usize>,
    /// size of the junction chunk (for top kinds: of top) and of the key neighbour's chunk
    j: usize,
    nbr: usize,
    pub expect: Ev,
}

pub fn junctions() -> Vec<Junction> {
    use Policy::*;
    let mut v = Vec::new();
    let first_top = 65536 - 80; // top of a fresh 64 KiB segment
    // (name, builder -> (key, junction chunk size, neighbour chunk size))
    type Build = fn(&mut B) -> (Option<usize>, usize, usize);
    let prepend_kinds: Vec<(&str, Build)> = vec![
        ("first-chunk-in-use", |b| {
            let a = b.m(200, 8);
            b.m(24, 8);
            b.m(24, 8);
            (Some(a), 208, 208)
        }),
        ("first-chunk-free-in-small-bin", |b| {
            let a = b.m(200, 8);
            let g = b.m(24, 8);
            b.m(24, 8);
            b.f(a);
            (Some(g), 208, 32)
        }),
        ("first-chunk-free-in-tree-bin", |b| {
            let a = b.m(1000, 8);
            let g = b.m(24, 8);
            b.m(24, 8);
            b.f(a);
            (Some(g), 1008, 32)
        }),
        ("first-chunk-was-dv", |b| {
            // free, smaller malloc that splits, free: remainder and freed chunk merge into dv at the segment base
            let x = b.m(200, 8);
            let g = b.m(24, 8);
            b.m(24, 8);
            b.f(x);
            let y = b.m(100, 8);
            b.f(y);
            (Some(g), 208, 32)
        }),
        ("first-chunk-was-large-dv", |b| {
            let x = b.m(2000, 8);
            let g = b.m(24, 8);
            b.m(24, 8);
            b.f(x);
            let y = b.m(100, 8);
            b.f(y);
            (Some(g), 2016, 32)
        }),
        ("first-chunk-in-use-dv-behind-it", |b| {
            let x = b.m(200, 8);
            b.m(24, 8);
            b.m(24, 8);
            b.f(x);
            let y = b.m(100, 8);
            (Some(y), 112, 112)
        }),
        ("first-chunk-was-top", |b| {
            let a = b.m(200, 8);
            b.f(a);
            (None, 65536 - 80, 0)
        }),
    ];
    for (name, build) in &prepend_kinds {
        // the segment is the head segment (holds top) ...
        let mut b = B::new(Slots::default());
        let (key, j, nbr) = build(&mut b);
        v.push(Junction { name: format!("prepend:{name}"), seed: b.ops.clone(), script: vec![TopDown], big_policy: Below, slots: b.s.clone(), key, j, nbr, expect: Ev::MapBelowAdjacent });
        // ... or an older segment: a second segment above it (one page apart) becomes the head, B then has room only below the old one
        let mut b = B::new(Slots::default());
        let (key, j, nbr) = build(&mut b);
        b.m(70_000, 8);
        v.push(Junction {
            name: format!("prepend-to-older-segment:{name}"),
            seed: b.ops.clone(),
            script: vec![TopDown, DisjointUp],
            big_policy: Below,
            slots: b.s.clone(),
            key,
            j,
            nbr,
            expect: Ev::MapBelowAdjacent,
        });
    }
    let extend_kinds: Vec<(&str, usize)> = vec![("top-large", 200), ("top-small", 65432 - 304), ("top-exhausted", 65432)];
    for (name, first) in extend_kinds {
        let mut b = B::new(Slots::default());
        let a = b.m(first, 8);
        let used = (first + 8 + 15) & !15;
        v.push(Junction {
            name: format!("extend:{name}"),
            seed: b.ops.clone(),
            script: vec![TopDown],
            big_policy: Above,
            slots: b.s.clone(),
            key: Some(a),
            j: first_top - used,
            nbr: used,
            expect: Ev::MapAboveAdjacent,
        });
    }
    {
        // mapping directly above an older segment while top lives elsewhere: a new segment that touches the old one's end
        let mut b = B::new(Slots::default());
        let a = b.m(200, 8);
        b.m(70_000, 8);
        v.push(Junction {
            name: "above-older-segment(touching,new-segment)".into(),
            seed: b.ops.clone(),
            script: vec![TopDown, Disjoint],
            big_policy: Above,
            slots: b.s.clone(),
            key: Some(a),
            j: 0,
            nbr: 208,
            expect: Ev::MapAboveAdjacent,
        });
    }
    v
}

/// request sizes that force an mmap and leave, of the new mapping, a remainder that is minimal (96 bytes),
/// small (tree-bin sized, 304 bytes) or large (about 31 KiB)
pub const JUNCTION_SIZES: [usize; 3] = [2 * 65536 - 104, 2 * 65536 - 104 - 208, 100_000];

#[derive(Clone, Copy, PartialEq, Eq, Debug)]
enum JAct {
    FreeKey,
    FreeBig,
    MallocMerged,
    MallocSmall,
    MallocRemainder,
    MallocJunctionPlusNeighbour,
    MallocJunction,
}

pub fn junction_cases(th: bool) -> Vec<(String, Case)> {
    let max_len = if th { 5 } else { 4 };
    let mut out = Vec::new();
    for jn in junctions() {
        for &big in &JUNCTION_SIZES {
            let nb = (big + 8 + 15) & !15;
            let asize = (nb + 96 + 65535) & !65535;
            let q = asize - nb; // what is left of the new mapping
            let mut acts = vec![JAct::FreeBig, JAct::MallocMerged, JAct::MallocSmall, JAct::MallocRemainder];
            if jn.key.is_some() {
                acts.insert(0, JAct::FreeKey);
            }
            if jn.j >= 32 {
                acts.push(JAct::MallocJunction);
                if jn.nbr > 0 {
                    acts.push(JAct::MallocJunctionPlusNeighbour);
                }
            }
            let mut seqs: Vec<Vec<JAct>> = Vec::new();
            fn rec(cur: &mut Vec<JAct>, acts: &[JAct], max_len: usize, out: &mut Vec<Vec<JAct>>) {
                if !cur.is_empty() {
                    out.push(cur.clone());
                }
                if cur.len() == max_len {
                    return;
                }
                for &a in acts {
                    if matches!(a, JAct::FreeKey | JAct::FreeBig) && cur.contains(&a) {
                        continue;
                    }
                    cur.push(a);
                    rec(cur, acts, max_len, out);
                    cur.pop();
                }
            }
            rec(&mut Vec::new(), &acts, max_len, &mut seqs);
            seqs.sort_by_key(|s| s.len());
            for sq in seqs {
                let mut b = B::new(jn.slots.clone());
                let bigslot = b.m(big, 8);
                for a in &sq {
                    match a {
                        JAct::FreeKey => b.f(jn.key.unwrap()),
                        JAct::FreeBig => b.f(bigslot),
                        JAct::MallocMerged => {
                            b.m((jn.j + q).saturating_sub(8 + if jn.name.contains("top") { 32 } else { 0 }).max(1), 8);
                        }
                        JAct::MallocSmall => {
                            b.m(40, 8);
                        }
                        JAct::MallocRemainder => {
                            b.m(q - 8, 8);
                        }
                        JAct::MallocJunctionPlusNeighbour => {
                            b.m(jn.j + jn.nbr - 8, 8);
                        }
                        JAct::MallocJunction => {
                            b.m(jn.j - 8, 8);
                        }
                    }
                }
                let mut script = jn.script.clone();
                script.push(jn.big_policy);
                out.push((
                    jn.name.clone(),
                    Case {
                        phase: "junction",
                        seed_name: jn.name.clone(),
                        seed: jn.seed.clone(),
                        ops: b.ops,
                        script,
                        default_policy: Policy::TopDown,
                        refuse: vec![],
                        sticky: false,
                        loop_ops: vec![],
                        loop_max: 0,
                        post: vec![],
                        countdown: None,
                        countdown_brute: false,
                    },
                ));
            }
        }
    }
    out
}

/// Release-role family: an older (non-head) segment that does not touch any other mapping becomes wholly
/// free, and its single free chunk has a given ROLE - it sits in a tree bin, or it is dv (a small request
/// split it while the small bins and dv were empty, freeing that block made dv span the whole segment), or
/// (control) dv is only part of it because the small block is still live - when a release pass runs, by
/// either TRIGGER: a free that pushes top over the trim threshold, or the release_checks countdown
/// expiring on a tree-binned free.  Then two small requests and a large one in every order, free all.
/// Returns (class name, index of the trigger operation, case).
pub fn release_role_cases() -> Vec<(String, usize, Case)> {
    let mut v = Vec::new();
    for (pname, script, default) in [
        ("all-D", vec![], Policy::Disjoint),
        ("all-U", vec![], Policy::DisjointUp),
        ("alternating-D-U", (0..12).map(|i| if i % 2 == 0 { Policy::Disjoint } else { Policy::DisjointUp }).collect::<Vec<_>>(), Policy::Disjoint),
    ] {
        for first_i in 0..2 {
            for small in [24usize, 200] {
                for role in ["in-tree-bin", "is-dv", "control:dv-is-part-of-it"] {
                    if role == "in-tree-bin" && small != 24 {
                        continue;
                    }
                    for trigger in ["trim", "countdown"] {
                        // countdown trigger: its own two blocks (30 000 bytes each) are larger than what the first segment has
                        // left behind its block (< 28 KiB), so they are carved from the head segment's top (200 000-byte block there)
                        let first = if trigger == "trim" { [300_000usize, 70_000][first_i] } else { [300_000usize, 105_000][first_i] };
                        for perm in permutations(3) {
                            let mut b = B::new(Slots::default());
                            let a = b.m(first, 8); // first segment
                            let keep = b.m(if trigger == "trim" { 300_000 } else { 200_000 }, 8); // second segment: the head from now on
                            let (mut c, mut pin) = (0, 0);
                            if trigger == "countdown" {
                                c = b.m(30_000, 8);
                                pin = b.m(30_000, 8);
                            }
                            b.f(a); // the first segment is one free tree chunk now
                            let mut s_live = None;
                            if role != "in-tree-bin" {
                                let s = b.m(small, 8); // splits it, the remainder becomes dv
                                if role == "is-dv" {
                                    b.f(s); // dv spans the whole segment
                                } else {
                                    s_live = Some(s);
                                }
                            }
                            let trigger_at;
                            let mut countdown = None;
                            if trigger == "trim" {
                                let x = b.m(3 * MIB, 8);
                                trigger_at = b.ops.len();
                                b.f(x);
                            } else {
                                trigger_at = b.ops.len();
                                countdown = Some((trigger_at, 1));
                                b.f(c);
                            }
                            let reqs = [24usize, 40, 200_000];
                            let mut got = Vec::new();
                            for &i in &perm {
                                got.push(b.m(reqs[i], 8));
                            }
                            for g in got {
                                b.f(g);
                            }
                            if trigger == "countdown" {
                                b.f(pin);
                            }
                            if let Some(s) = s_live {
                                b.f(s);
                            }
                            b.f(keep);
                            let name = format!("release-pass({trigger}):wholly-free-older-segment-{role}");
                            v.push((
                                name.clone(),
                                trigger_at,
                                Case {
                                    phase: "release-role",
                                    seed_name: format!("{name}:{pname}"),
                                    seed: vec![],
                                    ops: b.ops,
                                    script: script.clone(),
                                    default_policy: default,
                                    refuse: vec![],
                                    sticky: false,
                                    loop_ops: vec![],
                                    loop_max: 0,
                                    post: vec![],
                                    countdown,
                                    countdown_brute: false,
                                },
                            ));
                        }
                    }
                }
            }
        }
    }
    v
}

/// Run `c` with the allocator's release_checks countdown preset to `value` before operation `at`; every
/// `validate_every`-th call also really ages the heap instead (brute force) and compares what every later
/// operation returned and which kernel calls it made.  `strict`: a difference is a harness error.
pub fn run_with_countdown(w: &mut World, c: &Case, at: usize, value: u64, validate: bool, strict: bool, r: &mut Report) -> RunInfo {
    let mut c2 = c.clone();
    c2.countdown = Some((at, value));
    r.eval();
    let info = run_case(w, &c2, r, false);
    if info.countdown_applied {
        r.nontrivial_unique();
        r.outcome(&format!("countdown-preset-to-{value}"));
    } else {
        r.outcome("countdown-preset:not-applicable(counter-already-lower-or-word-not-found)");
    }
    if validate && info.countdown_applied && !info.violated {
        let mut c3 = c2.clone();
        c3.countdown_brute = true;
        let mut scratch = Report::new();
        let b = run_case(w, &c3, &mut scratch, false);
        if !b.countdown_applied {
            r.outcome("countdown-preset:brute-force-loop-could-not-reach-the-value");
        } else if b.trace == info.trace && !b.violated {
            r.traces_validated += 1;
        } else if strict {
            r.violation(
                "C03:countdown-preset:differs-from-brute-force",
                format!("HARNESS ASSUMPTION BROKEN: writing the release_checks word and really performing the frees give different runs for {}", c2.to_json()),
                c2.to_json(),
            );
        } else {
            r.outcome("countdown-preset:brute-force-run-differs(the ageing loop itself touched the free lists)");
        }
    }
    info
}

pub fn placement(args: &Args) -> Report {
    let th = args.thorough;
    let dl = dense_limit(th);
    let sizes: Vec<usize> = if th { vec![1000, 65_000, 70_000, MIB, 3 * MIB] } else { vec![1000, 70_000, 3 * MIB] };
    let mut al = Alpha::new(&sizes);
    if !th {
        al.callocs.retain(|x| x.0 < MIB);
    }
    let depth = 3usize;
    let pre = prefixes(2, &al);
    let nsh = 64usize;
    let mut items = Vec::new();
    for sh in 0..nsh {
        let pre = pre.clone();
        let al = al.clone();
        items.push(isolated(format!("placement-{sh}"), move || {
            let mut r = Report::new();
            let mut w = World::new(dl);
            for (i, p) in pre.iter().enumerate() {
                if i % nsh != sh {
                    continue;
                }
                for_each_history(p, depth, &al, &mut |h| {
                    if !involves_large(h) {
                        return;
                    }
                    let c = Case::plain("placement", h.to_vec());
                    placement_tree(&mut w, &c, &mut r);
                });
            }
            if sh == 0 {
                r.sample(json!({"phase":"placement","history":["m70000.8","m3145728.8","f0"],"script":"TB"}));
                r.sample(json!({"phase":"placement","history":["m70000.8","m70000.8","m70000.8"],"script":"TDA"}));
            }
            r
        }));
    }
    let n_multi = multiseg_cases(th).len();
    let msh = 16usize;
    for sh in 0..msh {
        items.push(isolated(format!("multiseg-{sh}"), move || {
            let mut r = Report::new();
            let mut w = World::new(dl);
            for (i, c) in multiseg_cases(th).into_iter().enumerate() {
                if i % msh != sh {
                    continue;
                }
                r.eval();
                r.nontrivial_unique();
                let info = run_case(&mut w, &c, &mut r, false);
                r.outcome(if info.multi_release { "multiseg:some-operation-released>=2-segments" } else { "multiseg:never-two-segments-in-one-pass" });
                if i % 499 == 0 {
                    r.sample(c.to_json());
                }
                // the same scenario in an aged heap: the release_checks countdown expires on the 1st .. 4th
                // tree-binned free of the scenario (the plain run above is the "countdown far away" case)
                if c.loop_ops.is_empty() {
                    let n_blocks = c.ops.iter().filter(|o| matches!(o, Op::Malloc { .. })).count();
                    for v in 1..=n_blocks as u64 {
                        let inf = run_with_countdown(&mut w, &c, n_blocks, v, (i / msh) % 64 == 0, false, &mut r);
                        if inf.multi_release {
                            r.outcome("multiseg:countdown-pass-released>=2-segments");
                        }
                    }
                }
            }
            r
        }));
    }
    let n_junction = junction_cases(th).len();
    let jsh = if th { 64usize } else { 32 };
    for sh in 0..jsh {
        items.push(isolated(format!("junction-{sh}"), move || {
            let mut r = Report::new();
            let mut w = World::new(dl);
            let expect: std::collections::HashMap<String, Ev> = junctions().into_iter().map(|j| (j.name, j.expect)).collect();
            for (i, (name, c)) in junction_cases(th).into_iter().enumerate() {
                if i % jsh != sh {
                    continue;
                }
                r.eval();
                r.nontrivial_unique();
                run_case(&mut w, &c, &mut r, false);
                // the kind is known by construction; what the kernel saw confirms that the big request's mapping joined the segment
                let joined = w.k.join_events.get(c.script.len() - 1).copied();
                r.outcome(&format!("junction:{name}{}", if joined == Some(expect[&name]) { "" } else { ":MAPPING-DID-NOT-JOIN" }));
                // aged heap: the countdown expires on the first / second tree-binned free after the big request
                if c.ops.iter().any(|o| matches!(o, Op::Free { .. })) && (th || c.ops.len() <= 4) {
                    for v in [1u64, 2] {
                        run_with_countdown(&mut w, &c, c.seed.len() + 1, v, (i / jsh) % 800 == 0, false, &mut r);
                    }
                }
                if i % 9973 == 0 {
                    r.sample(c.to_json());
                }
            }
            r
        }));
    }
    let n_role = release_role_cases().len();
    let rsh = 8usize;
    for sh in 0..rsh {
        items.push(isolated(format!("release-role-{sh}"), move || {
            let mut r = Report::new();
            let mut w = World::new(dl);
            for (i, (name, trigger_at, c)) in release_role_cases().into_iter().enumerate() {
                if i % rsh != sh {
                    continue;
                }
                r.eval();
                r.nontrivial_unique();
                let info = run_case(&mut w, &c, &mut r, false);
                // the role is known by construction; what the kernel saw tells whether the pass released the segment there
                let released = info.released_at.contains(&trigger_at);
                r.outcome(&format!("{name}:{}", if released { "segment-released-by-the-pass" } else { "segment-kept" }));
                if i % 101 == 0 {
                    r.sample(c.to_json());
                }
            }
            r
        }));
    }
    let mut r = run_isolated(items, &args.out, "C03");
    for trigger in ["trim", "countdown"] {
        for role in ["in-tree-bin", "is-dv"] {
            let k = format!("release-pass({trigger}):wholly-free-older-segment-{role}:segment-released-by-the-pass");
            if r.outcomes.get(&k).copied().unwrap_or(0) == 0 {
                r.cap(format!("vacuity: never reached: {k}"));
            }
        }
    }
    for j in junctions() {
        if r.outcomes.get(&format!("junction:{}", j.name)).copied().unwrap_or(0) == 0 {
            r.cap(format!("vacuity: junction kind {} never reached with the mapping joined to the segment", j.name));
        }
    }
    if r.outcomes.get("release-pass-released>=2-segments").copied().unwrap_or(0) == 0 {
        r.cap("vacuity: no operation ever made the allocator release two or more segments in one pass (multi-segment scenarios not reached)");
    }
    if th && r.outcomes.get("loop-ended-by-release-pass").copied().unwrap_or(0) == 0 {
        r.cap("vacuity: the release_checks countdown never triggered a release pass in the multi-segment scenarios");
    }
    r.rule = format!(
        "(1) every history of exactly {depth} operations over {} that contains a request >= 60 000 bytes, under EVERY placement script: \
         a script assigns one of the 5 policies (T top-down first fit, B directly below the lowest mapping, A directly above the highest, D below with a one-page gap, \
         U above with a one-page gap) to each mmap the run performs (5^n scripts for n mmaps, explored as a tree because n depends on the script); \
         one case = (history, complete script), generated once. (2) multi-segment release scenarios ({n_multi} cases, each generated once): 3 and 4 heap segments that do not \
         touch (placement all-D, all-U, alternating D/U), each owning one block of 300 000 bytes or 3 MiB (all 2^n size vectors), all blocks freed in every one of the n! orders, then \
         a release-pass trigger: a 3 MiB malloc+free (trim){}, then further allocations; oracle as everywhere (no fault, live blocks intact, later allocations succeed). \
         Vacuity guard: some operation must release >= 2 segments in one pass. (3) junction family ({n_junction} cases, each generated once): constructed heap states whose \
         segment-boundary chunk is of a known kind ({}), x a request of {JUNCTION_SIZES:?} bytes whose mapping the kernel puts directly below (prepend) / directly above (extend) that \
         segment, x every sequence of 1..={} follow-up actions from {{free the block next to the junction chunk, free the big block, malloc exactly the merged chunk, malloc 40, malloc the \
         new mapping's remainder, malloc the old junction chunk's size, malloc junction chunk + neighbour}} (each free at most once); full shadow oracle after every operation; one outcome \
         class per junction kind, confirmed by the kernel-side observation that the mapping joined the segment.",
        junctions().iter().map(|j| j.name.clone()).collect::<Vec<_>>().join(", "),
        if th { 5 } else { 4 },
        al.describe(),
        if th { " or, second variant, up to 4200 repetitions of malloc(1000) malloc(24) free free until the release_checks countdown (4095 binned large frees) fires" } else { "" }
    );
    r.bound("multiseg_cases", n_multi);
    r.bound("junction_cases", n_junction);
    r.bound("release_role_cases", n_role);
    r.rule.push_str(&format!(
        " (4) release-role family ({n_role} cases, each generated once): two or three mappings that do not touch (placement all-D, all-U, alternating); the older segment (first block 300 000 / 70 000 / 105 000 bytes) becomes wholly free and its chunk is {{in a tree bin | dv: a malloc(24 or 200) split it while small bins and dv were empty and was freed again | control: that small block \
         still live}} when a release pass runs, triggered by {{freeing a 3 MiB block (trim threshold) | the release_checks countdown preset to 1 and a tree-binned free}}; then malloc 24, 40, \
         200 000 in every order, everything freed; outcome classes name trigger, role and whether the kernel saw the segment released by that very operation."
    ));
    r.bound("depth", depth);
    r.bound("sizes", json!(sizes));
    r.bound("policies", 5);
    r
}

// ---------------------------------------------------------------------------
// oom

fn oom_family(w: &mut World, base: &Case, th: bool, r: &mut Report) {
    // fault-free run: which modelled calls are there
    let mut scratch = Report::new();
    let info = run_case(w, base, &mut scratch, false);
    if !info.completed {
        r.merge(scratch);
        return;
    }
    let first = info.calls_in_seed;
    for k in first..info.kinds.len() {
        let kind = info.kinds[k];
        let mut variants: Vec<(Vec<usize>, bool)> = Vec::new();
        if kind != CallKind::Munmap {
            variants.push((vec![k], false));
        }
        if th {
            if kind == CallKind::Munmap {
                variants.push((vec![k], false));
            }
            variants.push((vec![k], true));
        }
        for (refuse, sticky) in variants {
            let mut c = base.clone();
            c.phase = "oom";
            c.refuse = refuse;
            c.sticky = sticky;
            r.eval();
            let i2 = run_case(w, &c, r, false);
            if i2.refusal_hit {
                r.nontrivial_unique();
            }
            r.outcome(&format!("refused-{:?}{}", kind, if sticky { "-and-rest-of-operation" } else { "" }).to_lowercase());
        }
    }
}

pub fn oom_boundary_cases(th: bool) -> Vec<Case> {
    let sizes: Vec<usize> =
        if th { vec![24, 248, 1000, 65432, 65433, 70_000, MIB, 2 * MIB - 104, 2 * MIB, 3 * MIB, 20 * MIB] } else { vec![24, 1000, 65432, 70_000, 2 * MIB, 3 * MIB] };
    let aligns: Vec<usize> = if th { vec![1, 8, 64, 4096, 8192] } else { vec![8, 4096] };
    let mut v = Vec::new();
    for seed in seeds() {
        for &s in &sizes {
            for &a in &aligns {
                for (_n, ops) in shapes(&seed.ops, s, a) {
                    v.push(Case {
                        phase: "oom",
                        seed_name: seed.name.to_string(),
                        seed: seed.ops.clone(),
                        ops,
                        script: seed.script.clone(),
                        default_policy: Policy::TopDown,
                        refuse: vec![],
                        sticky: false,
                        loop_ops: vec![],
                        loop_max: 0,
                        post: vec![],
                        countdown: None,
                        countdown_brute: false,
                    });
                }
            }
        }
    }
    v
}

pub fn oom(args: &Args) -> Report {
    let th = args.thorough;
    let dl = dense_limit(th);
    let sizes = hist_sizes(false);
    let al = Alpha::new(&sizes);
    let depth: usize = if th { 4 } else { 3 };
    let pre = prefixes(2, &al);
    let nsh = 64usize;
    let mut items = Vec::new();
    for sh in 0..nsh {
        let pre = pre.clone();
        let al = al.clone();
        items.push(isolated(format!("oom-{sh}"), move || {
            let mut r = Report::new();
            let mut w = World::new(dl);
            for (i, p) in pre.iter().enumerate() {
                if i % nsh != sh {
                    continue;
                }
                for_each_history(p, depth, &al, &mut |h| {
                    let c = Case::plain("oom", h.to_vec());
                    oom_family(&mut w, &c, th, &mut r);
                });
            }
            for (i, c) in oom_boundary_cases(th).into_iter().enumerate() {
                if i % nsh != sh {
                    continue;
                }
                oom_family(&mut w, &c, th, &mut r);
            }
            // the 3-segment release scenarios of the placement phase (whole-segment munmap in a release pass)
            for (i, mut c) in multiseg_cases(false).into_iter().filter(|c| c.seed_name.starts_with("3-")).enumerate() {
                if i % nsh != sh {
                    continue;
                }
                // the post part becomes part of the history so that its calls are refused too
                c.ops.extend(c.post.drain(..));
                oom_family(&mut w, &c, th, &mut r);
            }
            if sh == 0 {
                r.sample(json!({"phase":"oom","history":["m24.8","m70000.8","f0"],"refuse":[1]}));
                r.sample(json!({"phase":"oom","history":["m3145728.8","f0","m24.8"],"refuse":[1]}));
            }
            r
        }));
    }
    let mut r = run_isolated(items, &args.out, "C03");
    r.rule = format!(
        "for every history of exactly {depth} operations of the hist alphabet (sizes {sizes:?}) and every seed x shape of the boundary grid at sizes/alignments {}, and the 144 three-segment release scenarios of the placement phase: \
         run fault-free recording the modelled calls (mmap/mremap/munmap), then for every index k of an mmap or mremap call {}re-run with call k answered ENOMEM{}; \
         after a null result every live block is re-verified, the same operation is retried without refusal and must succeed, and the rest of the history runs under the full oracle. \
         A case (history, k) is non-trivial when the refusal was actually delivered.",
        if th { "{24,248,1000,65432,65433,70000,1Mi,2Mi-104,2Mi,3Mi,20Mi} x {1,8,64,4096,8192}" } else { "{24,1000,65432,70000,2Mi,3Mi} x {8,4096}" },
        if th { "(and of a munmap call) " } else { "(calls issued while building the seed state excluded) " },
        if th { "; also with k and every later modelled call of the same operation refused (mremap and its munmap fallback both fail)" } else { "" }
    );
    r.bound("depth", depth);
    r.bound("sizes", json!(sizes));
    r
}
