//! C03 at the entry point programs really use: the four `GlobalAlloc` methods of the repository's own
//! `#[global_allocator]` (feature `global-allocator`; with `threaded` the mutex-protected wrapper, without
//! it the `static mut` one).  The static is THIS binary's allocator, so `std::alloc::{alloc, alloc_zeroed,
//! realloc, dealloc}` reach it (and so do the harness's own allocations, which are kept out of the measured
//! operations: everything a history needs is allocated before its first operation).  Real mmap, no model
//! kernel.  Exhaustive enumeration of bounded histories with a shadow oracle after every operation.

#![cfg(any(feature = "galloc-threaded", feature = "galloc-single"))]

use common::*;
use serde_json::{json, Value};
use std::alloc::{alloc, alloc_zeroed, dealloc, realloc, Layout};
// link the crate that defines the `#[global_allocator]`
use tiny_std as _;

#[derive(Clone, Copy, PartialEq, Eq, Debug)]
enum Op {
    Alloc { size: usize, align: usize },
    Zeroed { size: usize, align: usize },
    Realloc { slot: usize, size: usize },
    Dealloc { slot: usize },
}

impl Op {
    fn method(&self) -> &'static str {
        match self {
            Op::Alloc { .. } => "GlobalAlloc::alloc",
            Op::Zeroed { .. } => "GlobalAlloc::alloc_zeroed",
            Op::Realloc { .. } => "GlobalAlloc::realloc",
            Op::Dealloc { .. } => "GlobalAlloc::dealloc",
        }
    }
    fn show(&self) -> String {
        match *self {
            Op::Alloc { size, align } => format!("a{size}.{align}"),
            Op::Zeroed { size, align } => format!("z{size}.{align}"),
            Op::Realloc { slot, size } => format!("r{slot}.{size}"),
            Op::Dealloc { slot } => format!("d{slot}"),
        }
    }
    fn parse(s: &str) -> Option<Op> {
        let (k, rest) = s.split_at(1);
        let mut it = rest.split('.');
        let a: usize = it.next()?.parse().ok()?;
        let b: Option<usize> = it.next().and_then(|x| x.parse().ok());
        Some(match k {
            "a" => Op::Alloc { size: a, align: b? },
            "z" => Op::Zeroed { size: a, align: b? },
            "r" => Op::Realloc { slot: a, size: b? },
            "d" => Op::Dealloc { slot: a },
            _ => return None,
        })
    }
}

#[derive(Clone, Copy)]
struct Block {
    ptr: usize,
    size: usize,
    align: usize,
    seed: u8,
}

#[inline]
fn pat(seed: u8, i: usize) -> u8 {
    (i as u8).wrapping_mul(31).wrapping_add(((i >> 8) as u8).wrapping_mul(17)).wrapping_add(seed)
}
unsafe fn fill(b: &Block, from: usize) {
    for i in from..b.size {
        *((b.ptr + i) as *mut u8) = pat(b.seed, i);
    }
}
unsafe fn first_bad(ptr: usize, seed: u8, upto: usize) -> Option<usize> {
    (0..upto).find(|&i| *((ptr + i) as *const u8) != pat(seed, i))
}

struct World {
    slots: [Option<Block>; 3],
    next_seed: u8,
}

struct Fail {
    kind: &'static str,
    desc: String,
}

impl World {
    fn check_live(&self, skip: Option<usize>, fails: &mut Vec<Fail>) {
        for (i, b) in self.slots.iter().enumerate() {
            let Some(b) = b else { continue };
            if Some(i) == skip {
                continue;
            }
            if let Some(off) = unsafe { first_bad(b.ptr, b.seed, b.size) } {
                fails.push(Fail {
                    kind: "live-block-corrupted",
                    desc: format!("byte {off} of the live block in slot {i} ({} bytes at {:#x}, align {}) changed although its owner did not write it", b.size, b.ptr, b.align),
                });
            }
        }
    }
    fn check_new(&self, p: usize, size: usize, align: usize, skip: Option<usize>, fails: &mut Vec<Fail>) {
        if p % align != 0 {
            fails.push(Fail { kind: "misaligned", desc: format!("returned {p:#x} for size {size} is not aligned to {align}") });
        }
        for (i, b) in self.slots.iter().enumerate() {
            let Some(b) = b else { continue };
            if Some(i) == skip {
                continue;
            }
            if p < b.ptr + b.size && b.ptr < p + size {
                fails.push(Fail { kind: "overlaps-live-block", desc: format!("returned block [{p:#x}, +{size}) overlaps the live block in slot {i} [{:#x}, +{})", b.ptr, b.size) });
            }
        }
    }
    /// one operation + oracle; Ok(true) = history can continue
    fn step(&mut self, op: Op, fails: &mut Vec<Fail>) -> Result<bool, String> {
        match op {
            Op::Alloc { size, align } | Op::Zeroed { size, align } => {
                let l = Layout::from_size_align(size, align).unwrap();
                let zero = matches!(op, Op::Zeroed { .. });
                let p = catch(|| unsafe { if zero { alloc_zeroed(l) } else { alloc(l) } } as usize)?;
                if p == 0 {
                    self.check_live(None, fails);
                    return Ok(false);
                }
                self.check_new(p, size, align, None, fails);
                self.check_live(None, fails);
                if !fails.is_empty() {
                    return Ok(false);
                }
                if zero {
                    if let Some(off) = (0..size).find(|&i| unsafe { *((p + i) as *const u8) } != 0) {
                        fails.push(Fail { kind: "not-zeroed", desc: format!("alloc_zeroed({size}, {align}) returned {p:#x} whose byte {off} is not zero") });
                    }
                }
                let b = Block { ptr: p, size, align, seed: self.next_seed };
                self.next_seed = self.next_seed.wrapping_mul(5).wrapping_add(37);
                unsafe { fill(&b, 0) };
                let s = self.slots.iter().position(|x| x.is_none()).expect("<= 3 live");
                self.slots[s] = Some(b);
            }
            Op::Realloc { slot, size } => {
                let old = self.slots[slot].expect("live slot");
                let l = Layout::from_size_align(old.size, old.align).unwrap();
                let p = catch(|| unsafe { realloc(old.ptr as *mut u8, l, size) } as usize)?;
                if p == 0 {
                    self.check_live(None, fails);
                    return Ok(false);
                }
                self.check_new(p, size, old.align, Some(slot), fails);
                self.check_live(Some(slot), fails);
                if !fails.is_empty() {
                    return Ok(false);
                }
                let keep = old.size.min(size);
                if let Some(off) = unsafe { first_bad(p, old.seed, keep) } {
                    fails.push(Fail {
                        kind: "prefix-lost",
                        desc: format!("realloc of {} bytes (align {}) at {:#x} to {size} bytes returned {p:#x}; byte {off} of the common prefix ({keep} bytes) differs", old.size, old.align, old.ptr),
                    });
                }
                let b = Block { ptr: p, size, align: old.align, seed: old.seed };
                unsafe { fill(&b, keep) };
                self.slots[slot] = Some(b);
            }
            Op::Dealloc { slot } => {
                let b = self.slots[slot].take().expect("live slot");
                unsafe { std::ptr::write_bytes(b.ptr as *mut u8, 0xA5, b.size) };
                let l = Layout::from_size_align(b.size, b.align).unwrap();
                catch(|| unsafe { dealloc(b.ptr as *mut u8, l) })?;
                self.check_live(None, fails);
            }
        }
        Ok(fails.is_empty())
    }
}

fn variant() -> &'static str {
    if cfg!(feature = "galloc-threaded") {
        "Mutex<Dlmalloc> wrapper (features global-allocator + threaded)"
    } else {
        "static mut Dlmalloc wrapper (feature global-allocator)"
    }
}

/// Watchdog: an operation that does not come back (the wrapper's lock taken a second time by the panic
/// machinery after an assertion fired inside the allocator, an endless walk over corrupted lists) is turned
/// into an abort, which the shard's crash attribution reports for the case being executed.
extern "C" fn on_alarm(_sig: libc::c_int) {
    const MSG: &[u8] = b"h-galloc watchdog: the operation did not return within 10 s (deadlock or endless loop in the allocator)\n";
    unsafe {
        libc::write(2, MSG.as_ptr() as *const _, MSG.len());
        libc::abort();
    }
}
fn arm_watchdog() {
    unsafe {
        libc::signal(libc::SIGALRM, on_alarm as usize);
        libc::alarm(10);
    }
}

/// Run one history (every block still live at the end is deallocated, under the oracle too).
fn run_history(w: &mut World, h: &[Op], r: &mut Report, verbose: bool) {
    // everything the measured operations need is built before the first of them
    let mut ops: Vec<Op> = h.to_vec();
    let mut live = [false; 3];
    for op in h {
        match op {
            Op::Alloc { .. } | Op::Zeroed { .. } => {
                let s = live.iter().position(|x| !*x).unwrap();
                live[s] = true;
            }
            Op::Dealloc { slot } => live[*slot] = false,
            _ => {}
        }
    }
    for (s, l) in live.iter().enumerate() {
        if *l {
            ops.push(Op::Dealloc { slot: s });
        }
    }
    let hist: Vec<String> = h.iter().map(|o| o.show()).collect();
    let cases: Vec<String> = ops.iter().enumerate().map(|(i, o)| json!({"phase":"galloc","history": hist, "op": o.method(), "at": i}).to_string()).collect();
    let mut fails: Vec<Fail> = Vec::with_capacity(4);
    arm_watchdog();
    for (i, op) in ops.iter().enumerate() {
        set_case(&cases[i]);
        let res = w.step(*op, &mut fails);
        clear_case();
        if verbose {
            println!("  [{i}] {:<12} -> {:?}", op.show(), w.slots.iter().map(|b| b.map(|b| (format!("{:#x}", b.ptr), b.size))).collect::<Vec<_>>());
        }
        let replay: Value = serde_json::from_str(&cases[i]).unwrap();
        match res {
            Err(msg) => {
                r.outcome(&format!("{}:assertion", op.method()));
                r.violation(&format!("C03:{}:allocator-assertion", op.method()), format!("{} in history {hist:?} made the allocator panic: {msg} [{}]", op.show(), variant()), replay);
                // the allocator can no longer be trusted: forget the blocks
                w.slots = [None; 3];
                return;
            }
            Ok(cont) => {
                for f in fails.drain(..) {
                    r.violation(&format!("C03:{}:{}", op.method(), f.kind), format!("operation #{i} `{}` of history {hist:?}: {} [{}]", op.show(), f.desc, variant()), replay.clone());
                }
                if !cont {
                    // null or a failed check: release what is still tracked and stop
                    r.outcome(&format!("{}:stopped", op.method()));
                    for s in 0..3 {
                        if let Some(b) = w.slots[s].take() {
                            let _ = catch(|| unsafe { dealloc(b.ptr as *mut u8, Layout::from_size_align(b.size, b.align).unwrap()) });
                        }
                    }
                    return;
                }
                let cls = match *op {
                    Op::Realloc { slot, size } => {
                        let b = w.slots[slot].unwrap();
                        let _ = size;
                        format!("{}:{}", op.method(), if b.align > 16 { "over-aligned" } else { "ordinary-alignment" })
                    }
                    Op::Alloc { align, .. } | Op::Zeroed { align, .. } => format!("{}:{}", op.method(), if align > 16 { "over-aligned" } else { "ordinary-alignment" }),
                    Op::Dealloc { .. } => op.method().to_string(),
                };
                r.outcome(&cls);
            }
        }
    }
}

struct Alpha {
    allocs: Vec<Op>,
    sizes: Vec<usize>,
}

fn alpha(sizes: &[usize], aligns: &[usize]) -> Alpha {
    let mut allocs = Vec::new();
    for &s in sizes {
        for &a in aligns {
            allocs.push(Op::Alloc { size: s, align: a });
            allocs.push(Op::Zeroed { size: s, align: a });
        }
    }
    Alpha { allocs, sizes: sizes.to_vec() }
}

fn for_each_history(prefix: &[Op], depth: usize, al: &Alpha, f: &mut dyn FnMut(&[Op])) {
    fn rec(h: &mut Vec<Op>, live: [bool; 3], depth: usize, al: &Alpha, f: &mut dyn FnMut(&[Op])) {
        if h.len() == depth {
            f(h);
            return;
        }
        let mut next: Vec<Op> = Vec::new();
        if live.iter().any(|x| !*x) {
            next.extend_from_slice(&al.allocs);
        }
        for (s, l) in live.iter().enumerate() {
            if *l {
                next.extend(al.sizes.iter().map(|&size| Op::Realloc { slot: s, size }));
            }
        }
        for (s, l) in live.iter().enumerate() {
            if *l {
                next.push(Op::Dealloc { slot: s });
            }
        }
        for op in next {
            let mut l2 = live;
            match op {
                Op::Alloc { .. } | Op::Zeroed { .. } => {
                    let s = l2.iter().position(|x| !*x).unwrap();
                    l2[s] = true;
                }
                Op::Dealloc { slot } => l2[slot] = false,
                _ => {}
            }
            h.push(op);
            rec(h, l2, depth, al, f);
            h.pop();
        }
    }
    let mut live = [false; 3];
    for op in prefix {
        match op {
            Op::Alloc { .. } | Op::Zeroed { .. } => {
                let s = live.iter().position(|x| !*x).unwrap();
                live[s] = true;
            }
            Op::Dealloc { slot } => live[*slot] = false,
            _ => {}
        }
    }
    let mut h = prefix.to_vec();
    rec(&mut h, live, depth.max(prefix.len()), al, f);
}

/// is the repository's allocator really the one behind `std::alloc`?  (glibc's statistics must not move)
fn allocator_is_under_test() -> bool {
    unsafe {
        let before = libc::mallinfo();
        let l = Layout::from_size_align(8 << 20, 8).unwrap();
        let p = alloc(l);
        let l2 = Layout::from_size_align(3000, 8).unwrap();
        let q = alloc(l2);
        let after = libc::mallinfo();
        let moved = after.hblkhd != before.hblkhd || after.uordblks != before.uordblks;
        dealloc(p, l);
        dealloc(q, l2);
        !moved && !p.is_null()
    }
}

const ALIGNS: [usize; 6] = [1, 8, 16, 32, 64, 4096];

fn families(th: bool) -> Vec<(Alpha, usize, String)> {
    let mut v = Vec::new();
    if th {
        let s = [1usize, 24, 100, 1000, 5000, 70_000, 300_000];
        v.push((alpha(&s, &ALIGNS), 3, format!("n=3: sizes {s:?} x alignments {ALIGNS:?}")));
        let s2 = [24usize, 1000, 70_000];
        let a2 = [8usize, 64, 4096];
        v.push((alpha(&s2, &a2), 4, format!("n=4: sizes {s2:?} x alignments {a2:?}")));
    } else {
        let s = [1usize, 24, 1000, 20_000];
        v.push((alpha(&s, &ALIGNS), 3, format!("n=3: sizes {s:?} x alignments {ALIGNS:?}")));
    }
    v
}

fn galloc(args: &Args) -> Report {
    let th = args.thorough;
    let fams = families(th);
    let nsh = 32usize;
    let mut work: Vec<(usize, Vec<Op>)> = Vec::new();
    for (fi, (al, depth, _)) in fams.iter().enumerate() {
        let mut pre = Vec::new();
        for_each_history(&[], 2.min(*depth), al, &mut |h| pre.push(h.to_vec()));
        work.extend(pre.into_iter().map(|p| (fi, p)));
    }
    let mut items = Vec::new();
    for sh in 0..nsh {
        let mine: Vec<(usize, Vec<Op>)> = work.iter().enumerate().filter(|(i, _)| i % nsh == sh).map(|(_, w)| w.clone()).collect();
        items.push(isolated(format!("galloc-{sh}"), move || {
            let mut r = Report::new();
            if !allocator_is_under_test() {
                r.cap("MACHINERY: std::alloc does not reach the repository's global allocator in this binary");
                r.note("machinery-failure");
                return r;
            }
            let fams = families(th);
            let mut w = World { slots: [None; 3], next_seed: 1 };
            for (fi, p) in &mine {
                let (al, depth, _) = &fams[*fi];
                for_each_history(p, *depth, al, &mut |h| {
                    r.eval();
                    r.nontrivial_unique();
                    run_history(&mut w, h, &mut r, false);
                });
            }
            if sh == 0 {
                r.sample(json!({"phase":"galloc","history":["a70000.64","a24.8","r0.1000"]}));
                r.sample(json!({"phase":"galloc","history":["z1000.4096","r0.70000","d0"]}));
            }
            r
        }));
    }
    let mut r = run_isolated(items, &args.out, "C03");
    r.rule = format!(
        "the real `#[global_allocator]` of the repository [{}] driven through std::alloc: for each family every history of exactly n operations (shorter ones are prefixes; blocks still live \
         at the end are deallocated) over alloc(size, align), alloc_zeroed(size, align), realloc(live slot, new size: every size of the family, i.e. grow and shrink), dealloc(live slot) with <= 3 \
         live slots; families: {}. Shadow oracle after every operation: alignment, no overlap with live blocks, every live block's pattern intact, zeroed, realloc keeps min(old,new) bytes; \
         the allocator's debug assertions are on; faults are attributed by forked shards. Histories run one after the other on the same heap (the allocator cannot be reset), real mmap. \
         Each history is generated once and is non-trivial (it reaches the allocator).",
        variant(),
        fams.iter().map(|f| f.2.clone()).collect::<Vec<_>>().join("; ")
    );
    r.bound("max_live", 3);
    r.bound("depths", json!(fams.iter().map(|f| f.1).collect::<Vec<_>>()));
    r
}

fn main() {
    let args = parse_args();
    install_panic_hook();
    if let Some(p) = &args.replay {
        let v = read_replay(p);
        let h: Vec<Op> = v["history"].as_array().map(|a| a.iter().filter_map(|x| x.as_str().and_then(Op::parse)).collect()).unwrap_or_default();
        let items = vec![isolated("replay", move || {
            let mut r = Report::new();
            println!("replaying {:?} on the {}; allocator under test reached: {}", h.iter().map(|o| o.show()).collect::<Vec<_>>(), variant(), allocator_is_under_test());
            let mut w = World { slots: [None; 3], next_seed: 1 };
            run_history(&mut w, &h, &mut r, true);
            r
        })];
        let r = run_isolated(items, &format!("/tmp/h-galloc-replay-{}", std::process::id()), "C03");
        for v in r.violations.values() {
            println!("VIOLATED {}: {}", v.key, v.desc);
        }
        println!("{}", serde_json::to_string_pretty(&r.to_json()).unwrap());
        std::process::exit(if r.violations.is_empty() { 0 } else { 1 });
    }
    let t0 = now();
    let mut r = galloc(&args);
    r.note(format!("phase galloc wall time {:.1} s", t0.elapsed().as_secs_f64()));
    r.write(&args.out);
}
