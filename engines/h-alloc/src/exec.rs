//! The allocator under test as a local object over the model kernel, the shadow model of
//! live blocks and the oracle that is applied after every operation.

use crate::kernel::*;
use common::*;
use serde_json::{json, Value};
use tiny_std::allocator::dlmalloc::Dlmalloc;

pub const GRANULARITY: usize = 64 * 1024;

#[derive(Clone, Copy, PartialEq, Eq, Debug, Hash)]
pub enum Op {
    Malloc { size: usize, align: usize },
    Calloc { size: usize, align: usize },
    Realloc { slot: usize, size: usize },
    Free { slot: usize },
}

impl Op {
    pub fn kind(&self) -> &'static str {
        match self {
            Op::Malloc { .. } => "malloc",
            Op::Calloc { .. } => "calloc",
            Op::Realloc { .. } => "realloc",
            Op::Free { .. } => "free",
        }
    }
    /// compact form: m<size>.<align>  c<size>.<align>  r<slot>.<size>  f<slot>
    pub fn show(&self) -> String {
        match *self {
            Op::Malloc { size, align } => format!("m{size}.{align}"),
            Op::Calloc { size, align } => format!("c{size}.{align}"),
            Op::Realloc { slot, size } => format!("r{slot}.{size}"),
            Op::Free { slot } => format!("f{slot}"),
        }
    }
    pub fn parse(s: &str) -> Option<Op> {
        let (k, rest) = s.split_at(1);
        let mut it = rest.split('.');
        let a: usize = it.next()?.parse().ok()?;
        let b: Option<usize> = it.next().and_then(|x| x.parse().ok());
        Some(match k {
            "m" => Op::Malloc { size: a, align: b? },
            "c" => Op::Calloc { size: a, align: b? },
            "r" => Op::Realloc { slot: a, size: b? },
            "f" => Op::Free { slot: a },
            _ => return None,
        })
    }
}

pub fn show_ops(ops: &[Op]) -> Vec<String> {
    ops.iter().map(|o| o.show()).collect()
}
pub fn parse_ops(v: &Value) -> Vec<Op> {
    v.as_array().map(|a| a.iter().filter_map(|x| x.as_str().and_then(Op::parse)).collect()).unwrap_or_default()
}

#[derive(Clone, Copy, Debug)]
pub struct Block {
    pub ptr: usize,
    pub size: usize,
    pub align: usize,
    pub seed: u8,
}

#[inline]
fn pat(seed: u8, i: usize) -> u8 {
    (i as u8).wrapping_mul(31).wrapping_add(((i >> 8) as u8).wrapping_mul(17)).wrapping_add(seed)
}
pub const JUNK: u8 = 0xA5;

/// The byte ranges of a block of `size` bytes that carry the pattern: everything when
/// `size <= dense_limit`, else the first and last page and 128 bytes around every 256 KiB offset.
fn ranges(size: usize, dense_limit: usize, mut f: impl FnMut(usize, usize)) {
    if size <= dense_limit || size <= 3 * PAGE {
        f(0, size);
        return;
    }
    f(0, PAGE);
    let mut o = 256 * 1024;
    while o + 64 < size - PAGE {
        if o - 64 >= PAGE {
            f(o - 64, 128);
        }
        o += 256 * 1024;
    }
    f(size - PAGE, PAGE);
}

/// pattern bytes of the run [i, i+n) that lies inside one 256-byte row (i >> 8 constant)
#[inline]
fn row_const(seed: u8, i: usize) -> u8 {
    ((i >> 8) as u8).wrapping_mul(17).wrapping_add(seed)
}
static ROW: [u8; 256] = {
    let mut t = [0u8; 256];
    let mut j = 0;
    while j < 256 {
        t[j] = (j as u8).wrapping_mul(31);
        j += 1;
    }
    t
};

unsafe fn fill_pattern(b: &Block, from: usize, dense_limit: usize) {
    ranges(b.size, dense_limit, |o, n| {
        let mut i = o.max(from);
        let end = o + n;
        while i < end {
            let row_end = ((i | 255) + 1).min(end);
            let c = row_const(b.seed, i);
            let dst = std::slice::from_raw_parts_mut((b.ptr + i) as *mut u8, row_end - i);
            let src = &ROW[i & 255..(i & 255) + dst.len()];
            for (d, s) in dst.iter_mut().zip(src) {
                *d = s.wrapping_add(c);
            }
            i = row_end;
        }
    });
}
unsafe fn fill_junk(b: &Block, dense_limit: usize) {
    ranges(b.size, dense_limit, |o, n| std::ptr::write_bytes((b.ptr + o) as *mut u8, JUNK, n));
}
/// first offset < upto whose byte is not the pattern (only offsets that carry the pattern for a
/// block of `layout_size` bytes are looked at)
unsafe fn verify_pattern(ptr: usize, seed: u8, layout_size: usize, upto: usize, dense_limit: usize) -> Option<usize> {
    let mut bad = None;
    ranges(layout_size, dense_limit, |o, n| {
        if bad.is_some() {
            return;
        }
        let mut i = o;
        let end = (o + n).min(upto);
        while i < end {
            let row_end = ((i | 255) + 1).min(end);
            let c = row_const(seed, i);
            let got = std::slice::from_raw_parts((ptr + i) as *const u8, row_end - i);
            let want = &ROW[i & 255..(i & 255) + got.len()];
            let mut acc = 0u8;
            for (g, w) in got.iter().zip(want) {
                acc |= *g ^ w.wrapping_add(c);
            }
            if acc != 0 {
                bad = (i..row_end).find(|&j| *((ptr + j) as *const u8) != pat(seed, j));
                return;
            }
            i = row_end;
        }
    });
    bad
}
unsafe fn first_nonzero(ptr: usize, size: usize) -> Option<usize> {
    let s = std::slice::from_raw_parts(ptr as *const u8, size);
    // word-wise scan
    let (pre, mid, post) = s.align_to::<u64>();
    if let Some(i) = pre.iter().position(|&x| x != 0) {
        return Some(i);
    }
    if let Some(w) = mid.iter().position(|&x| x != 0) {
        let base = pre.len() + w * 8;
        return Some(base + s[base..base + 8].iter().position(|&x| x != 0).unwrap_or(0));
    }
    post.iter().position(|&x| x != 0).map(|i| pre.len() + mid.len() * 8 + i)
}

/// What happened in one operation.
#[derive(Clone, Debug, Default)]
pub struct Step {
    /// returned address (0 = null; 1 for free)
    pub ptr: usize,
    pub null: bool,
    pub refused: bool,
    pub refused_mmap: bool,
    pub events: Vec<Ev>,
    /// oracle failures: (failure kind, description)
    pub fails: Vec<(String, String)>,
    /// the allocator state can no longer be trusted (assertion fired): stop the history
    pub dead: bool,
}

pub struct World {
    pub k: Kernel,
    pub a: Box<Dlmalloc>,
    pub slots: Vec<Option<Block>>,
    pub next_seed: u8,
    pub dense_limit: usize,
    pub live_bytes: usize,
    pub peak_live: usize,
    /// index of the `release_checks` word in the `Dlmalloc` object (None = not looked for yet, Some(None) = not found)
    pub countdown_idx: Option<Option<usize>>,
}

impl World {
    pub fn new(dense_limit: usize) -> World {
        World { k: Kernel::new(), a: Box::new(Dlmalloc::new()), slots: Vec::new(), next_seed: 1, dense_limit, live_bytes: 0, peak_live: 0, countdown_idx: None }
    }
    /// fresh allocator over an empty address space (same arena)
    pub fn reset(&mut self) {
        self.k.reset();
        unsafe {
            let p: *mut Dlmalloc = &mut *self.a;
            std::ptr::write_bytes(p as *mut u8, 0, std::mem::size_of::<Dlmalloc>());
            std::ptr::write(p, Dlmalloc::new());
        }
        self.slots.clear();
        self.next_seed = 1;
        self.live_bytes = 0;
        self.peak_live = 0;
    }
    pub fn read_word(&self, idx: usize) -> u64 {
        unsafe { (&*self.a as *const Dlmalloc as *const u64).add(idx).read_unaligned() }
    }
    pub fn write_word(&mut self, idx: usize, v: u64) {
        unsafe { (&mut *self.a as *mut Dlmalloc as *mut u64).add(idx).write_unaligned(v) }
    }
    /// Find the `release_checks` word by experiment: two identical repetitions of "malloc(1000) malloc(24)
    /// free free" (one tree-binned free each) end in the same heap and differ in exactly that word, by one.
    pub fn find_countdown(&mut self) {
        self.reset();
        let mut snaps: Vec<Vec<u8>> = Vec::new();
        for _ in 0..3 {
            for op in [Op::Malloc { size: 1000, align: 8 }, Op::Malloc { size: 24, align: 8 }, Op::Free { slot: 0 }, Op::Free { slot: 1 }] {
                self.step(op);
            }
            snaps.push(self.struct_bytes().to_vec());
        }
        let rd = |b: &Vec<u8>, i: usize| unsafe { (b.as_ptr() as *const u64).add(i).read_unaligned() };
        let n = snaps[0].len() / 8;
        let diff: Vec<usize> = (0..n).filter(|&i| rd(&snaps[1], i) != rd(&snaps[2], i)).collect();
        self.countdown_idx = Some(match diff[..] {
            [i] if rd(&snaps[1], i) == rd(&snaps[2], i) + 1 && rd(&snaps[0], i) == rd(&snaps[1], i) + 1 && rd(&snaps[0], i) <= 4095 => Some(i),
            _ => None,
        });
        self.reset();
    }
    pub fn lowest_free_slot(&self) -> usize {
        self.slots.iter().position(|s| s.is_none()).unwrap_or(self.slots.len())
    }
    pub fn live(&self) -> impl Iterator<Item = (usize, &Block)> {
        self.slots.iter().enumerate().filter_map(|(i, s)| s.as_ref().map(|b| (i, b)))
    }
    pub fn struct_bytes(&self) -> &[u8] {
        unsafe { std::slice::from_raw_parts(&*self.a as *const Dlmalloc as *const u8, std::mem::size_of::<Dlmalloc>()) }
    }

    /// every live block except `skip`: still mapped, pattern intact
    fn check_live(&self, skip: Option<usize>, st: &mut Step) {
        for (i, b) in self.live() {
            if Some(i) == skip {
                continue;
            }
            if !self.k.is_mapped(b.ptr, b.size) {
                st.fails.push((
                    "outside-mapped-memory".into(),
                    format!("live block in slot {i} ({} bytes at {:#x}) is no longer inside memory mapped for the allocator", b.size, b.ptr),
                ));
                continue;
            }
            if let Some(off) = unsafe { verify_pattern(b.ptr, b.seed, b.size, b.size, self.dense_limit) } {
                st.fails.push((
                    "live-block-corrupted".into(),
                    format!(
                        "byte {off} of the live block in slot {i} ({} bytes at {:#x}, align {}) changed although its owner did not write it",
                        b.size, b.ptr, b.align
                    ),
                ));
            }
        }
    }

    /// alignment / inside mapped memory / disjoint from live blocks (other than `skip`)
    fn check_new(&self, p: usize, size: usize, align: usize, skip: Option<usize>, st: &mut Step) -> bool {
        let mut ok = true;
        if p % align != 0 {
            st.fails.push(("misaligned".into(), format!("returned {p:#x} for size {size} is not aligned to {align}")));
            ok = false;
        }
        if !self.k.is_mapped(p, size) {
            st.fails.push((
                "outside-mapped-memory".into(),
                format!("returned block [{p:#x}, +{size}) is not inside memory currently mapped for the allocator {:x?}", self.k.regions),
            ));
            ok = false;
        }
        for (i, b) in self.live() {
            if Some(i) == skip {
                continue;
            }
            if p < b.ptr + b.size && b.ptr < p + size {
                st.fails.push((
                    "overlaps-live-block".into(),
                    format!("returned block [{p:#x}, +{size}) overlaps the live block in slot {i} [{:#x}, +{})", b.ptr, b.size),
                ));
                ok = false;
            }
        }
        ok
    }

    /// Execute one operation on the real allocator and apply the oracle.
    /// `Realloc`/`Free` of an empty slot is a harness error (the enumerators never produce it).
    pub fn step(&mut self, op: Op) -> Step {
        let mut st = Step::default();
        self.k.events.clear();
        let n_anom = self.k.anomalies.len();
        let dl = self.dense_limit;
        // junk-fill before free so that recycled chunks are dirty
        if let Op::Free { slot } = op {
            let b = self.slots[slot].expect("free of an empty slot");
            if self.k.is_mapped(b.ptr, b.size) {
                unsafe { fill_junk(&b, dl) };
            }
        }
        let a: *mut Dlmalloc = &mut *self.a;
        let slots = &self.slots;
        let k = &mut self.k;
        let res: Result<(usize, Vec<sysx::Call>), String> = catch(|| {
            sysx::run(k, || unsafe {
                match op {
                    Op::Malloc { size, align } => (*a).malloc(size, align) as usize,
                    Op::Calloc { size, align } => (*a).calloc(size, align) as usize,
                    Op::Realloc { slot, size } => {
                        let b = slots[slot].expect("realloc of an empty slot");
                        (*a).realloc(b.ptr as *mut u8, b.size, b.align, size) as usize
                    }
                    Op::Free { slot } => {
                        let b = slots[slot].expect("free of an empty slot");
                        (*a).free(b.ptr as *mut u8);
                        1
                    }
                }
            })
        });
        st.events = self.k.events.clone();
        st.refused = st.events.iter().any(|e| matches!(e, Ev::Refused(_)));
        st.refused_mmap = st.events.iter().any(|e| matches!(e, Ev::Refused(CallKind::Mmap)));
        for an in &self.k.anomalies[n_anom..] {
            st.fails.push(("foreign-or-invalid-syscall".into(), an.clone()));
        }
        let p = match res {
            Err(msg) => {
                st.fails.push(("allocator-assertion".into(), format!("the allocator panicked: {msg}")));
                st.dead = true;
                return st;
            }
            Ok((p, _log)) => p,
        };
        st.ptr = p;
        match op {
            Op::Malloc { size, align } | Op::Calloc { size, align } => {
                if p == 0 {
                    st.null = true;
                    self.check_live(None, &mut st);
                    return st;
                }
                let ok = self.check_new(p, size, align, None, &mut st);
                self.check_live(None, &mut st);
                if ok {
                    if matches!(op, Op::Calloc { .. }) {
                        if let Some(off) = unsafe { first_nonzero(p, size) } {
                            st.fails.push(("not-zeroed".into(), format!("calloc({size}, {align}) returned {p:#x} whose byte {off} is {:#x}", unsafe { *((p + off) as *const u8) })));
                        }
                    }
                    let b = Block { ptr: p, size, align, seed: self.next_seed };
                    self.next_seed = self.next_seed.wrapping_mul(5).wrapping_add(37);
                    unsafe { fill_pattern(&b, 0, dl) };
                    let s = self.lowest_free_slot();
                    if s == self.slots.len() {
                        self.slots.push(Some(b));
                    } else {
                        self.slots[s] = Some(b);
                    }
                    self.live_bytes += size;
                    self.peak_live = self.peak_live.max(self.live_bytes);
                } else {
                    st.dead = true;
                }
            }
            Op::Realloc { slot, size } => {
                let old = self.slots[slot].unwrap();
                if p == 0 {
                    st.null = true;
                    // the old block stays valid
                    self.check_live(None, &mut st);
                    return st;
                }
                let ok = self.check_new(p, size, old.align, Some(slot), &mut st);
                self.check_live(Some(slot), &mut st);
                if ok {
                    let keep = old.size.min(size);
                    if let Some(off) = unsafe { verify_pattern(p, old.seed, old.size, keep, dl) } {
                        st.fails.push((
                            "prefix-lost".into(),
                            format!("realloc of {} bytes at {:#x} to {size} bytes returned {p:#x}; byte {off} of the common prefix ({keep} bytes) differs", old.size, old.ptr),
                        ));
                    }
                    let b = Block { ptr: p, size, align: old.align, seed: old.seed };
                    // the sparse layout depends on the size: rewrite the whole pattern
                    unsafe { fill_pattern(&b, 0, dl) };
                    self.slots[slot] = Some(b);
                    self.live_bytes = self.live_bytes - old.size + size;
                    self.peak_live = self.peak_live.max(self.live_bytes);
                } else {
                    st.dead = true;
                }
            }
            Op::Free { slot } => {
                let old = self.slots[slot].take().unwrap();
                self.live_bytes -= old.size;
                self.check_live(None, &mut st);
            }
        }
        st
    }
}

/// Outcome class of a step: which allocator/kernel path was taken, as far as the system-call log tells.
pub fn outcome_class(op: Op, st: &Step) -> String {
    let k = op.kind();
    if st.dead && st.fails.iter().any(|f| f.0 == "allocator-assertion") {
        return format!("{k}:assertion");
    }
    if st.null {
        return format!("{k}:{}", if st.refused { "oom-null" } else { "null-without-refusal" });
    }
    let mut cls: Vec<&str> = Vec::new();
    for e in &st.events {
        let c = match e {
            Ev::MapFirst => "mmap-first-segment",
            Ev::MapBelowAdjacent => "mmap-below-adjacent(prepend)",
            Ev::MapAboveAdjacent => "mmap-above-adjacent(extend-or-new)",
            Ev::MapBetweenAdjacent => "mmap-fills-hole",
            Ev::MapDisjoint => "mmap-disjoint(new-segment)",
            Ev::ShrinkRemap => "trimmed(mremap-shrink)",
            Ev::GrowRemapInPlace | Ev::GrowRemapMoved => "mremap-grow",
            Ev::UnmapPart => "trimmed(munmap-tail)",
            Ev::UnmapWhole => "segment-released",
            Ev::Refused(CallKind::Mmap) => "mmap-refused",
            Ev::Refused(CallKind::Mremap) => "mremap-refused",
            Ev::Refused(CallKind::Munmap) => "munmap-refused",
        };
        if !cls.contains(&c) {
            cls.push(c);
        }
    }
    if cls.is_empty() {
        format!("{k}:no-syscall")
    } else {
        format!("{k}:{}", cls.join("+"))
    }
}

/// One C03 case: a history run from an empty address space under a placement script and a refusal plan.
#[derive(Clone, Debug)]
pub struct Case {
    pub phase: &'static str,
    /// fixed prefix that builds the seed heap state (boundary phase), checked like the rest
    pub seed_name: String,
    pub seed: Vec<Op>,
    pub ops: Vec<Op>,
    pub script: Vec<Policy>,
    pub default_policy: Policy,
    pub refuse: Vec<usize>,
    /// refuse call `refuse[0]` and every later modelled call of the same operation
    pub sticky: bool,
    /// after `ops`: repeat these operations until one of them makes the allocator give back a whole mapping
    /// (a release pass) or `loop_max` repetitions were done ...
    pub loop_ops: Vec<Op>,
    pub loop_max: usize,
    /// ... then run these
    pub post: Vec<Op>,
    /// (index into seed+history, value): before that operation the allocator's `release_checks` countdown is
    /// set to `value` (never raised), i.e. the heap is taken to be `current - value` large frees older
    pub countdown: Option<(usize, u64)>,
    /// instead of writing the word, really perform `current - value` large frees there (validation of the shortcut)
    pub countdown_brute: bool,
}

impl Case {
    pub fn plain(phase: &'static str, ops: Vec<Op>) -> Case {
        Case { phase, seed_name: String::new(), seed: vec![], ops, script: vec![], default_policy: Policy::TopDown, refuse: vec![], sticky: false, loop_ops: vec![], loop_max: 0, post: vec![], countdown: None, countdown_brute: false }
    }
    pub fn to_json(&self) -> Value {
        json!({
            "phase": self.phase,
            "seed_name": self.seed_name,
            "seed": show_ops(&self.seed),
            "history": show_ops(&self.ops),
            "script": script_string(&self.script),
            "default_policy": self.default_policy.letter().to_string(),
            "refuse": self.refuse,
            "sticky": self.sticky,
            "loop": show_ops(&self.loop_ops),
            "loop_max": self.loop_max,
            "post": show_ops(&self.post),
            "countdown": self.countdown.map(|(a, v)| vec![a as u64, v]),
            "countdown_brute": self.countdown_brute,
        })
    }
    pub fn from_json(v: &Value) -> Case {
        let phase: &'static str = match v["phase"].as_str().unwrap_or("hist") {
            "boundary" => "boundary",
            "placement" => "placement",
            "junction" => "junction",
            "multiseg" => "multiseg",
            "release-role" => "release-role",
            "oom" => "oom",
            _ => "hist",
        };
        Case {
            phase,
            seed_name: v["seed_name"].as_str().unwrap_or("").to_string(),
            seed: parse_ops(&v["seed"]),
            ops: parse_ops(&v["history"]),
            script: parse_script(v["script"].as_str().unwrap_or("")),
            default_policy: v["default_policy"].as_str().and_then(|s| s.chars().next()).and_then(Policy::from_letter).unwrap_or(Policy::TopDown),
            refuse: v["refuse"].as_array().map(|a| a.iter().filter_map(|x| x.as_u64().map(|x| x as usize)).collect()).unwrap_or_default(),
            sticky: v["sticky"].as_bool().unwrap_or(false),
            loop_ops: parse_ops(&v["loop"]),
            loop_max: v["loop_max"].as_u64().unwrap_or(0) as usize,
            post: parse_ops(&v["post"]),
            countdown: v["countdown"].as_array().and_then(|a| Some((a.first()?.as_u64()? as usize, a.get(1)?.as_u64()?))),
            countdown_brute: v["countdown_brute"].as_bool().unwrap_or(false),
        }
    }
}

/// What a run of a case did (used by the enumerators that branch on it).
#[derive(Clone, Debug, Default)]
pub struct RunInfo {
    pub mmaps: usize,
    /// kinds of all modelled calls in order
    pub kinds: Vec<CallKind>,
    /// number of modelled calls performed by the seed prefix
    pub calls_in_seed: usize,
    pub violated: bool,
    pub completed: bool,
    /// (returned address, kernel events) of every operation from the countdown point on
    pub trace: Vec<(usize, Vec<Ev>)>,
    /// the countdown was really lowered
    pub countdown_applied: bool,
    /// indices of the operations during which the allocator gave back a whole mapping
    pub released_at: Vec<usize>,
    pub refusal_hit: bool,
    pub peak_footprint: usize,
    /// one operation made the allocator give back two or more whole mappings
    pub multi_release: bool,
}

/// Run a case with the oracle after every operation.  Violations and outcome classes go to `r`.
pub fn run_case(w: &mut World, c: &Case, r: &mut Report, verbose: bool) -> RunInfo {
    if c.countdown.is_some() && w.countdown_idx.is_none() {
        w.find_countdown();
    }
    w.reset();
    w.k.script = c.script.clone();
    w.k.default_policy = c.default_policy;
    if c.sticky {
        w.k.refuse_from = c.refuse.first().copied();
    } else {
        w.k.refuse = c.refuse.clone();
    }
    let oom_mode = !c.refuse.is_empty();
    let mut info = RunInfo::default();
    let mut case_json = c.to_json();
    let case_prefix = {
        let s = case_json.to_string();
        s[..s.len() - 1].to_string()
    };
    let mut after_refusal = false;
    // the operations to run; the loop part and the post part are appended when the end is reached
    let mut queue: Vec<Op> = c.seed.iter().chain(c.ops.iter()).copied().collect();
    let mut loops_done = 0usize;
    let mut loop_released = false;
    let mut post_added = c.loop_ops.is_empty() && c.post.is_empty();
    let mut i = 0;
    loop {
        if i == queue.len() {
            if !post_added && !c.loop_ops.is_empty() && loops_done < c.loop_max && !loop_released {
                queue.extend_from_slice(&c.loop_ops);
                loops_done += 1;
            } else if !post_added {
                post_added = true;
                r.outcome(if c.loop_ops.is_empty() { "post-part" } else if loop_released { "loop-ended-by-release-pass" } else { "loop-ended-by-repetition-limit" });
                queue.extend_from_slice(&c.post);
            }
            if i == queue.len() {
                break;
            }
        }
        let op = queue[i];
        if i == c.seed.len() {
            info.calls_in_seed = w.k.calls;
        }
        if let (Some((at, value)), Some(Some(idx))) = (c.countdown, w.countdown_idx) {
            if at == i {
                let cur = w.read_word(idx);
                if cur > value && cur <= 4096 {
                    info.countdown_applied = true;
                    if !c.countdown_brute {
                        if verbose {
                            println!("  countdown word #{idx}: {cur} -> {value}");
                        }
                        w.write_word(idx, value);
                    } else {
                        // really age the heap: one tree-binned free per repetition
                        set_case(&format!("{case_prefix},\"op\":\"free\",\"at\":{i},\"in\":\"countdown-brute-force-loop\"}}"));
                        // one repetition = malloc(1000) malloc(300) free free: tree-bin sized requests only, so that
                        // dv is left alone; it costs 1 or 2 countdown steps depending on what the blocks border on
                        let mut last_d = 0u64;
                        loop {
                            let now = w.read_word(idx);
                            if now <= value || now > cur {
                                break;
                            }
                            let single = now - value == 1 && last_d == 2;
                            let a = w.lowest_free_slot();
                            let s1 = w.step(Op::Malloc { size: 1000, align: 8 });
                            let mut steps = vec![s1];
                            if single {
                                steps.push(w.step(Op::Free { slot: a }));
                            } else {
                                let b = w.lowest_free_slot();
                                steps.push(w.step(Op::Malloc { size: 300, align: 8 }));
                                steps.push(w.step(Op::Free { slot: a }));
                                steps.push(w.step(Op::Free { slot: b }));
                            }
                            if steps.iter().any(|s| !s.fails.is_empty() || s.dead || s.null) {
                                info.violated = true;
                                r.violation(
                                    "C03:free:allocator-assertion",
                                    format!("while ageing the heap by repeated malloc(1000) malloc(300) free free: {:?}", steps.iter().map(|s| s.fails.clone()).collect::<Vec<_>>()),
                                    case_json.clone(),
                                );
                                return info;
                            }
                            last_d = now.wrapping_sub(w.read_word(idx));
                            if last_d == 0 || last_d > 2 {
                                break;
                            }
                        }
                        clear_case();
                        if verbose {
                            println!("  aged the heap by {} tree-binned frees: countdown word {} -> {}", cur - value, cur, w.read_word(idx));
                        }
                        if w.read_word(idx) != value {
                            r.outcome("countdown-brute-force:loop-did-not-reach-the-value");
                            info.countdown_applied = false;
                        }
                    }
                }
            }
        }
        let opname = if after_refusal { "oom" } else { op.kind() };
        set_case(&format!("{case_prefix},\"op\":\"{opname}\",\"at\":{i}}}"));
        let st = w.step(op);
        clear_case();
        if !st.fails.is_empty() || st.refused {
            case_json["op"] = json!(opname);
            case_json["at"] = json!(i);
        }
        if verbose {
            println!(
                "  [{i}] {:<14} -> {} events {:?} footprint {} regions {:x?}",
                op.show(),
                if st.null { "NULL".to_string() } else { match op { Op::Free { .. } => "()".into(), _ => format!("{:#x}", st.ptr) } },
                st.events,
                w.k.footprint,
                w.k.regions
            );
        }
        r.outcome(&outcome_class(op, &st));
        if matches!(c.countdown, Some((at, _)) if i >= at) {
            info.trace.push((st.ptr, st.events.clone()));
        }
        let n_released = st.events.iter().filter(|e| matches!(e, Ev::UnmapWhole)).count();
        if n_released >= 1 {
            info.released_at.push(i);
        }
        if n_released >= 2 {
            r.outcome("release-pass-released>=2-segments");
            info.multi_release = true;
        }
        if n_released >= 1 && loops_done > 0 && !post_added {
            loop_released = true;
        }
        let report = |r: &mut Report, kind: &str, desc: &str| {
            let key = if after_refusal {
                "C03:oom:heap-unusable-afterwards".to_string()
            } else if st.refused && oom_mode && kind == "live-block-corrupted" {
                "C03:oom:live-block-lost".to_string()
            } else if st.refused && oom_mode && kind == "outside-mapped-memory" && st.null {
                "C03:oom:live-block-lost".to_string()
            } else if kind == "not-zeroed" {
                "C03:calloc:not-zeroed".to_string()
            } else if kind == "prefix-lost" {
                "C03:realloc:prefix-lost".to_string()
            } else {
                format!("C03:{}:{kind}", op.kind())
            };
            r.violation(&key, format!("{} (operation #{i} `{}` of seed {:?} + history {:?}, placement {:?}/{:?}, refused calls {:?}{}): {desc}",
                kind, op.show(), c.seed_name, show_ops(&c.ops), script_string(&c.script), c.default_policy, c.refuse, if c.sticky {"+"} else {""}), case_json.clone());
        };
        for (kind, desc) in &st.fails {
            info.violated = true;
            report(r, kind, desc);
        }
        if st.dead {
            return info;
        }
        if st.refused {
            info.refusal_hit = true;
        }
        // the operation is over: a sticky refusal that was reached ends here
        let was_sticky = match w.k.refuse_from {
            Some(k) if w.k.calls > k => {
                w.k.refuse_from = None;
                true
            }
            _ => false,
        };
        if st.refused && !matches!(op, Op::Free { .. }) {
            if !st.null {
                if st.refused_mmap {
                    info.violated = true;
                    r.violation(
                        "C03:oom:non-null-after-refusal",
                        format!("operation #{i} `{}` returned non-null although the kernel refused its mmap (history {:?}, refused {:?})", op.show(), show_ops(&c.ops), c.refuse),
                        case_json.clone(),
                    );
                }
            } else {
                // heap must remain usable: the same operation, not refused this time, must succeed
                w.k.refuse.clear();
                after_refusal = true;
                case_json["op"] = json!("oom");
                case_json["retry"] = json!(true);
                set_case(&case_json.to_string());
                let st2 = w.step(op);
                clear_case();
                r.outcome(&format!("retry-after-oom:{}", if st2.null { "null" } else { "ok" }));
                for (kind, desc) in &st2.fails {
                    info.violated = true;
                    r.violation(
                        "C03:oom:heap-unusable-afterwards",
                        format!("retry of operation #{i} `{}` after a refused mapping: {kind}: {desc} (seed {:?} history {:?} refused {:?})", op.show(), c.seed_name, show_ops(&c.ops), c.refuse),
                        case_json.clone(),
                    );
                }
                if st2.null && !w.k.arena_exhausted {
                    info.violated = true;
                    r.violation(
                        "C03:oom:heap-unusable-afterwards",
                        format!("operation #{i} `{}` still returns null when retried after the refusal ended (seed {:?} history {:?} refused {:?})", op.show(), c.seed_name, show_ops(&c.ops), c.refuse),
                        case_json.clone(),
                    );
                }
                if st2.dead || st2.null {
                    return info;
                }
            }
        } else if st.null {
            // null although nothing was refused: allowed by the statement; the history cannot continue as enumerated
            if w.k.arena_exhausted {
                r.cap("model arena exhausted");
            }
            return info;
        }
        if st.refused || was_sticky {
            after_refusal = after_refusal || st.refused;
            w.k.refuse.clear();
        }
        i += 1;
    }
    info.completed = true;
    if !w.k.fixed_base {
        r.outcome("arena-not-at-fixed-address(addresses-not-reproducible)");
    }
    info.mmaps = w.k.mmaps;
    info.kinds = w.k.kinds.clone();
    info.peak_footprint = w.k.peak_footprint;
    if c.seed.is_empty() {
        info.calls_in_seed = 0;
    }
    info
}
