//! Model kernel for anonymous memory, used as a `sysx::Plan`.
//!
//! A large PROT_NONE arena is reserved once per process (outside the seam).  The
//! allocator's `mmap(NULL, len, RW, PRIVATE|ANON)` is answered by carving a range out
//! of the arena at an address chosen by a *placement policy* (a choice of the
//! enumeration), `munmap` / shrinking `mremap` turn the range back to PROT_NONE (and
//! drop its pages, so that a later mapping of the same range reads as zeros like
//! fresh anonymous memory), growing `mremap` is modelled in place / moving.  Any touch
//! of memory that was given back faults deterministically.
//!
//! The plan runs inside the SIGSYS handler: it never panics and only calls `libc::*`.

use sysx::{Decision, Plan};

pub const PAGE: usize = 4096;
pub const ARENA_HINT: usize = 0x1000_0000_0000;
pub const ARENA_SIZE: usize = 64 << 30;
/// deliberately only page-aligned (not 64 KiB aligned): Linux gives page alignment only
pub const ORIGIN_OFF: usize = (32 << 30) + 0x7000;
/// released ranges up to this size are cleared by hand and stay resident
pub const RETAIN_MAX: usize = 256 * 1024;
/// after this many retained bytes (cumulative) the whole touched window is dropped
pub const RETAIN_BUDGET: usize = 1 << 30;
pub const ENOMEM: i64 = -12;
pub const EINVAL: i64 = -22;
pub const EFAULT: i64 = -14;

#[derive(Clone, Copy, PartialEq, Eq, Debug, Hash)]
pub enum Policy {
    /// Linux-like top-down first fit: the highest free range below the origin that fits
    /// (fresh process: directly below the previous mapping; reuses holes left by trims)
    TopDown,
    /// directly below a live mapping: the highest one that has room below it (-> prepend path)
    Below,
    /// directly above a live mapping: the highest one that has room above it (-> segment extension when top lives there)
    Above,
    /// top-down first fit that never touches a live mapping: one inaccessible page on either side (-> add_segment, least_addr moves)
    Disjoint,
    /// bottom-up first fit above the origin, one inaccessible page on either side (-> add_segment above everything older)
    DisjointUp,
}

pub const ALL_POLICIES: [Policy; 5] = [Policy::TopDown, Policy::Below, Policy::Above, Policy::Disjoint, Policy::DisjointUp];

impl Policy {
    pub fn letter(self) -> char {
        match self {
            Policy::TopDown => 'T',
            Policy::Below => 'B',
            Policy::Above => 'A',
            Policy::Disjoint => 'D',
            Policy::DisjointUp => 'U',
        }
    }
    pub fn from_letter(c: char) -> Option<Policy> {
        Some(match c {
            'T' => Policy::TopDown,
            'B' => Policy::Below,
            'A' => Policy::Above,
            'D' => Policy::Disjoint,
            'U' => Policy::DisjointUp,
            _ => return None,
        })
    }
}

pub fn script_string(s: &[Policy]) -> String {
    s.iter().map(|p| p.letter()).collect()
}
pub fn parse_script(s: &str) -> Vec<Policy> {
    s.chars().filter_map(Policy::from_letter).collect()
}

#[derive(Clone, Copy, PartialEq, Eq, Debug)]
pub enum CallKind {
    Mmap,
    Mremap,
    Munmap,
}

#[derive(Clone, Copy, PartialEq, Eq, Debug)]
pub enum Ev {
    /// first mapping of an empty address space
    MapFirst,
    /// new mapping ends exactly where a live mapping begins
    MapBelowAdjacent,
    /// new mapping begins exactly where a live mapping ends
    MapAboveAdjacent,
    /// both neighbours touch (fills a hole exactly)
    MapBetweenAdjacent,
    MapDisjoint,
    ShrinkRemap,
    GrowRemapInPlace,
    GrowRemapMoved,
    /// munmap of a tail / part of a live mapping
    UnmapPart,
    /// munmap of a whole live mapping (one contiguous run of mapped bytes)
    UnmapWhole,
    Refused(CallKind),
}

pub struct Kernel {
    pub base: usize,
    pub size: usize,
    pub origin: usize,
    pub fixed_base: bool,
    /// sorted, disjoint, coalesced [start, end) ranges currently RW for the allocator
    pub regions: Vec<(usize, usize)>,
    pub footprint: usize,
    pub peak_footprint: usize,
    pub script: Vec<Policy>,
    pub default_policy: Policy,
    pub mmaps: usize,
    /// index over the modelled calls (mmap, mremap, munmap) since `reset`
    pub calls: usize,
    pub kinds: Vec<CallKind>,
    pub refuse: Vec<usize>,
    /// refuse every modelled call with index >= this (until cleared by the harness at the end of the operation)
    pub refuse_from: Option<usize>,
    pub events: Vec<Ev>,
    /// things the allocator should never do (foreign syscalls, unmapping what it does not own, odd arguments)
    pub anomalies: Vec<String>,
    pub arena_exhausted: bool,
    /// how each successful mmap (by mmap index) related to the live mappings
    pub join_events: Vec<Ev>,
    /// written by the lasso rounds (observation, see lasso.rs)
    pub reuse_misses: usize,
    retained: usize,
    water: (usize, usize),
}

fn reserve_arena() -> (usize, bool) {
    unsafe {
        let flags = libc::MAP_PRIVATE | libc::MAP_ANONYMOUS | libc::MAP_NORESERVE;
        let p = libc::mmap(ARENA_HINT as *mut _, ARENA_SIZE, libc::PROT_NONE, flags | libc::MAP_FIXED_NOREPLACE, -1, 0);
        if p != libc::MAP_FAILED && p as usize == ARENA_HINT {
            return (ARENA_HINT, true);
        }
        if p != libc::MAP_FAILED {
            libc::munmap(p, ARENA_SIZE);
        }
        let p = libc::mmap(std::ptr::null_mut(), ARENA_SIZE, libc::PROT_NONE, flags, -1, 0);
        assert!(p != libc::MAP_FAILED, "cannot reserve the arena");
        (p as usize, false)
    }
}

impl Kernel {
    pub fn new() -> Kernel {
        let (base, fixed) = reserve_arena();
        Kernel {
            base,
            size: ARENA_SIZE,
            origin: base + ORIGIN_OFF,
            fixed_base: fixed,
            regions: Vec::with_capacity(16),
            footprint: 0,
            peak_footprint: 0,
            script: Vec::new(),
            default_policy: Policy::TopDown,
            mmaps: 0,
            calls: 0,
            kinds: Vec::with_capacity(32),
            refuse: Vec::new(),
            refuse_from: None,
            events: Vec::with_capacity(16),
            anomalies: Vec::new(),
            arena_exhausted: false,
            join_events: Vec::new(),
            reuse_misses: 0,
            retained: 0,
            water: (usize::MAX, 0),
        }
    }

    /// Give everything back and start a new run (same arena).
    pub fn reset(&mut self) {
        let regs = std::mem::take(&mut self.regions);
        for (a, b) in &regs {
            self.hw_release(*a, *b - *a);
        }
        self.regions = regs;
        self.regions.clear();
        self.footprint = 0;
        self.peak_footprint = 0;
        self.script.clear();
        self.default_policy = Policy::TopDown;
        self.mmaps = 0;
        self.calls = 0;
        self.kinds.clear();
        self.refuse.clear();
        self.refuse_from = None;
        self.events.clear();
        self.anomalies.clear();
        self.arena_exhausted = false;
        self.join_events.clear();
        self.reuse_misses = 0;
    }

    /// Make a currently RW range inaccessible.  Whatever is mapped there later must read as zeros:
    /// small ranges are cleared and keep their pages (no page-fault storm in the next run), large ones
    /// drop their pages.
    fn hw_release(&mut self, addr: usize, len: usize) {
        unsafe {
            if len <= RETAIN_MAX {
                std::ptr::write_bytes(addr as *mut u8, 0, len);
                libc::mprotect(addr as *mut _, len, libc::PROT_NONE);
                self.retained += len;
                self.water = (self.water.0.min(addr), self.water.1.max(addr + len));
                if self.retained > RETAIN_BUDGET {
                    // drop the pages of everything that is not mapped right now (never of live memory)
                    for (lo, hi) in self.gaps() {
                        let (lo, hi) = (lo.max(self.water.0), hi.min(self.water.1));
                        if hi > lo {
                            libc::madvise(lo as *mut _, hi - lo, libc::MADV_DONTNEED);
                        }
                    }
                    self.retained = 0;
                    self.water = (usize::MAX, 0);
                }
            } else {
                libc::mprotect(addr as *mut _, len, libc::PROT_NONE);
                libc::madvise(addr as *mut _, len, libc::MADV_DONTNEED);
            }
        }
    }
    fn hw_map(&self, addr: usize, len: usize) -> bool {
        unsafe { libc::mprotect(addr as *mut _, len, libc::PROT_READ | libc::PROT_WRITE) == 0 }
    }

    pub fn in_arena(&self, addr: usize, len: usize) -> bool {
        addr >= self.base + PAGE && len <= self.size && addr.checked_add(len).map_or(false, |e| e <= self.base + self.size - PAGE)
    }

    /// is [addr, addr+len) entirely inside currently mapped memory?
    pub fn is_mapped(&self, addr: usize, len: usize) -> bool {
        let end = match addr.checked_add(len) {
            Some(e) => e,
            None => return false,
        };
        // regions are coalesced, so a fully mapped range lies inside one of them
        self.regions.iter().any(|&(a, b)| a <= addr && end <= b)
    }
    fn intersects(&self, addr: usize, len: usize) -> bool {
        let end = addr + len;
        self.regions.iter().any(|&(a, b)| a < end && addr < b)
    }

    fn insert_region(&mut self, addr: usize, len: usize) {
        let end = addr + len;
        let pos = self.regions.iter().position(|r| r.0 >= addr).unwrap_or(self.regions.len());
        self.regions.insert(pos, (addr, end));
        // coalesce with neighbours
        if pos + 1 < self.regions.len() && self.regions[pos].1 == self.regions[pos + 1].0 {
            self.regions[pos].1 = self.regions[pos + 1].1;
            self.regions.remove(pos + 1);
        }
        if pos > 0 && self.regions[pos - 1].1 == self.regions[pos].0 {
            self.regions[pos - 1].1 = self.regions[pos].1;
            self.regions.remove(pos);
        }
        self.footprint += len;
        if self.footprint > self.peak_footprint {
            self.peak_footprint = self.footprint;
        }
    }

    /// remove [addr, addr+len) from the mapped set; returns the number of bytes that were mapped
    fn remove_range(&mut self, addr: usize, len: usize) -> usize {
        let end = addr + len;
        let mut out: Vec<(usize, usize)> = Vec::with_capacity(self.regions.len() + 1);
        let mut removed = 0;
        let mut rel: Vec<(usize, usize)> = Vec::new();
        for &(a, b) in &self.regions {
            if b <= addr || end <= a {
                out.push((a, b));
                continue;
            }
            let lo = a.max(addr);
            let hi = b.min(end);
            removed += hi - lo;
            rel.push((lo, hi - lo));
            if a < lo {
                out.push((a, lo));
            }
            if hi < b {
                out.push((hi, b));
            }
        }
        for (lo, n) in rel {
            self.hw_release(lo, n);
        }
        self.regions = out;
        self.footprint -= removed;
        removed
    }

    /// free ranges of the arena, lowest first
    fn gaps(&self) -> Vec<(usize, usize)> {
        let mut v = Vec::with_capacity(self.regions.len() + 1);
        let mut lo = self.base + PAGE;
        for &(a, b) in &self.regions {
            if a > lo {
                v.push((lo, a));
            }
            lo = b;
        }
        let hi = self.base + self.size - PAGE;
        if hi > lo {
            v.push((lo, hi));
        }
        v
    }

    /// All policies are first-fit scans outward from the origin, so the addresses in use stay within a
    /// window proportional to what is mapped (the state space of a bounded-footprint run is finite).
    fn choose(&mut self, len: usize, pol: Policy) -> Option<usize> {
        if self.regions.is_empty() {
            return Some(self.origin - len);
        }
        let origin = self.origin;
        let a = match pol {
            Policy::TopDown => {
                // highest free range below the origin that fits
                self.gaps().iter().rev().find_map(|&(lo, hi)| {
                    let hi = hi.min(origin);
                    (hi > lo && hi - lo >= len).then(|| hi - len)
                })?
            }
            Policy::Disjoint => {
                // the same, but never touching a live mapping (one inaccessible page on either side)
                self.gaps().iter().rev().find_map(|&(lo, hi)| {
                    let hi = hi.min(origin);
                    (hi > lo && hi - lo >= len + 2 * PAGE).then(|| hi - PAGE - len)
                })?
            }
            Policy::DisjointUp => {
                // lowest free range above the origin that fits with a page on either side
                self.gaps().iter().find_map(|&(lo, hi)| {
                    let lo = lo.max(origin);
                    (hi > lo && hi - lo >= len + 2 * PAGE).then(|| lo + PAGE)
                })?
            }
            Policy::Below => {
                // directly below a live mapping: the highest mapping that has room below it
                let regs = self.regions.clone();
                regs.iter().rev().find_map(|&(start, _)| {
                    let p = start.checked_sub(len)?;
                    (self.in_arena(p, len) && !self.intersects(p, len)).then_some(p)
                })?
            }
            Policy::Above => {
                // directly above a live mapping: the highest mapping that has room above it
                let regs = self.regions.clone();
                regs.iter().rev().find_map(|&(_, end)| (self.in_arena(end, len) && !self.intersects(end, len)).then_some(end))?
            }
        };
        if !self.in_arena(a, len) || self.intersects(a, len) {
            return None;
        }
        Some(a)
    }

    fn classify_map(&self, addr: usize, len: usize) -> Ev {
        if self.regions.is_empty() {
            return Ev::MapFirst;
        }
        let below = self.regions.iter().any(|r| r.1 == addr);
        let above = self.regions.iter().any(|r| r.0 == addr + len);
        match (below, above) {
            (true, true) => Ev::MapBetweenAdjacent,
            (true, false) => Ev::MapAboveAdjacent,
            (false, true) => Ev::MapBelowAdjacent,
            (false, false) => Ev::MapDisjoint,
        }
    }

    fn refused_now(&mut self, kind: CallKind) -> bool {
        let idx = self.calls;
        self.calls += 1;
        self.kinds.push(kind);
        let r = self.refuse.contains(&idx) || self.refuse_from.map_or(false, |k| idx >= k);
        if r {
            self.events.push(Ev::Refused(kind));
        }
        r
    }

    fn do_mmap(&mut self, args: &[u64; 6]) -> i64 {
        let len = args[1] as usize;
        if args[0] != 0 || args[2] != 3 || args[3] != 0x22 || args[4] as i64 != -1 || args[5] != 0 {
            self.anomalies.push(format!("mmap with unexpected arguments {args:x?}"));
        }
        if len == 0 {
            return EINVAL;
        }
        let len = (len + PAGE - 1) & !(PAGE - 1);
        if self.refused_now(CallKind::Mmap) {
            return ENOMEM;
        }
        let pol = self.script.get(self.mmaps).copied().unwrap_or(self.default_policy);
        self.mmaps += 1;
        let Some(addr) = self.choose(len, pol) else {
            self.arena_exhausted = true;
            self.events.push(Ev::Refused(CallKind::Mmap));
            return ENOMEM;
        };
        if !self.hw_map(addr, len) {
            self.arena_exhausted = true;
            self.events.push(Ev::Refused(CallKind::Mmap));
            return ENOMEM;
        }
        let ev = self.classify_map(addr, len);
        self.events.push(ev);
        self.join_events.push(ev);
        self.insert_region(addr, len);
        addr as i64
    }

    fn do_munmap(&mut self, args: &[u64; 6]) -> i64 {
        let (addr, len) = (args[0] as usize, args[1] as usize);
        if addr % PAGE != 0 || len == 0 {
            self.anomalies.push(format!("munmap({addr:#x}, {len:#x}): misaligned address or zero length"));
            return EINVAL;
        }
        let len = (len + PAGE - 1) & !(PAGE - 1);
        if !self.in_arena(addr, len) {
            self.anomalies.push(format!("munmap({addr:#x}, {len:#x}) outside the memory the allocator was given"));
            return EINVAL;
        }
        if self.refused_now(CallKind::Munmap) {
            return ENOMEM;
        }
        let whole = self.regions.iter().any(|&(a, b)| a == addr && b == addr + len);
        let removed = self.remove_range(addr, len);
        if removed != len {
            self.anomalies.push(format!("munmap({addr:#x}, {len:#x}) covers {} bytes that are not mapped by the allocator", len - removed));
        }
        self.events.push(if whole { Ev::UnmapWhole } else { Ev::UnmapPart });
        0
    }

    fn do_mremap(&mut self, args: &[u64; 6]) -> i64 {
        let (old, oldsz, newsz, flags) = (args[0] as usize, args[1] as usize, args[2] as usize, args[3]);
        if flags & !1 != 0 {
            self.anomalies.push(format!("mremap with flags {flags:#x}"));
        }
        if old % PAGE != 0 || newsz == 0 {
            self.anomalies.push(format!("mremap({old:#x}, {oldsz:#x}, {newsz:#x}): misaligned address or zero new size"));
            return EINVAL;
        }
        let oldsz = (oldsz + PAGE - 1) & !(PAGE - 1);
        let newsz = (newsz + PAGE - 1) & !(PAGE - 1);
        if self.refused_now(CallKind::Mremap) {
            return ENOMEM;
        }
        if oldsz == 0 || !self.in_arena(old, oldsz) || !self.is_mapped(old, oldsz) {
            self.anomalies.push(format!("mremap({old:#x}, {oldsz:#x}, ..) of a range that is not entirely mapped by the allocator"));
            return EFAULT;
        }
        if newsz == oldsz {
            return old as i64;
        }
        if newsz < oldsz {
            self.remove_range(old + newsz, oldsz - newsz);
            self.events.push(Ev::ShrinkRemap);
            return old as i64;
        }
        let grow = newsz - oldsz;
        if self.in_arena(old + oldsz, grow) && !self.intersects(old + oldsz, grow) && self.hw_map(old + oldsz, grow) {
            self.insert_region(old + oldsz, grow);
            self.events.push(Ev::GrowRemapInPlace);
            return old as i64;
        }
        if flags & 1 == 0 {
            self.events.push(Ev::Refused(CallKind::Mremap));
            return ENOMEM;
        }
        let pol = self.default_policy;
        let Some(addr) = self.choose(newsz, pol) else {
            self.arena_exhausted = true;
            self.events.push(Ev::Refused(CallKind::Mremap));
            return ENOMEM;
        };
        if !self.hw_map(addr, newsz) {
            self.arena_exhausted = true;
            self.events.push(Ev::Refused(CallKind::Mremap));
            return ENOMEM;
        }
        self.insert_region(addr, newsz);
        unsafe {
            std::ptr::copy_nonoverlapping(old as *const u8, addr as *mut u8, oldsz);
        }
        self.remove_range(old, oldsz);
        self.events.push(Ev::GrowRemapMoved);
        addr as i64
    }
}

impl Plan for Kernel {
    fn decide(&mut self, _idx: usize, nr: i64, args: &[u64; 6]) -> Decision {
        if nr == libc::SYS_mmap {
            Decision::Force(self.do_mmap(args))
        } else if nr == libc::SYS_munmap {
            Decision::Force(self.do_munmap(args))
        } else if nr == libc::SYS_mremap {
            Decision::Force(self.do_mremap(args))
        } else {
            self.anomalies.push(format!("unexpected system call {} ({nr}) from the allocator", sysx::name(nr)));
            Decision::Pass
        }
    }
}
