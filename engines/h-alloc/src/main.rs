//! C03 (allocator safety, OOM) and C04 (memory held from the OS is bounded): the real
//! `Dlmalloc` as a local object; its mmap/mremap/munmap are answered by a model kernel
//! through the sysx seam (controlled placement inside a reserved arena, returned memory
//! becomes inaccessible).  Exhaustive enumeration of bounded histories; no sampling.

mod exec;
mod kernel;
mod lasso;
mod phases;

use common::*;

fn main() {
    let args = parse_args();
    install_panic_hook();
    if let Some(p) = &args.replay {
        let v = read_replay(p);
        let mut r = Report::new();
        replay(&v, &mut r, args.thorough);
        for v in r.violations.values() {
            println!("VIOLATED {}: {}", v.key, v.desc);
        }
        println!("{}", serde_json::to_string_pretty(&r.to_json()).unwrap());
        std::process::exit(if r.violations.is_empty() { 0 } else { 1 });
    }
    let phase = args.phase.clone().unwrap_or_else(|| "hist".into());
    let t0 = now();
    let mut r = match phase.as_str() {
        "hist" => phases::hist(&args),
        "boundary" => phases::boundary(&args),
        "placement" => phases::placement(&args),
        "oom" => phases::oom(&args),
        "lasso" => lasso::lasso(&args),
        _ => panic!("unknown phase {phase}"),
    };
    r.note(format!("phase {phase} wall time {:.1} s", t0.elapsed().as_secs_f64()));
    r.write(&args.out);
}

/// Re-execute one stored case in a forked child (so that a fault is reported, not fatal to the replayer).
fn replay(v: &serde_json::Value, r: &mut Report, thorough: bool) {
    let v = v.clone();
    let is_lasso = v["phase"].as_str() == Some("lasso");
    let items = vec![isolated("replay", move || {
        let mut r = Report::new();
        if v["phase"].as_str() == Some("lasso") {
            let wl = lasso::Workload::from_json(&v);
            println!("replaying lasso workload {}", wl.to_json());
            let mut w = exec::World::new(0);
            // H_ALLOC_BRUTE=1: no skipping of countdown-only repetitions
            let lim = lasso::limits(thorough, std::env::var("H_ALLOC_BRUTE").is_err());
            if let Some(res) = lasso::run_workload(&mut w, &wl, lim, &mut r, true) {
                println!(
                    "repetitions executed {} (+{} skipped) stop {} states {} recurrence {:?} max footprint {} final {} bound {} peak live {}",
                    res.rounds,
                    res.skipped,
                    res.stop,
                    res.states,
                    res.recurrence,
                    res.max_footprint,
                    res.final_footprint,
                    wl.bound(),
                    wl.peak_live()
                );
                lasso::judge(&wl, &res, &mut r);
            }
        } else {
            let c = exec::Case::from_json(&v);
            println!("replaying {}", c.to_json());
            // dense patterns in both tiers unless the case is huge: a replay is a single case
            let mut w = exec::World::new(phases::dense_limit(true));
            let info = exec::run_case(&mut w, &c, &mut r, true);
            println!("completed={} mmaps={} modelled calls={:?} peak footprint={}", info.completed, info.mmaps, info.kinds, info.peak_footprint);
        }
        r
    })];
    let out = format!("/tmp/h-alloc-replay-{}", std::process::id());
    let rr = run_isolated(items, &out, if is_lasso { "C04" } else { "C03" });
    r.merge(rr);
}
