fn main() { unimplemented!() }
