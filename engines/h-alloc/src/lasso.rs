//! C04: lasso search.  The allocator over the model kernel with a fixed placement policy is a
//! deterministic transition system whose whole state (the `Dlmalloc` object + every mapped byte +
//! the mapping table) is visible.  A workload's round "allocate all, free all" is iterated until
//! the state recurs; from then on the footprint sequence is periodic, hence bounded for every N.

use crate::exec::*;
use crate::kernel::*;
use common::*;
use serde_json::{json, Value};
use std::collections::{HashMap, HashSet};
use tiny_std::allocator::dlmalloc::Dlmalloc;

pub const MAX_RELEASE_CHECK_RATE: usize = 4095; // dlmalloc.rs: const MAX_RELEASE_CHECK_RATE

#[derive(Clone, Copy, PartialEq, Eq, Debug, Hash)]
pub enum FreeOrder {
    Fifo,
    Lifo,
    /// allocate i, then free i-1: at most two blocks live
    Interleaved,
}
impl FreeOrder {
    pub fn name(self) -> &'static str {
        match self {
            FreeOrder::Fifo => "fifo",
            FreeOrder::Lifo => "lifo",
            FreeOrder::Interleaved => "interleaved",
        }
    }
    pub fn parse(s: &str) -> FreeOrder {
        match s {
            "lifo" => FreeOrder::Lifo,
            "interleaved" => FreeOrder::Interleaved,
            _ => FreeOrder::Fifo,
        }
    }
}

#[derive(Clone, Debug)]
pub struct Workload {
    pub items: Vec<(usize, usize)>,
    pub order: FreeOrder,
    pub policy: Policy,
}

impl Workload {
    pub fn to_json(&self) -> Value {
        json!({"phase":"lasso","op":"lasso","workload": self.items.iter().map(|(s,a)| json!([s,a])).collect::<Vec<_>>(),
               "free_order": self.order.name(), "policy": self.policy.letter().to_string()})
    }
    pub fn from_json(v: &Value) -> Workload {
        Workload {
            items: v["workload"]
                .as_array()
                .map(|a| a.iter().map(|x| (x[0].as_u64().unwrap_or(1) as usize, x[1].as_u64().unwrap_or(8) as usize)).collect())
                .unwrap_or_default(),
            order: FreeOrder::parse(v["free_order"].as_str().unwrap_or("fifo")),
            policy: v["policy"].as_str().and_then(|s| s.chars().next()).and_then(Policy::from_letter).unwrap_or(Policy::TopDown),
        }
    }
    pub fn peak_live(&self) -> usize {
        match self.order {
            FreeOrder::Fifo | FreeOrder::Lifo => self.items.iter().map(|x| x.0).sum(),
            FreeOrder::Interleaved => {
                let single = self.items.iter().map(|x| x.0).max().unwrap_or(0);
                let pair = self.items.windows(2).map(|w| w[0].0 + w[1].0).max().unwrap_or(0);
                single.max(pair)
            }
        }
    }
    pub fn bound(&self) -> usize {
        let g = GRANULARITY;
        2 * ((self.peak_live() + g - 1) / g * g) + 4 * (1 << 20)
    }
}

#[inline]
fn mix(h: u64, w: u64) -> u64 {
    (h.rotate_left(5) ^ w).wrapping_mul(0x517c_c1b7_2722_0a95)
}

/// How a 64-bit word of allocator state enters the fingerprint.  A word that is an address inside
/// currently mapped memory (end inclusive) is taken relative to the anchor; an address in the arena
/// that is NOT mapped (a stale pointer: empty-bin heads, `least_addr` after its segment was released)
/// is abstracted to the gap of the mapping table it falls in - dereferencing it would fault (and be
/// reported), the only other use is an order comparison with mapped addresses, which the gap index
/// preserves.  Everything else is taken verbatim.
struct Norm<'a> {
    lo: u64,
    len: u64,
    anchor: u64,
    regions: &'a [(usize, usize)],
}
impl Norm<'_> {
    #[inline]
    fn w(&self, x: u64) -> u64 {
        if x.wrapping_sub(self.lo) < self.len {
            let mut gap = 0u64;
            for &(a, b) in self.regions {
                if (a as u64) <= x && x <= b as u64 {
                    return x.wrapping_sub(self.anchor);
                }
                if (b as u64) < x {
                    gap += 1;
                }
            }
            0xdead_0000_0000_0000 | gap
        } else {
            x
        }
    }
}

fn hash_words(mut h: u64, p: *const u8, len: usize, n: &Norm) -> u64 {
    let words = len / 8;
    let q = p as *const u64;
    for i in 0..words {
        h = mix(h, n.w(unsafe { q.add(i).read_unaligned() }));
    }
    for i in words * 8..len {
        h = mix(h, unsafe { *p.add(i) } as u64);
    }
    h
}

/// One round.  Err(msg) = allocator panicked; Ok(None) = an allocation returned null.
fn round(w: &mut World, wl: &Workload) -> Result<Option<Vec<usize>>, String> {
    let a: *mut Dlmalloc = &mut *w.a;
    let k = &mut w.k;
    let items = &wl.items;
    let order = wl.order;
    catch(|| {
        sysx::run(k, || unsafe {
            let n = items.len();
            let mut ptrs = vec![0usize; n];
            match order {
                FreeOrder::Fifo | FreeOrder::Lifo => {
                    for i in 0..n {
                        ptrs[i] = (*a).malloc(items[i].0, items[i].1) as usize;
                        if ptrs[i] == 0 {
                            return None;
                        }
                    }
                    for j in 0..n {
                        let i = if order == FreeOrder::Fifo { j } else { n - 1 - j };
                        (*a).free(ptrs[i] as *mut u8);
                    }
                }
                FreeOrder::Interleaved => {
                    for i in 0..n {
                        ptrs[i] = (*a).malloc(items[i].0, items[i].1) as usize;
                        if ptrs[i] == 0 {
                            return None;
                        }
                        if i > 0 {
                            (*a).free(ptrs[i - 1] as *mut u8);
                        }
                    }
                    (*a).free(ptrs[n - 1] as *mut u8);
                }
            }
            Some(ptrs)
        })
        .0
    })
}

pub struct LassoResult {
    pub rounds: usize,
    pub states: usize,
    /// (first round, second round) of the recurring state
    pub recurrence: Option<(usize, usize)>,
    pub max_footprint: usize,
    pub final_footprint: usize,
    pub footprints: Vec<usize>,
    pub crawled: bool,
    /// stopped early: the footprint passed four times the allowed bound
    pub runaway: bool,
}

pub fn run_workload(w: &mut World, wl: &Workload, cap: usize, r: &mut Report, verbose: bool) -> Option<LassoResult> {
    w.reset();
    w.k.default_policy = wl.policy;
    let case = wl.to_json();
    set_case(&case.to_string());
    let mut cheap_seen: HashSet<u64> = HashSet::new();
    let mut full_at: HashMap<u64, Vec<(usize, u64)>> = HashMap::new();
    let mut res = LassoResult { rounds: 0, states: 0, recurrence: None, max_footprint: 0, final_footprint: 0, footprints: Vec::new(), crawled: false, runaway: false };
    let mut anchors: Vec<u64> = Vec::new();
    // the full state hash is taken in the first 64 rounds, in the 64 rounds after any round in which the
    // kernel was called (rounds without kernel calls in between differ only in the release_checks
    // countdown), and whenever the cheap fingerprint was seen before
    let mut last_event_round = 0usize;
    for rd in 0..cap {
        w.k.events.clear();
        let before_peak = w.k.peak_footprint;
        w.k.peak_footprint = w.k.footprint;
        let out = round(w, wl);
        let round_peak = w.k.peak_footprint;
        w.k.peak_footprint = before_peak.max(round_peak);
        res.rounds = rd + 1;
        let ptrs = match out {
            Err(msg) => {
                clear_case();
                r.violation("C04:lasso:allocator-assertion", format!("round {rd} of workload {case}: the allocator panicked: {msg}"), case.clone());
                return None;
            }
            Ok(None) => {
                clear_case();
                if w.k.arena_exhausted {
                    r.cap(format!("model arena exhausted in round {rd} of {case}"));
                    r.outcome("arena-exhausted");
                } else {
                    r.violation("C04:lasso:null-without-refusal", format!("round {rd} of workload {case}: an allocation returned null although the kernel refused nothing"), case.clone());
                }
                return None;
            }
            Ok(Some(p)) => p,
        };
        if !w.k.anomalies.is_empty() {
            clear_case();
            r.violation("C04:lasso:foreign-or-invalid-syscall", format!("round {rd} of workload {case}: {}", w.k.anomalies[0]), case.clone());
            return None;
        }
        res.footprints.push(w.k.footprint);
        if w.k.peak_footprint > 4 * wl.bound() {
            // far beyond anything the oracle allows: no point in (and no memory for) iterating further
            res.runaway = true;
            break;
        }
        // fingerprint; addresses relative to a 64 KiB-aligned anchor (exact for policy T whose placement depends on absolute addresses)
        let anchor = if wl.policy == Policy::TopDown || w.k.regions.is_empty() { 0 } else { (w.k.regions[0].0 & !0xffff) as u64 };
        anchors.push(anchor);
        let regions_now = w.k.regions.clone();
        let n = Norm { lo: w.k.base as u64, len: w.k.size as u64, anchor, regions: &regions_now };
        let mut h = mix(0x1234, w.k.footprint as u64);
        h = mix(h, round_peak as u64);
        for &(a, b) in &w.k.regions {
            h = mix(h, (a as u64).wrapping_sub(anchor));
            h = mix(h, (b as u64).wrapping_sub(anchor));
        }
        for &p in &ptrs {
            h = mix(h, (p as u64).wrapping_sub(anchor));
        }
        let sb = w.struct_bytes();
        h = hash_words(h, sb.as_ptr(), sb.len(), &n);
        let cheap = h;
        if verbose && std::env::var("H_ALLOC_DUMP").is_ok() && rd < 6 {
            let q = sb.as_ptr() as *const u64;
            let ws: Vec<String> = (0..sb.len() / 8).map(|i| format!("{:x}", n.w(unsafe { q.add(i).read_unaligned() }))).collect();
            println!("  struct words (normalised, anchor {anchor:x}): {}", ws.join(" "));
        }
        let seen = !cheap_seen.insert(cheap);
        if verbose && (rd < 6 || seen || !w.k.events.is_empty()) {
            println!("  round {rd}: footprint {} (peak in round {round_peak}) regions {:x?} returned {:x?} events {:?} cheap-fp {cheap:016x}{}", w.k.footprint, w.k.regions, ptrs, w.k.events, if seen { " (seen before)" } else { "" });
        }
        if !w.k.events.is_empty() {
            last_event_round = rd;
        }
        if rd < last_event_round + 64 || seen {
            let mut f = cheap;
            for &(a, b) in &w.k.regions {
                f = hash_words(f, a as *const u8, b - a, &n);
            }
            let e = full_at.entry(cheap).or_default();
            if let Some(&(i, _)) = e.iter().find(|x| x.1 == f) {
                res.recurrence = Some((i, rd));
                // same state at a different place: the heap moves through the address space as a whole
                res.crawled = anchors[i] != anchors[rd];
                break;
            }
            e.push((rd, f));
        }
    }
    clear_case();
    res.states = cheap_seen.len();
    res.max_footprint = w.k.peak_footprint;
    res.final_footprint = w.k.footprint;
    Some(res)
}

pub fn judge(wl: &Workload, res: &LassoResult, cap: usize, r: &mut Report) {
    let case = wl.to_json();
    r.states += res.states as u64;
    r.transitions += res.rounds as u64;
    let bound = wl.bound();
    match res.recurrence {
        Some((i, j)) => {
            let p = j - i;
            let cls = if p == 1 {
                "period-1".to_string()
            } else if p <= 8 {
                "period-2..8".to_string()
            } else if p < 1000 {
                "period-9..999".to_string()
            } else {
                "period>=1000(release_checks cycle)".to_string()
            };
            r.outcome(&format!("recurrence:{cls}"));
            r.outcome(if res.crawled { "recurs-translated(heap-crawls-through-address-space)" } else { "recurs-at-same-addresses" });
        }
        None => {
            // growing: the end-of-round footprint keeps making new maxima in the last quarter of the run
            let n = res.footprints.len();
            let q = n / 4;
            let max_before = res.footprints[..n - q].iter().copied().max().unwrap_or(0);
            let max_last = res.footprints[n - q..].iter().copied().max().unwrap_or(0);
            if max_last > max_before || res.runaway {
                r.outcome("no-recurrence:growing");
                r.violation(
                    "C04:lasso:footprint-grows",
                    format!("workload {case}: no state recurrence within {} rounds{} and the footprint after a round is still reaching new maxima ({max_before} -> {max_last} bytes, peak {}); peak live bytes {}",
                        res.rounds, if res.runaway { " (stopped: footprint passed 4 x the allowed bound)" } else { "" }, res.max_footprint, wl.peak_live()),
                    case.clone(),
                );
            } else {
                r.outcome("no-recurrence:bounded-so-far");
                r.cap(format!("no state recurrence within {cap} rounds for {case} (footprint bounded so far: max {})", res.max_footprint));
            }
        }
    }
    if res.max_footprint > bound {
        r.violation(
            "C04:lasso:footprint-exceeds-bound",
            format!(
                "workload {case}: footprint reached {} bytes (after the last round {}), allowed 2 x peak live bytes ({}, rounded up to 64 KiB) + 4 MiB = {bound}",
                res.max_footprint,
                res.final_footprint,
                wl.peak_live()
            ),
            case,
        );
    }
}

pub fn alphabet(th: bool) -> Vec<(usize, usize)> {
    if th {
        vec![(24, 8), (1000, 64), (5000, 4096), (70_000, 8), (300_000, 64), (3 << 20, 8), (20 << 20, 4096)]
    } else {
        vec![(24, 8), (1000, 64), (70_000, 8), (300_000, 8), (3 << 20, 8), (5 << 20, 4096)]
    }
}

pub fn workloads(th: bool) -> Vec<Workload> {
    let al = alphabet(th);
    let maxn = if th { 4 } else { 3 };
    let mut v = Vec::new();
    // every sequence of length 1..=maxn = every multiset in every allocation order
    for_each_seq(al.len(), maxn, |idx| {
        if idx.is_empty() {
            return;
        }
        for order in [FreeOrder::Fifo, FreeOrder::Lifo, FreeOrder::Interleaved] {
            if idx.len() == 1 && order != FreeOrder::Fifo {
                continue; // identical to fifo
            }
            for p in ALL_POLICIES {
                v.push(Workload { items: idx.iter().map(|&i| al[i]).collect(), order, policy: p });
            }
        }
    });
    v
}

pub fn round_cap(th: bool) -> usize {
    // the layout may go through several release_checks periods (4095 large frees each, i.e. up to 4095
    // rounds) before it settles into its cycle, and a cycle is recognised on its second traversal
    if th {
        16 * (MAX_RELEASE_CHECK_RATE + 1)
    } else {
        6 * (MAX_RELEASE_CHECK_RATE + 1)
    }
}

pub fn lasso(args: &Args) -> Report {
    let th = args.thorough;
    let cap = round_cap(th);
    let nsh = 64usize;
    let mut items = Vec::new();
    let total = workloads(th).len();
    for sh in 0..nsh {
        items.push(isolated(format!("lasso-{sh}"), move || {
            let mut r = Report::new();
            let mut w = World::new(0);
            for (i, wl) in workloads(th).into_iter().enumerate() {
                if i % nsh != sh {
                    continue;
                }
                r.eval();
                r.nontrivial_unique();
                if let Some(res) = run_workload(&mut w, &wl, cap, &mut r, false) {
                    judge(&wl, &res, cap, &mut r);
                    if i % 997 == 0 {
                        let mut s = wl.to_json();
                        s["recurrence"] = json!(res.recurrence.map(|(i, j)| vec![i, j]));
                        s["max_footprint"] = json!(res.max_footprint);
                        s["bound"] = json!(wl.bound());
                        r.sample(s);
                    }
                }
            }
            r
        }));
    }
    let mut r = run_isolated(items, &args.out, "C04");
    r.rule = format!(
        "every workload = (sequence of 1..={} (size,align) items from {:?} [= every multiset in every allocation order], free order fifo/lifo/interleaved(free-as-you-go), \
         one of the 5 placement policies T/B/A/D/U): {total} workloads, each generated once. The round 'allocate all, free all' is iterated on the real allocator over the model kernel \
         until the full state (footprint, mapping table, addresses returned, the bytes of the Dlmalloc object, every mapped byte; addresses taken relative to a 64 KiB-aligned anchor \
         for the translation-invariant policies) equals the state after an earlier round, or {cap} rounds (release_checks period {MAX_RELEASE_CHECK_RATE} large frees). \
         states = distinct state fingerprints, transitions = rounds.",
        if th { 4 } else { 3 },
        alphabet(th)
    );
    r.bound("max_items", if th { 4 } else { 3 });
    r.bound("round_cap", cap);
    r.bound("release_check_period", MAX_RELEASE_CHECK_RATE);
    r.bound("footprint_bound", "2 x peak live bytes (rounded up to 64 KiB) + 4 MiB");
    r
}
