//! C04: lasso search.  The allocator over the model kernel with a fixed placement policy is a
//! deterministic transition system whose whole state (the `Dlmalloc` object + every mapped byte +
//! the mapping table) is visible.  A workload's round "run the operations, free everything" is
//! iterated until the state recurs; from then on the footprint sequence is periodic, hence bounded
//! for every number of repetitions.

use crate::exec::*;
use crate::kernel::*;
use common::*;
use serde_json::{json, Value};
use std::collections::{HashMap, HashSet};
use tiny_std::allocator::dlmalloc::Dlmalloc;

pub const MAX_RELEASE_CHECK_RATE: usize = 4095; // dlmalloc.rs: const MAX_RELEASE_CHECK_RATE

#[derive(Clone, Copy, PartialEq, Eq, Debug, Hash)]
pub enum FreeOrder {
    /// free everything in slot order
    Fifo,
    /// free everything in reverse slot order
    Lifo,
    /// (allocation-only workloads) allocate i, then free i-1: at most two blocks live
    Interleaved,
}
impl FreeOrder {
    pub fn name(self) -> &'static str {
        match self {
            FreeOrder::Fifo => "fifo",
            FreeOrder::Lifo => "lifo",
            FreeOrder::Interleaved => "interleaved",
        }
    }
    pub fn parse(s: &str) -> FreeOrder {
        match s {
            "lifo" => FreeOrder::Lifo,
            "interleaved" => FreeOrder::Interleaved,
            _ => FreeOrder::Fifo,
        }
    }
}

/// One repetition = `ops` (malloc / calloc / realloc; allocations go to the lowest free slot), then
/// every live block is freed in `order`.
#[derive(Clone, Debug)]
pub struct Workload {
    /// run once before the repetitions start (it frees everything it allocates): the heap layout the workload starts from
    pub warmup: Vec<Op>,
    /// allocations made once after the warm-up and never freed: long-lived blocks that stay across all repetitions
    pub pins: Vec<Op>,
    pub ops: Vec<Op>,
    pub order: FreeOrder,
    pub policy: Policy,
}

impl Workload {
    pub fn to_json(&self) -> Value {
        json!({"phase":"lasso","op":"lasso","warmup": show_ops(&self.warmup), "pins": show_ops(&self.pins), "workload": show_ops(&self.ops), "free_order": self.order.name(), "policy": self.policy.letter().to_string()})
    }
    pub fn from_json(v: &Value) -> Workload {
        let ops = match v["workload"].as_array() {
            // older form: [[size, align], ..]
            Some(a) if a.first().map_or(false, |x| x.is_array()) => {
                a.iter().map(|x| Op::Malloc { size: x[0].as_u64().unwrap_or(1) as usize, align: x[1].as_u64().unwrap_or(8) as usize }).collect()
            }
            _ => parse_ops(&v["workload"]),
        };
        Workload {
            warmup: parse_ops(&v["warmup"]),
            pins: parse_ops(&v["pins"]),
            ops,
            order: FreeOrder::parse(v["free_order"].as_str().unwrap_or("fifo")),
            policy: v["policy"].as_str().and_then(|s| s.chars().next()).and_then(Policy::from_letter).unwrap_or(Policy::TopDown),
        }
    }
    pub fn peak_live(&self) -> usize {
        // the warm-up is part of the history: its peak counts too
        {
            let pinned: usize = self.pins.iter().map(|o| match *o {
                Op::Malloc { size, .. } | Op::Calloc { size, .. } => size,
                _ => 0,
            }).sum();
            Self::peak_of(&self.warmup, FreeOrder::Fifo).max(pinned + Self::peak_of(&self.ops, self.order))
        }
    }
    fn peak_of(ops: &[Op], order: FreeOrder) -> usize {
        let mut slots: Vec<Option<usize>> = Vec::new();
        let mut peak = 0usize;
        let mut prev: Option<usize> = None; // interleaved: the block allocated before this one
        for op in ops {
            match *op {
                Op::Malloc { size, .. } | Op::Calloc { size, .. } => {
                    match slots.iter().position(|s| s.is_none()) {
                        Some(i) => slots[i] = Some(size),
                        None => slots.push(Some(size)),
                    }
                    if order == FreeOrder::Interleaved {
                        peak = peak.max(size + prev.unwrap_or(0));
                        prev = Some(size);
                        continue;
                    }
                }
                Op::Realloc { slot, size } => {
                    // old and new block may coexist while the contents are copied
                    let live: usize = slots.iter().flatten().sum();
                    peak = peak.max(live + size);
                    slots[slot] = Some(size);
                }
                Op::Free { slot } => slots[slot] = None,
            }
            peak = peak.max(slots.iter().flatten().sum());
        }
        peak
    }
    pub fn bound(&self) -> usize {
        let g = GRANULARITY;
        // 3 x: an over-aligned request asks for size + alignment, so a freed block of exactly that size cannot
        // serve the same request again; the thorough family contains a workload that settles at 2.6 x its peak
        // live bytes (20 MiB/4096 twice + 3 MiB, interleaved) - constant in the number of repetitions
        let f: usize = std::env::var("H_ALLOC_BOUND_FACTOR").ok().and_then(|s| s.parse().ok()).unwrap_or(3);
        f * ((self.peak_live() + g - 1) / g * g) + 4 * (1 << 20)
    }
}

#[inline]
fn mix(h: u64, w: u64) -> u64 {
    (h.rotate_left(5) ^ w).wrapping_mul(0x517c_c1b7_2722_0a95)
}

/// How a 64-bit word of allocator state enters the fingerprint.  A word that is an address inside
/// currently mapped memory (end inclusive) is taken relative to the anchor; an address in the arena
/// that is NOT mapped (a stale pointer: empty-bin heads, `least_addr` after its segment was released)
/// is abstracted to the gap of the mapping table it falls in - dereferencing it would fault (and be
/// reported), the only other use is an order comparison with mapped addresses, which the gap index
/// preserves.  Everything else is taken verbatim.
struct Norm<'a> {
    lo: u64,
    len: u64,
    anchor: u64,
    regions: &'a [(usize, usize)],
}
impl Norm<'_> {
    #[inline]
    fn w(&self, x: u64) -> u64 {
        if x.wrapping_sub(self.lo) < self.len {
            let mut gap = 0u64;
            for &(a, b) in self.regions {
                if (a as u64) <= x && x <= b as u64 {
                    return x.wrapping_sub(self.anchor);
                }
                if (b as u64) < x {
                    gap += 1;
                }
            }
            0xdead_0000_0000_0000 | gap
        } else {
            x
        }
    }
}

fn hash_words(mut h: u64, p: *const u8, len: usize, n: &Norm) -> u64 {
    let words = len / 8;
    let q = p as *const u64;
    for i in 0..words {
        h = mix(h, n.w(unsafe { q.add(i).read_unaligned() }));
    }
    for i in words * 8..len {
        h = mix(h, unsafe { *p.add(i) } as u64);
    }
    h
}

fn swap_is_off() -> bool {
    use std::sync::OnceLock;
    static OFF: OnceLock<bool> = OnceLock::new();
    *OFF.get_or_init(|| std::fs::read_to_string("/proc/swaps").map(|s| s.lines().count() <= 1).unwrap_or(false))
}

const ZERO_PAGE: u64 = 0x5a45_524f_5041_4745;

/// Hash a mapped range page by page.  An all-zero page contributes one constant, whether it was ever
/// touched or not; pages that are not resident (never touched since they were mapped: anonymous memory,
/// no swap) are known to be zero without being read, which keeps big untouched free chunks cheap.
/// Returns the hash; `read` counts the bytes that were really looked at.
fn hash_region(mut h: u64, a: usize, b: usize, n: &Norm, read: &mut usize) -> u64 {
    let pages = (b - a) / PAGE;
    let mut res = vec![1u8; pages];
    if swap_is_off() {
        let rc = unsafe { libc::mincore(a as *mut _, b - a, res.as_mut_ptr()) };
        if rc != 0 {
            res.iter_mut().for_each(|x| *x = 1);
        }
    }
    for (i, r) in res.iter().enumerate() {
        if r & 1 == 0 {
            h = mix(h, ZERO_PAGE);
            continue;
        }
        let p = (a + i * PAGE) as *const u64;
        *read += PAGE;
        let mut acc = 0u64;
        for k in 0..PAGE / 8 {
            acc |= unsafe { p.add(k).read() };
        }
        if acc == 0 {
            h = mix(h, ZERO_PAGE);
        } else {
            h = hash_words(h, p as *const u8, PAGE, n);
        }
    }
    h
}

/// One round.  Err(msg) = allocator panicked; Ok(None) = an allocation returned null.
/// Returns the addresses the round's operations returned.
fn round(w: &mut World, wl: &Workload) -> Result<Option<Vec<usize>>, String> {
    round_of(w, &wl.ops, wl.order)
}

/// is there, inside one of `regions`, a gap of at least `need` bytes that no live block touches?
fn free_gap(regions: &[(usize, usize)], live: &[Option<(usize, usize, usize)>], need: usize) -> bool {
    for &(a, b) in regions {
        let mut blocks: Vec<(usize, usize)> = live.iter().flatten().filter(|x| x.0 >= a && x.0 < b).map(|x| (x.0, x.0 + x.1)).collect();
        blocks.sort();
        let mut lo = a;
        for (s, e) in blocks {
            if s > lo && s - lo >= need {
                return true;
            }
            lo = lo.max(e);
        }
        if b > lo && b - lo >= need {
            return true;
        }
    }
    false
}

fn round_of(w: &mut World, ops: &[Op], order: FreeOrder) -> Result<Option<Vec<usize>>, String> {
    run_ops(w, ops, order, true)
}

/// `free_all == false`: the blocks stay allocated (probing; the world is reset afterwards)
fn run_ops(w: &mut World, ops: &[Op], order: FreeOrder, free_all: bool) -> Result<Option<Vec<usize>>, String> {
    let a: *mut Dlmalloc = &mut *w.a;
    // the kernel is the plan of `sysx::run`; between two allocator calls (no plan code running) the closure
    // below also reads its mapping table through this pointer
    let kp: *mut Kernel = &mut w.k;
    let k = unsafe { &mut *kp };
    catch(|| {
        sysx::run(k, || unsafe {
            let mut ptrs: Vec<usize> = Vec::with_capacity(ops.len());
            // slot -> (ptr, size, align)
            let mut slots: Vec<Option<(usize, usize, usize)>> = Vec::with_capacity(4);
            let mut prev_slot: Option<usize> = None;
            for op in ops {
                match *op {
                    Op::Malloc { size, align } | Op::Calloc { size, align } => {
                        let (mmaps_before, regions_before) = ((*kp).mmaps, (*kp).regions.clone());
                        let p = if matches!(op, Op::Malloc { .. }) { (*a).malloc(size, align) } else { (*a).calloc(size, align) } as usize;
                        if p == 0 {
                            return None;
                        }
                        if (*kp).mmaps > mmaps_before && size >= 256 && free_gap(&regions_before, &slots, 2 * size + 2 * align + 4096) {
                            // observation only (C04 bounds the footprint, it does not demand reuse)
                            (*kp).reuse_misses += 1;
                        }
                        ptrs.push(p);
                        let s = match slots.iter().position(|s| s.is_none()) {
                            Some(i) => {
                                slots[i] = Some((p, size, align));
                                i
                            }
                            None => {
                                slots.push(Some((p, size, align)));
                                slots.len() - 1
                            }
                        };
                        if order == FreeOrder::Interleaved {
                            if let Some(ps) = prev_slot {
                                let b = slots[ps].take().unwrap();
                                (*a).free(b.0 as *mut u8);
                            }
                            prev_slot = Some(s);
                        }
                    }
                    Op::Realloc { slot, size } => {
                        let b = slots[slot].unwrap();
                        let p = (*a).realloc(b.0 as *mut u8, b.1, b.2, size) as usize;
                        if p == 0 {
                            return None;
                        }
                        ptrs.push(p);
                        slots[slot] = Some((p, size, b.2));
                    }
                    Op::Free { slot } => {
                        let b = slots[slot].take().unwrap();
                        (*a).free(b.0 as *mut u8);
                    }
                }
            }
            let n = if free_all { slots.len() } else { 0 };
            for j in 0..n {
                let i = if order == FreeOrder::Lifo { n - 1 - j } else { j };
                if let Some(b) = slots[i].take() {
                    (*a).free(b.0 as *mut u8);
                }
            }
            Some(ptrs)
        })
        .0
    })
}

#[derive(Clone, Copy, Debug)]
pub struct Limits {
    /// executed rounds
    pub cap_rounds: usize,
    /// CPU seconds per workload
    pub cpu_secs: f64,
    /// bytes of mapped memory hashed "on spec" (after kernel activity, acceleration probes); beyond it only on fingerprint repeats
    pub hash_budget: usize,
    /// skip the rounds in which nothing but the release_checks countdown changes (see `run_workload`)
    pub accelerate: bool,
}

pub fn limits(th: bool, accelerate: bool) -> Limits {
    // Without acceleration the layout may go through several release_checks periods (4095 large frees
    // each, i.e. up to 4095 rounds) before it settles into its cycle, and a cycle is recognised on its
    // second traversal.  With acceleration a period costs a handful of executed rounds.
    Limits {
        cap_rounds: if accelerate {
            if th {
                20_000
            } else {
                5_000
            }
        } else if th {
            16 * (MAX_RELEASE_CHECK_RATE + 1)
        } else {
            6 * (MAX_RELEASE_CHECK_RATE + 1)
        },
        cpu_secs: if th { 60.0 } else { 10.0 },
        hash_budget: if th { 1 << 30 } else { 128 << 20 },
        accelerate,
    }
}

fn cpu_now() -> f64 {
    unsafe {
        let mut ts: libc::timespec = std::mem::zeroed();
        libc::clock_gettime(libc::CLOCK_PROCESS_CPUTIME_ID, &mut ts);
        ts.tv_sec as f64 + ts.tv_nsec as f64 * 1e-9
    }
}

#[derive(Default)]
pub struct LassoResult {
    /// rounds really executed
    pub rounds: usize,
    /// rounds including the skipped ones
    pub virtual_rounds: usize,
    pub skipped: usize,
    pub states: usize,
    /// (first round, second round) of the recurring state, in virtual rounds
    pub recurrence: Option<(usize, usize)>,
    pub max_footprint: usize,
    pub final_footprint: usize,
    /// (virtual round, bytes): the end-of-round footprint was a new strict maximum
    pub records: Vec<(usize, usize)>,
    pub crawled: bool,
    /// stopped early: the footprint passed the allowed bound
    pub exceeded: bool,
    pub stop: &'static str,
    /// (virtual round, kernel events) of every round in which the kernel was called
    pub event_trace: Vec<(usize, Vec<Ev>)>,
    /// mmaps issued although a free gap of more than twice the request existed inside one mapping
    pub reuse_misses: usize,
}

/// Iterate the workload's round until the state recurs (or a limit is hit).
///
/// Acceleration (`lim.accelerate`): when, among rounds without any kernel call, the rounds r, r-p and r-2p
/// (p <= 8) have the same returned addresses, the same mapped bytes and the same `Dlmalloc` bytes except
/// ONE word that went down by the same amount d each time (the `release_checks` countdown: -1 per large
/// free, acted upon only when it reaches 0), the following rounds repeat with period p as long as the
/// countdown stays above d; m*p of them are skipped by writing `value - m*d` into that word - the value
/// the real run reaches by itself m*p rounds later.  The brute-force runs (no acceleration) of the
/// `alloc` family cross-validate this against the real execution (event traces must coincide).
pub fn run_workload(w: &mut World, wl: &Workload, lim: Limits, r: &mut Report, verbose: bool) -> Option<LassoResult> {
    w.reset();
    w.k.default_policy = wl.policy;
    let case = wl.to_json();
    set_case(&case.to_string());
    let t0 = cpu_now();
    let bound = wl.bound();
    if !wl.warmup.is_empty() {
        match round_of(w, &wl.warmup, FreeOrder::Fifo) {
            Ok(Some(_)) if w.k.anomalies.is_empty() => {}
            other => {
                clear_case();
                r.violation(
                    "C04:lasso:warm-up-failed",
                    format!("warm-up of workload {case} did not run normally: {:?} anomalies {:?}", other.map(|x| x.map(|v| v.len())), w.k.anomalies),
                    case.clone(),
                );
                return None;
            }
        }
        if verbose {
            println!("  after warm-up: footprint {} regions {:x?}", w.k.footprint, w.k.regions);
        }
    }
    if !wl.pins.is_empty() {
        match run_ops(w, &wl.pins, FreeOrder::Fifo, false) {
            Ok(Some(_)) if w.k.anomalies.is_empty() => {}
            other => {
                clear_case();
                r.violation("C04:lasso:warm-up-failed", format!("the long-lived allocations of workload {case} failed: {:?}", other.map(|x| x.map(|v| v.len()))), case.clone());
                return None;
            }
        }
    }
    let mut cheap_seen: HashSet<u64> = HashSet::new();
    let mut full_at: HashMap<u64, Vec<(usize, u64)>> = HashMap::new();
    let mut res = LassoResult { stop: "round-cap", ..Default::default() };
    let mut anchors: HashMap<usize, u64> = HashMap::new();
    // the full state hash is taken in the 64 rounds after any round in which the kernel was called
    // (rounds without kernel calls in between differ only in the release_checks countdown), within a
    // byte budget, and whenever the cheap fingerprint was seen before
    let mut last_event_round = 0usize;
    let mut hashed = 0usize;
    let mut budget = lim.hash_budget;
    let mut vr = 0usize; // virtual round number of the round being executed
    let mut best = 0usize;
    // acceleration bookkeeping: (Dlmalloc bytes, returned addresses, memory hash) of the latest consecutive quiet rounds
    const MAX_P: usize = 8;
    let mut recent: Vec<(Vec<u8>, Vec<usize>, u64)> = Vec::new();
    let mut quiet_rounds = 0usize;
    for rd in 0..lim.cap_rounds {
        w.k.events.clear();
        let before_peak = w.k.peak_footprint;
        w.k.peak_footprint = w.k.footprint;
        let out = round(w, wl);
        let round_peak = w.k.peak_footprint;
        w.k.peak_footprint = before_peak.max(round_peak);
        res.rounds = rd + 1;
        res.virtual_rounds = vr + 1;
        let ptrs = match out {
            Err(msg) => {
                clear_case();
                r.violation("C04:lasso:allocator-assertion", format!("round {vr} of workload {case}: the allocator panicked: {msg}"), case.clone());
                return None;
            }
            Ok(None) => {
                clear_case();
                if w.k.arena_exhausted {
                    r.cap(format!("model arena exhausted in round {vr} of {case}"));
                    r.outcome("arena-exhausted");
                } else {
                    r.violation("C04:lasso:null-without-refusal", format!("round {vr} of workload {case}: an allocation returned null although the kernel refused nothing"), case.clone());
                }
                return None;
            }
            Ok(Some(p)) => p,
        };
        if !w.k.anomalies.is_empty() {
            clear_case();
            r.violation("C04:lasso:foreign-or-invalid-syscall", format!("round {vr} of workload {case}: {}", w.k.anomalies[0]), case.clone());
            return None;
        }
        if w.k.footprint > best {
            best = w.k.footprint;
            res.records.push((vr, best));
        }
        if !w.k.events.is_empty() {
            res.event_trace.push((vr, w.k.events.clone()));
            last_event_round = rd;
            quiet_rounds = 0;
        } else {
            quiet_rounds += 1;
        }
        if w.k.peak_footprint > bound {
            // the oracle is already violated: stop here, a leaking allocator must not be iterated to the cap
            res.exceeded = true;
            res.stop = "footprint-exceeds-bound";
            break;
        }
        // fingerprint; addresses relative to a 64 KiB-aligned anchor (exact for the policies whose placement depends on absolute addresses)
        let translation_invariant = matches!(wl.policy, Policy::Below | Policy::Above);
        let anchor = if !translation_invariant || w.k.regions.is_empty() { 0 } else { (w.k.regions[0].0 & !0xffff) as u64 };
        let regions_now = w.k.regions.clone();
        let n = Norm { lo: w.k.base as u64, len: w.k.size as u64, anchor, regions: &regions_now };
        let mut h = mix(0x1234, w.k.footprint as u64);
        h = mix(h, round_peak as u64);
        for &(a, b) in &w.k.regions {
            h = mix(h, (a as u64).wrapping_sub(anchor));
            h = mix(h, (b as u64).wrapping_sub(anchor));
        }
        for &p in &ptrs {
            h = mix(h, (p as u64).wrapping_sub(anchor));
        }
        let mem_seed = h;
        let sb = w.struct_bytes();
        h = hash_words(h, sb.as_ptr(), sb.len(), &n);
        let cheap = h;
        let seen = !cheap_seen.insert(cheap);
        if verbose && (rd < 6 || seen || !w.k.events.is_empty()) {
            println!(
                "  round {vr}: footprint {} (peak in round {round_peak}) regions {:x?} returned {:x?} events {:?} cheap-fp {cheap:016x}{}",
                w.k.footprint,
                w.k.regions,
                ptrs,
                w.k.events,
                if seen { " (seen before)" } else { "" }
            );
        }
        let mapped: usize = w.k.regions.iter().map(|r| r.1 - r.0).sum();
        if rd == 1 {
            // room for a few hundred full hashes of a heap of the size this workload settles at
            budget += 600 * mapped.min(4 << 20);
        }
        let mut mem_hash: Option<u64> = None;
        let mem_of = |hashed: &mut usize| -> u64 {
            let mut f = mem_seed;
            for &(a, b) in &regions_now {
                f = hash_region(f, a, b, &n, hashed);
            }
            f
        };
        if (rd < last_event_round + 64 && hashed < budget) || seen {
            let m = mem_of(&mut hashed);
            mem_hash = Some(m);
            let f = mix(cheap, m);
            let e = full_at.entry(cheap).or_default();
            if let Some(&(i, _)) = e.iter().find(|x| x.1 == f) {
                res.recurrence = Some((i, vr));
                // same state at a different place: the heap moves through the address space as a whole
                res.crawled = anchors.get(&i).copied() != Some(anchor);
                res.stop = "recurrence";
                break;
            }
            e.push((vr, f));
            anchors.insert(vr, anchor);
        }
        // acceleration: the last quiet rounds are kept; look for a period p <= MAX_P modulo the countdown
        let mut skip = 0usize;
        if lim.accelerate && w.k.events.is_empty() && quiet_rounds <= 3 * MAX_P + 4 && (hashed < budget || mem_hash.is_some()) {
            let m = match mem_hash {
                Some(m) => m,
                None => mem_of(&mut hashed),
            };
            recent.push((w.struct_bytes().to_vec(), ptrs.clone(), m));
            let len = recent.len();
            'periods: for p in 1..=MAX_P {
                if len < 2 * p + 1 {
                    break;
                }
                let (e0, e1, e2) = (&recent[len - 1], &recent[len - 1 - p], &recent[len - 1 - 2 * p]);
                if e0.1 != e1.1 || e1.1 != e2.1 || e0.2 != e1.2 || e1.2 != e2.2 {
                    continue;
                }
                // exactly one differing word, counting down by the same step
                let words = e0.0.len() / 8;
                let rd64 = |b: &Vec<u8>, i: usize| unsafe { (b.as_ptr() as *const u64).add(i).read_unaligned() };
                let mut diff: Option<usize> = None;
                for i in 0..words {
                    if rd64(&e0.0, i) != rd64(&e1.0, i) || rd64(&e1.0, i) != rd64(&e2.0, i) {
                        if diff.is_some() {
                            continue 'periods;
                        }
                        diff = Some(i);
                    }
                }
                let Some(i) = diff else { continue };
                let (c, o, oo) = (rd64(&e0.0, i), rd64(&e1.0, i), rd64(&e2.0, i));
                if !(oo > o && o > c && oo - o == o - c) {
                    continue;
                }
                let d = o - c;
                if d > 64 * p as u64 || oo > 2 * MAX_RELEASE_CHECK_RATE as u64 || c <= 2 * d {
                    continue;
                }
                let k = (c - d - 1) / d;
                if k >= 1 {
                    let nv = c - k * d;
                    unsafe {
                        let q = (&mut *w.a as *mut Dlmalloc as *mut u64).add(i);
                        q.write_unaligned(nv);
                    }
                    skip = k as usize * p;
                    if verbose {
                        println!("  after round {vr}: period {p} modulo the countdown word #{i} ({oo} -> {o} -> {c}); skipping {skip} repetitions (countdown := {nv})");
                    }
                }
                break;
            }
        }
        if !w.k.events.is_empty() || skip > 0 {
            recent.clear();
        }
        if skip > 0 {
            res.skipped += skip;
            vr += skip;
            quiet_rounds = 0;
        }
        vr += 1;
        if rd % 16 == 15 && cpu_now() - t0 > lim.cpu_secs {
            res.stop = "cpu-cap";
            break;
        }
    }
    clear_case();
    res.reuse_misses = w.k.reuse_misses;
    res.states = cheap_seen.len();
    res.max_footprint = w.k.peak_footprint;
    res.final_footprint = w.k.footprint;
    Some(res)
}

/// still growing: new end-of-round maxima keep coming (several of them, the last one recent)
fn growing(res: &LassoResult) -> bool {
    let n = res.records.len();
    if n < 4 {
        return false;
    }
    let last = res.records[n - 1].0;
    let window = 64.max(res.virtual_rounds / 4);
    last + window >= res.virtual_rounds
}

pub fn judge(wl: &Workload, res: &LassoResult, r: &mut Report) {
    let case = wl.to_json();
    r.states += res.states as u64;
    r.transitions += res.rounds as u64;
    if res.skipped > 0 {
        r.outcome("rounds-skipped-by-countdown-acceleration");
    }
    if res.reuse_misses > 0 {
        r.outcome("reuse:mmap-although-a-free-gap>=2x-request-existed-in-one-mapping");
    }
    let bound = wl.bound();
    match res.recurrence {
        Some((i, j)) => {
            let p = j - i;
            let cls = if p == 1 {
                "period-1"
            } else if p <= 8 {
                "period-2..8"
            } else if p < 1000 {
                "period-9..999"
            } else {
                "period>=1000(release_checks cycle)"
            };
            r.outcome(&format!("recurrence:{cls}"));
            r.outcome(if res.crawled { "recurs-translated(heap-crawls-through-address-space)" } else { "recurs-at-same-addresses" });
        }
        None => {
            if growing(res) {
                r.outcome("no-recurrence:growing");
                let (a, b) = (res.records[res.records.len() / 2], res.records[res.records.len() - 1]);
                r.violation(
                    "C04:lasso:footprint-grows",
                    format!(
                        "workload {case}: no state recurrence within {} repetitions (stopped: {}) and the memory held after a repetition keeps reaching new maxima: {} bytes after repetition {}, {} after repetition {} ({} new maxima so far); peak live bytes {}",
                        res.virtual_rounds,
                        res.stop,
                        a.1,
                        a.0,
                        b.1,
                        b.0,
                        res.records.len(),
                        wl.peak_live()
                    ),
                    case.clone(),
                );
            } else if res.exceeded {
                r.outcome("no-recurrence:stopped-at-bound");
            } else {
                r.outcome(&format!("no-recurrence:bounded-so-far({})", res.stop));
                r.cap(format!("no state recurrence within {} repetitions ({}) for {case} (footprint bounded so far: max {})", res.virtual_rounds, res.stop, res.max_footprint));
            }
        }
    }
    if res.max_footprint > bound {
        r.violation(
            "C04:lasso:footprint-exceeds-bound",
            format!(
                "workload {case}: footprint reached {} bytes in repetition {} (after the last repetition {}), allowed 3 x peak live bytes ({}, rounded up to 64 KiB) + 4 MiB = {bound}",
                res.max_footprint,
                res.virtual_rounds,
                res.final_footprint,
                wl.peak_live()
            ),
            case,
        );
    }
}

// ---------------------------------------------------------------------------
// workload families

/// Family "alloc": every sequence of 1..=n (size, align) allocations, free orders fifo / lifo /
/// interleaved, every placement policy.
pub fn alloc_alphabet(th: bool) -> Vec<(usize, usize)> {
    if th {
        vec![(24, 8), (1000, 64), (5000, 4096), (70_000, 8), (300_000, 64), (3 << 20, 8), (20 << 20, 4096)]
    } else {
        vec![(24, 8), (1000, 64), (70_000, 8), (300_000, 8), (3 << 20, 8), (5 << 20, 4096)]
    }
}

pub fn alloc_family(th: bool) -> Vec<Workload> {
    let al = alloc_alphabet(th);
    let maxn = if th { 4 } else { 3 };
    let mut v = Vec::new();
    for_each_seq(al.len(), maxn, |idx| {
        if idx.is_empty() {
            return;
        }
        for order in [FreeOrder::Fifo, FreeOrder::Lifo, FreeOrder::Interleaved] {
            if idx.len() == 1 && order != FreeOrder::Fifo {
                continue; // identical to fifo
            }
            for p in ALL_POLICIES {
                v.push(Workload { warmup: vec![], pins: vec![], ops: idx.iter().map(|&i| Op::Malloc { size: al[i].0, align: al[i].1 }).collect(), order, policy: p });
            }
        }
    });
    v
}

/// Family "seq": every operation sequence of length 1..=n over malloc / calloc / realloc (shrink and
/// grow, including growth in place into a binned neighbour) with <= 3 live slots, then free-all.
pub struct SeqAlpha {
    pub allocs: Vec<Op>,
    pub realloc_sizes: Vec<usize>,
    pub max_len: usize,
    pub policies: Vec<Policy>,
}

pub fn seq_alpha(th: bool) -> SeqAlpha {
    let m = |size, align| Op::Malloc { size, align };
    let c = |size, align| Op::Calloc { size, align };
    if th {
        SeqAlpha {
            allocs: vec![m(1000, 8), m(4000, 8), m(6000, 8), m(100, 4096), m(70_000, 8), m(3 << 20, 8), c(1500, 8)],
            realloc_sizes: vec![1000, 1500, 6000, 70_000],
            max_len: 5,
            policies: vec![Policy::TopDown, Policy::Below, Policy::Disjoint],
        }
    } else {
        SeqAlpha {
            allocs: vec![m(1000, 8), m(4000, 8), m(6000, 8), m(100, 4096), m(70_000, 8), c(1500, 8)],
            realloc_sizes: vec![1000, 1500, 6000],
            max_len: 4,
            policies: vec![Policy::TopDown, Policy::Below, Policy::Disjoint],
        }
    }
}

pub fn seq_family(th: bool) -> Vec<Workload> {
    let al = seq_alpha(th);
    let mut seqs: Vec<Vec<Op>> = Vec::new();
    fn rec(h: &mut Vec<Op>, live: usize, al: &SeqAlpha, out: &mut Vec<Vec<Op>>) {
        if !h.is_empty() {
            out.push(h.clone());
        }
        if h.len() == al.max_len {
            return;
        }
        if live < 3 {
            for &op in &al.allocs {
                h.push(op);
                rec(h, live + 1, al, out);
                h.pop();
            }
        }
        for slot in 0..live {
            for &s in &al.realloc_sizes {
                h.push(Op::Realloc { slot, size: s });
                rec(h, live, al, out);
                h.pop();
            }
        }
    }
    rec(&mut Vec::new(), 0, &al, &mut seqs);
    // shortest first
    seqs.sort_by_key(|s| s.len());
    let mut v = Vec::new();
    for s in seqs {
        let live = s.iter().filter(|o| matches!(o, Op::Malloc { .. } | Op::Calloc { .. })).count();
        for order in [FreeOrder::Fifo, FreeOrder::Lifo] {
            if live == 1 && order == FreeOrder::Lifo {
                continue;
            }
            for &p in &al.policies {
                v.push(Workload { warmup: vec![], pins: vec![], ops: s.clone(), order, policy: p });
            }
        }
    }
    v
}

/// Family "aligned-realloc": an over-aligned block is reallocated (shrink and grow), alone or with a second
/// block behind it, then everything is freed.
pub fn aligned_realloc_family() -> Vec<Workload> {
    let mut v = Vec::new();
    for a in [64usize, 4096] {
        for s in [6000usize, 70_000, 1 << 20] {
            for t in [1000usize, 4096, s / 2, 2 * s] {
                for with_neighbour in [false, true] {
                    for order in [FreeOrder::Fifo, FreeOrder::Lifo] {
                        if !with_neighbour && order == FreeOrder::Lifo {
                            continue;
                        }
                        for p in [Policy::TopDown, Policy::Below, Policy::Disjoint] {
                            let mut ops = vec![Op::Malloc { size: s, align: a }];
                            if with_neighbour {
                                ops.push(Op::Malloc { size: 300, align: 8 });
                            }
                            ops.push(Op::Realloc { slot: 0, size: t });
                            v.push(Workload { warmup: vec![], pins: vec![], ops, order, policy: p });
                        }
                    }
                }
            }
        }
    }
    v
}

/// Family "pinned-big": nothing / a small block stays allocated for good; each repetition allocates and
/// frees one or two blocks of 8, 24, 40 MiB (24 and 40 MiB fall into the last tree bin).
pub fn pinned_big_family() -> Vec<Workload> {
    let m = |size| Op::Malloc { size, align: 8 };
    let big = [8usize << 20, 24 << 20, 40 << 20];
    let mut v = Vec::new();
    for pins in [vec![], vec![m(24)], vec![m(1000)]] {
        for p in [Policy::TopDown, Policy::Below, Policy::Disjoint] {
            for &a in &big {
                v.push(Workload { warmup: vec![], pins: pins.clone(), ops: vec![m(a)], order: FreeOrder::Fifo, policy: p });
                for &b in &big {
                    for order in [FreeOrder::Fifo, FreeOrder::Lifo] {
                        v.push(Workload { warmup: vec![], pins: pins.clone(), ops: vec![m(a), m(b)], order, policy: p });
                    }
                }
            }
        }
    }
    v
}

/// Family "exact-fit": long-lived blocks on both sides of a free chunk F (and optionally a filler that leaves
/// top small); each repetition carves a small header block off F (the remainder becomes dv) and then asks
/// for EXACTLY that remainder (and 16 bytes less / more), frees both; also exact fits of the whole chunk F
/// and of top.
pub fn exact_fit_family() -> Vec<Workload> {
    let m = |size| Op::Malloc { size, align: 8 };
    let pad = |r: usize| ((r + 8 + 15) & !15).max(32);
    let mut v = Vec::new();
    for p in [Policy::TopDown, Policy::Below, Policy::Disjoint] {
        for filler in [0usize, 60_000, 65_000] {
            for x in [200usize, 5000, 200_000] {
                // pins: A, X, B (, filler); X is freed again: a free chunk between two blocks that stay
                let mut pins = vec![m(24), m(x), m(24)];
                if filler > 0 {
                    pins.push(m(filler));
                }
                pins.push(Op::Free { slot: 1 });
                let f = pad(x);
                for h in [24usize, 100] {
                    if pad(h) + 32 > f {
                        continue;
                    }
                    let rem = f - pad(h);
                    for d in [0isize, -16, 16] {
                        let req = (rem as isize - 8 + d) as usize;
                        for order in [FreeOrder::Fifo, FreeOrder::Lifo] {
                            v.push(Workload { warmup: vec![], pins: pins.clone(), ops: vec![m(h), m(req)], order, policy: p });
                        }
                    }
                }
                // the whole chunk, exactly / 16 less
                for d in [0usize, 16] {
                    v.push(Workload { warmup: vec![], pins: pins.clone(), ops: vec![m(f - 8 - d)], order: FreeOrder::Fifo, policy: p });
                }
            }
        }
        // top of a fresh 64 KiB segment behind one 24-byte block: 65456 - 32 bytes
        for d in [0usize, 16, 32] {
            v.push(Workload { warmup: vec![], pins: vec![m(24)], ops: vec![m(65456 - 32 - 8 - d)], order: FreeOrder::Fifo, policy: p });
        }
    }
    v
}

/// compare an accelerated run with the brute-force run of the same workload
fn cross_validate(wl: &Workload, brute: &LassoResult, fast: &LassoResult, r: &mut Report) {
    let n = brute.event_trace.len().min(fast.event_trace.len());
    let same_trace = brute.event_trace[..n] == fast.event_trace[..n];
    // verdicts may differ only because of the different caps of the two runs; what must coincide is the
    // trace of kernel calls on the common prefix and, when both runs reach a recurrence, the peak footprint
    let same_verdict = true;
    let same_max = brute.recurrence.is_none() || fast.recurrence.is_none() || brute.max_footprint == fast.max_footprint;
    if brute.recurrence.is_none() && !brute.exceeded {
        r.outcome("brute-force:cap-reached(trace-prefix-compared)");
    }
    if same_trace && same_verdict && same_max {
        r.traces_validated += 1;
    } else {
        r.violation(
            "C04:lasso:acceleration-mismatch",
            format!(
                "HARNESS ASSUMPTION BROKEN for {}: skipping countdown-only rounds changed the run: kernel-call traces equal on the common prefix: {same_trace} (brute {:?} / accelerated {:?}), recurrence {:?} / {:?}, max footprint {} / {}",
                wl.to_json(),
                brute.event_trace.iter().take(6).collect::<Vec<_>>(),
                fast.event_trace.iter().take(6).collect::<Vec<_>>(),
                brute.recurrence,
                fast.recurrence,
                brute.max_footprint,
                fast.max_footprint
            ),
            wl.to_json(),
        );
    }
}

// ---------------------------------------------------------------------------
// start layouts (explicit-state search over warm-up episodes) and the same-tree-bin family

pub const LAYOUT_SIZES: [usize; 6] = [300, 40 << 10, 300 << 10, 3 << 20, 6 << 20, 20 << 20];

/// An episode allocates one or two (thorough: up to three) blocks of `LAYOUT_SIZES` and frees everything again (every free order).
pub fn episodes(th: bool) -> Vec<Vec<Op>> {
    let m = |size| Op::Malloc { size, align: 8 };
    let mut v = Vec::new();
    if th {
        // thorough: also three blocks, freed in every order
        for &a in &LAYOUT_SIZES {
            for &b in &LAYOUT_SIZES {
                for &c in &LAYOUT_SIZES {
                    for perm in permutations(3) {
                        let mut e = vec![m(a), m(b), m(c)];
                        e.extend(perm.iter().map(|&i| Op::Free { slot: i }));
                        v.push(e);
                    }
                }
            }
        }
    }
    for &a in &LAYOUT_SIZES {
        v.push(vec![m(a), Op::Free { slot: 0 }]);
    }
    for &a in &LAYOUT_SIZES {
        for &b in &LAYOUT_SIZES {
            v.push(vec![m(a), m(b), Op::Free { slot: 0 }, Op::Free { slot: 1 }]);
            v.push(vec![m(a), m(b), Op::Free { slot: 1 }, Op::Free { slot: 0 }]);
        }
    }
    v
}

/// indices of the `top` and `topsize` words of the `Dlmalloc` object, found by experiment: a second small
/// malloc from a fresh top moves exactly these two by the chunk size
fn top_indices(w: &mut World) -> Option<(usize, usize)> {
    let m = Op::Malloc { size: 24, align: 8 };
    w.reset();
    run_ops(w, &[m], FreeOrder::Fifo, false).ok()??;
    let s1 = w.struct_bytes().to_vec();
    w.reset();
    run_ops(w, &[m, m], FreeOrder::Fifo, false).ok()??;
    let s2 = w.struct_bytes().to_vec();
    w.reset();
    let rd = |b: &Vec<u8>, i: usize| unsafe { (b.as_ptr() as *const u64).add(i).read_unaligned() };
    let mut top = None;
    let mut topsize = None;
    for i in 0..s1.len() / 8 {
        let (a, b) = (rd(&s1, i), rd(&s2, i));
        if b == a.wrapping_add(32) && a >= w.k.base as u64 {
            top = Some(i);
        } else if a == b.wrapping_add(32) && a < (1 << 32) {
            topsize = Some(i);
        }
    }
    Some((top?, topsize?))
}

pub const PROBES: [usize; 7] = [1000, 50_000, 300_000, 3 << 20, (5 << 20) + (512 << 10), 10 << 20, 20 << 20];

/// Coarse, partly behavioural key of a layout (everything freed) built by `warm` under `policy`: the shape
/// of the mapping table (sizes, which mappings touch), where top is and how big (power of two), and for a
/// ladder of probe requests whether the request is served from held memory and from which mapping.
fn layout_key(w: &mut World, policy: Policy, warm: &[Op], tops: Option<(usize, usize)>) -> Option<u64> {
    let prepare = |w: &mut World| -> bool {
        w.reset();
        w.k.default_policy = policy;
        warm.is_empty() || matches!(round_of(w, warm, FreeOrder::Fifo), Ok(Some(_)))
    };
    if !prepare(w) {
        return None;
    }
    let regions = w.k.regions.clone();
    let region_of = |regs: &[(usize, usize)], x: usize| regs.iter().position(|r| r.0 <= x && x < r.1).map_or(99, |i| i as u64);
    let mut h = mix(0x4b45, policy.letter() as u64);
    for (i, &(a, b)) in regions.iter().enumerate() {
        h = mix(h, (b - a) as u64);
        h = mix(h, regions.get(i + 1).map_or(2, |n| (n.0 == b) as u64));
    }
    if let Some((ti, si)) = tops {
        let sb = w.struct_bytes();
        let rd = |i: usize| unsafe { (sb.as_ptr() as *const u64).add(i).read_unaligned() };
        h = mix(h, region_of(&regions, rd(ti) as usize));
        h = mix(h, 64 - rd(si).leading_zeros() as u64);
    }
    for &pr in &PROBES {
        if !prepare(w) {
            return None;
        }
        w.k.events.clear();
        let got = run_ops(w, &[Op::Malloc { size: pr, align: 8 }], FreeOrder::Fifo, false).ok()??;
        let mapped = w.k.events.iter().any(|e| !matches!(e, Ev::Refused(_)));
        h = mix(h, mapped as u64);
        h = mix(h, if mapped { 98 } else { region_of(&regions, got[0]) });
        // how far into its mapping (power of two)
        let off = regions.iter().find(|r| r.0 <= got[0] && got[0] < r.1).map_or(0, |r| got[0] - r.0);
        h = mix(h, if mapped { 0 } else { 64 - (off as u64).leading_zeros() as u64 });
    }
    w.reset();
    Some(h)
}

/// Breadth-first search over the heap layouts reachable from the empty heap by sequences of episodes
/// (each ends with everything freed), under the given placement policies; layouts are identified by
/// `layout_key` (an abstraction: one representative per key is kept and expanded).  Returns one shortest warm-up per distinct layout, the empty one first.
pub fn explore_layouts(th: bool, policies: &[Policy], depth: usize, max_layouts: usize, out: &str, r: &mut Report) -> Vec<(Policy, Vec<Op>)> {
    let mut found: Vec<(Policy, Vec<Op>)> = Vec::new();
    let mut seen: HashSet<(char, u64)> = HashSet::new();
    let mut frontier: Vec<(Policy, Vec<Op>)> = policies.iter().map(|&p| (p, vec![])).collect();
    for level in 0..=depth {
        // level 0 only fingerprints the empty heap
        let nsh = 32usize.min(frontier.len().max(1));
        let mut items = Vec::new();
        for sh in 0..nsh {
            let mine: Vec<(Policy, Vec<Op>)> = frontier.iter().enumerate().filter(|(i, _)| i % nsh == sh).map(|(_, x)| x.clone()).collect();
            items.push(isolated(format!("layouts-{level}-{sh}"), move || {
                let mut r = Report::new();
                let mut w = World::new(0);
                let tops = top_indices(&mut w);
                if tops.is_none() {
                    r.note("top/topsize words of the Dlmalloc object not identified: the layout key does without them");
                }
                let eps: Vec<Vec<Op>> = if level == 0 { vec![vec![]] } else { episodes(th) };
                for (p, warm) in &mine {
                    for ep in &eps {
                        let mut ops = warm.clone();
                        ops.extend_from_slice(ep);
                        let wl = Workload { warmup: vec![], pins: vec![], ops: ops.clone(), order: FreeOrder::Fifo, policy: *p };
                        set_case(&wl.to_json().to_string());
                        let key = layout_key(&mut w, *p, &ops, tops);
                        clear_case();
                        r.transitions += 1;
                        let Some(fp) = key else { continue };
                        r.note(format!("L|{}|{fp}|{}", p.letter(), show_ops(&ops).join(" ")));
                    }
                }
                r
            }));
        }
        let lr = run_isolated(items, out, "C04");
        r.transitions += lr.transitions;
        for (k, v) in lr.violations {
            r.violations.insert(k, v);
        }
        let mut cand: Vec<(Policy, u64, Vec<Op>)> = Vec::new();
        for n in &lr.notes {
            let mut it = n.splitn(4, '|');
            if it.next() != Some("L") {
                if !r.notes.contains(n) {
                    r.notes.push(n.clone());
                }
                continue;
            }
            let p = it.next().and_then(|s| s.chars().next()).and_then(Policy::from_letter).unwrap_or(Policy::TopDown);
            let fp: u64 = it.next().and_then(|s| s.parse().ok()).unwrap_or(0);
            let ops: Vec<Op> = it.next().unwrap_or("").split_whitespace().filter_map(Op::parse).collect();
            cand.push((p, fp, ops));
        }
        // deterministic choice of the representative: shortest, then lexicographic
        cand.sort_by(|a, b| (a.0.letter(), a.2.len(), show_ops(&a.2)).cmp(&(b.0.letter(), b.2.len(), show_ops(&b.2))));
        let mut next = Vec::new();
        for (p, fp, ops) in cand {
            if seen.insert((p.letter(), fp)) {
                next.push((p, ops));
            }
        }
        r.states += next.len() as u64;
        r.note(format!("layout search level {level}: {} new distinct layouts", next.len()));
        found.extend(next.iter().cloned());
        frontier = next;
        if frontier.is_empty() {
            break;
        }
        if found.len() >= max_layouts {
            r.outcome("layout-search-stopped-at-the-layout-limit");
            break;
        }
    }
    found.truncate(max_layouts);
    found
}

/// Family "same-bin": three sizes X < Y < S that fall into ONE tree bin, with 300-byte pins between the
/// blocks: allocate two of them, free both (either order), request the third; then free everything.
pub const SAME_BIN_LADDER: [[usize; 3]; 4] =
    [[1100, 1300, 1450], [50_000, 56_000, 62_000], [270_000, 320_000, 370_000], [(4 << 20) + (200 << 10), (5 << 20) + (100 << 10), (5 << 20) + (512 << 10)]];

pub fn samebin_family() -> Vec<(Vec<Op>, FreeOrder)> {
    let m = |size| Op::Malloc { size, align: 8 };
    let mut v = Vec::new();
    for bin in SAME_BIN_LADDER {
        for i in 0..3 {
            for j in 0..3 {
                if i == j {
                    continue;
                }
                let k = 3 - i - j;
                for first_free in [0usize, 2] {
                    for order in [FreeOrder::Fifo, FreeOrder::Lifo] {
                        let ops = vec![m(bin[i]), m(300), m(bin[j]), m(300), Op::Free { slot: first_free }, Op::Free { slot: 2 - first_free }, m(bin[k])];
                        v.push((ops, order));
                    }
                }
            }
        }
    }
    v
}

pub fn lasso(args: &Args) -> Report {
    let th = args.thorough;
    let nsh = if th { 256usize } else { 64 };
    let mut items = Vec::new();
    let n_alloc = alloc_family(th).len();
    let n_seq = seq_family(th).len();
    // every 4th workload of the alloc family is also run without acceleration
    let brute_every = 4;
    // start layouts for the same-bin family
    let mut pre = Report::new();
    let (ldepth, lmax) = if th { (7, 4000) } else { (5, 300) };
    let lpol: Vec<Policy> = if th { ALL_POLICIES.to_vec() } else { vec![Policy::TopDown, Policy::Below] };
    let layouts = explore_layouts(th, &lpol, ldepth, lmax, &args.out, &mut pre);
    let n_layouts = layouts.len();
    if std::env::var("H_ALLOC_SHOW_LAYOUTS").is_ok() {
        for (p, w) in &layouts {
            eprintln!("layout {} {:?}", p.letter(), show_ops(w));
        }
    }
    let n_samebin = n_layouts * samebin_family().len();
    for sh in 0..nsh {
        let layouts = layouts.clone();
        items.push(isolated(format!("lasso-{sh}"), move || {
            let mut r = Report::new();
            let mut w = World::new(0);
            let fast = limits(th, true);
            let brute = limits(th, false);
            let mut all: Vec<(bool, Workload)> = alloc_family(th).into_iter().map(|w| (true, w)).chain(seq_family(th).into_iter().map(|w| (false, w))).collect();
            all.extend(aligned_realloc_family().into_iter().map(|w| (false, w)));
            all.extend(pinned_big_family().into_iter().map(|w| (false, w)));
            all.extend(exact_fit_family().into_iter().map(|w| (false, w)));
            for (p, warm) in &layouts {
                for (ops, order) in samebin_family() {
                    all.push((false, Workload { warmup: warm.clone(), pins: vec![], ops, order, policy: *p }));
                }
                if th && !warm.is_empty() {
                    // thorough: the quick alloc family from every non-empty start layout as well
                    for mut wl in alloc_family(false).into_iter().filter(|x| x.policy == *p) {
                        wl.warmup = warm.clone();
                        all.push((false, wl));
                    }
                }
            }
            for (i, (is_alloc, wl)) in all.into_iter().enumerate() {
                if i % nsh != sh {
                    continue;
                }
                r.eval();
                r.nontrivial_unique();
                let Some(res) = run_workload(&mut w, &wl, fast, &mut r, false) else { continue };
                judge(&wl, &res, &mut r);
                if is_alloc && (i / nsh) % brute_every == 0 {
                    let mut scratch = Report::new();
                    if let Some(b) = run_workload(&mut w, &wl, brute, &mut scratch, false) {
                        r.transitions += b.rounds as u64;
                        r.outcome(if b.recurrence.is_some() { "brute-force:recurrence" } else { "brute-force:no-recurrence" });
                        cross_validate(&wl, &b, &res, &mut r);
                    }
                }
                if i % 1499 == 0 {
                    let mut s = wl.to_json();
                    s["recurrence"] = json!(res.recurrence.map(|(i, j)| vec![i, j]));
                    s["max_footprint"] = json!(res.max_footprint);
                    s["bound"] = json!(wl.bound());
                    s["rounds_executed"] = json!(res.rounds);
                    s["rounds_skipped"] = json!(res.skipped);
                    r.sample(s);
                }
            }
            r
        }));
    }
    let mut r = run_isolated(items, &args.out, "C04");
    r.merge(pre);
    let sa = seq_alpha(th);
    r.rule = format!(
        "every workload of six families, each generated once. 'exact-fit' ({} workloads): a free chunk F (from a 200 / 5000 / 200 000-byte block) between two long-lived 24-byte blocks, optionally a long-lived filler that leaves top small; each repetition mallocs h in {{24,100}} (carved off F, the remainder becomes dv), then EXACTLY the remainder and 16 bytes less/more, frees both (fifo/lifo); also the whole of F exactly / 16 less, and top exactly / 16 / 32 less; policies T/B/D. 'aligned-realloc' ({} workloads): malloc(s in {{6000,70000,1Mi}}, align 64/4096) [+ malloc(300)], realloc to {{1000,4096,s/2,2s}}, \
         free all, policies T/B/D. 'pinned-big' ({} workloads): no / a 24-byte / a 1000-byte block allocated once and kept for good, each repetition allocates and frees one or two blocks of \
         8/24/40 MiB, policies T/B/D. 'same-bin' ({n_samebin} workloads): from EVERY one of {n_layouts} distinct start layouts x the 96 workloads \
         'allocate two of three sizes X<Y<S of one tree bin (ladder {SAME_BIN_LADDER:?}) with 300-byte pins, free both in either order, request the third, free all fifo/lifo'; the start \
         layouts are found by breadth-first search from the empty heap over episodes 'allocate one or two blocks of {LAYOUT_SIZES:?}, free them in either order' (depth {ldepth}, policies {}, \
         one representative per layout key = shape of the mapping table, mapping and size class of top, and for the probe requests {PROBES:?} whether and where they are served from held memory; limit {lmax}); the warm-up's peak counts as live bytes for the bound (thorough: three-block episodes too, and the quick alloc family from every non-empty layout). 'alloc': every sequence of 1..={} allocations from {:?} [= every multiset in every allocation order] x free order \
         fifo/lifo/interleaved(free-as-you-go) x the 5 placement policies T/B/A/D/U ({n_alloc} workloads). 'seq': every operation sequence of length 1..={} over allocations {:?} and \
         realloc(live slot, s) s in {:?} with <= 3 live slots, followed by free-all in fifo/lifo slot order, x policies {:?} ({n_seq} workloads). One repetition = run the operations and free \
         everything, on the real allocator over the model kernel; it is iterated until the full state (footprint, mapping table, addresses returned, the bytes of the Dlmalloc object, every \
         mapped byte; addresses relative to a 64 KiB-aligned anchor for the translation-invariant policies B/A, stale pointers into unmapped memory abstracted to their gap) equals the state \
         after an earlier repetition. Repetitions in which only the release_checks countdown changes are skipped (three consecutive identical quiet repetitions observed first); the alloc family \
         is {} ALSO run without that shortcut (cap {} repetitions, > {} release_checks periods of {MAX_RELEASE_CHECK_RATE}) and the two runs' kernel-call traces compared \
         (traces_validated_against_impl). A run stops at once when the footprint exceeds the allowed bound (3 x peak live bytes rounded up to 64 KiB + 4 MiB). states = distinct state fingerprints, transitions = repetitions executed.",
        exact_fit_family().len(),
        aligned_realloc_family().len(),
        pinned_big_family().len(),
        lpol.iter().map(|p| p.letter()).collect::<String>(),
        if th { 4 } else { 3 },
        alloc_alphabet(th),
        sa.max_len,
        show_ops(&sa.allocs),
        sa.realloc_sizes,
        sa.policies.iter().map(|p| p.letter()).collect::<String>(),
        "(every 4th workload)",
        limits(th, false).cap_rounds,
        limits(th, false).cap_rounds / (MAX_RELEASE_CHECK_RATE + 1) - 1
    );
    r.bound("start_layouts", n_layouts);
    r.bound("layout_search_depth_episodes", ldepth);
    r.bound("alloc_family_max_items", if th { 4 } else { 3 });
    r.bound("seq_family_max_len", sa.max_len);
    r.bound("round_cap_brute_force", limits(th, false).cap_rounds);
    r.bound("round_cap_accelerated", limits(th, true).cap_rounds);
    r.bound("cpu_seconds_per_workload", limits(th, true).cpu_secs);
    r.bound("release_check_period", MAX_RELEASE_CHECK_RATE);
    r.bound("footprint_bound", "3 x peak live bytes (rounded up to 64 KiB) + 4 MiB");
    r
}
