//! Part "mkrace" of phase "mkdirall" (also `--phase mkrace`): the environment acts between two calls.
//! For every mkdir/mkdirat call position k of a create_dir_all run, the syscall seam itself creates
//! that very entry (a directory, or a regular file) just before letting call k pass, so the kernel
//! answers EEXIST.  A concurrent creator of the same DIRECTORY must not make create_dir_all fail.

use crate::util::*;
use common::*;
use serde_json::{json, Value};
use std::path::Path;

#[derive(Clone, Debug)]
pub struct RaceCase {
    pub n: usize,
    pub prior_a: bool,
    pub k: usize,
    pub racer_file: bool,
}

impl RaceCase {
    pub fn to_json(&self) -> Value {
        json!({"phase": "mkrace", "op": "create_dir_all", "components": self.n, "prior": if self.prior_a { "dir-a" } else { "nothing" },
               "racer_before_mkdir_call": self.k, "racer_creates": if self.racer_file { "file" } else { "directory" }})
    }
    pub fn from_json(v: &Value) -> Option<RaceCase> {
        Some(RaceCase {
            n: v["components"].as_u64()? as usize,
            prior_a: v["prior"].as_str()? == "dir-a",
            k: v["racer_before_mkdir_call"].as_u64()? as usize,
            racer_file: v["racer_creates"].as_str()? == "file",
        })
    }
}

pub fn cases() -> Vec<RaceCase> {
    let mut out = Vec::new();
    for n in 1..=4 {
        for prior_a in [false, true] {
            for k in 0..n {
                for racer_file in [false, true] {
                    out.push(RaceCase { n, prior_a, k, racer_file });
                }
            }
        }
    }
    out
}

struct Racer {
    k: usize,
    seen: usize,
    file: bool,
    acted: bool,
}

impl sysx::Plan for Racer {
    fn decide(&mut self, _i: usize, nr: i64, a: &[u64; 6]) -> sysx::Decision {
        let (dirfd, path) = if nr == libc::SYS_mkdirat {
            (a[0] as i32, a[1] as *const libc::c_char)
        } else if nr == libc::SYS_mkdir {
            (libc::AT_FDCWD, a[0] as *const libc::c_char)
        } else {
            return sysx::Decision::Pass;
        };
        if self.seen == self.k {
            unsafe {
                if self.file {
                    let fd = libc::openat(dirfd, path, libc::O_CREAT | libc::O_EXCL | libc::O_WRONLY, 0o644);
                    self.acted = fd >= 0;
                    if fd >= 0 {
                        libc::close(fd);
                    }
                } else {
                    self.acted = libc::mkdirat(dirfd, path, 0o755) == 0;
                }
            }
        }
        self.seen += 1;
        sysx::Decision::Pass
    }
}

pub fn run_case(block: &Path, c: &RaceCase, r: &mut Report) {
    r.eval();
    r.nontrivial_unique();
    let case_dir = fresh_case_dir(block);
    let cj = c.to_json();
    if c.prior_a {
        std::fs::create_dir(case_dir.join("a")).unwrap();
    }
    std::env::set_current_dir(&case_dir).expect("chdir");
    let path = ["a", "b", "c", "d"][..c.n].join("/");
    let up = ux(path.as_bytes());
    let mut plan = Racer { k: c.k, seen: 0, file: c.racer_file, acted: false };
    set_case(&cj.to_string());
    let (res, _) = sysx::run(&mut plan, || catch(|| tiny_std::fs::create_dir_all(&up).map_err(|e| format!("{e}"))));
    clear_case();
    let what = format!(
        "create_dir_all({path:?}) [prior: {}] while another creator makes the {} of mkdir call #{} just before it",
        if c.prior_a { "a exists" } else { "nothing" },
        if c.racer_file { "entry a regular FILE" } else { "directory" },
        c.k
    );
    if !plan.acted {
        // no k-th mkdir was issued (the component existed) or the racer could not act
        r.outcome("racer-did-not-act");
    } else {
        let mut all_dirs = true;
        let mut acc = String::new();
        for comp in path.split('/') {
            if !acc.is_empty() {
                acc.push('/');
            }
            acc.push_str(comp);
            all_dirs &= std::fs::symlink_metadata(&acc).map(|m| m.is_dir()).unwrap_or(false);
        }
        match res {
            Err(p) => r.violation("C14:create_dir_all:panic", format!("{what}: panicked: {p}"), cj.clone()),
            Ok(Ok(())) => {
                if all_dirs {
                    r.outcome("race:ok-all-directories");
                } else {
                    r.outcome("race:VIOLATION");
                    r.violation("C14:create_dir_all:ok-but-file-in-the-way", format!("{what}: returned Ok but not every prefix is a directory"), cj.clone());
                }
            }
            Ok(Err(e)) => {
                if c.racer_file {
                    r.outcome("race:err-file-in-the-way");
                } else {
                    r.outcome("race:VIOLATION");
                    r.violation(
                        "C14:create_dir_all:fails-when-a-concurrent-creator-wins",
                        format!("{what}: Err({e}) although the directory exists (the other creator made it)"),
                        cj.clone(),
                    );
                }
            }
        }
    }
    if r.samples.len() < 1 {
        r.sample(cj);
    }
    cleanup(&case_dir);
}

pub fn rule() -> String {
    "[a concurrent creator] create_dir_all on a, a/b, a/b/c, a/b/c/d (relative; nothing or a existing) under the syscall seam: for every position k of its mkdir/mkdirat calls the seam creates that \
     very entry -- a directory, or a regular file -- just before call k reaches the kernel. Racer = directory: create_dir_all must return Ok and every prefix is a directory. Racer = file: Ok with a \
     non-directory prefix is the only violation."
        .to_string()
}

pub fn run_all(args: &Args, master: &Path) -> Report {
    let cs = cases();
    let n = cs.len();
    let sub = master.join("mkrace");
    std::fs::create_dir_all(&sub).expect("dir");
    let mut r = run_blocks(args, &sub, cs, 8, "C14", run_case, 1);
    if r.outcomes.get("race:ok-all-directories").copied().unwrap_or(0) + r.outcomes.get("race:VIOLATION").copied().unwrap_or(0) == 0 {
        r.cap("mkrace: the racer never acted (seam unavailable?)");
    }
    r.bound("concurrent_creator_cases", n);
    r
}

pub fn phase(args: &Args, master: &Path) -> Report {
    let mut r = run_all(args, master);
    r.rule = rule();
    r
}
