//! Parts "dt-unknown" of phases "readdir" and "rmall" (also alone as `--phase dtunknown`): the
//! listing and removal families again on REAL trees, with the real getdents64 answers passed
//! through the syscall seam and every record's d_type rewritten to DT_UNKNOWN -- what ext4 without
//! the filetype feature, FUSE or NFS hand out.  Names: exact, each once.  Types: Unknown is
//! recorded (not judged), any other answer must be the type std's symlink_metadata reports.
//! Removal: whatever is returned, nothing outside the tree changed.

use crate::readdir::{self, RdCase};
use crate::rmall::{self, RmCase};
use crate::util::*;
use common::*;
use std::path::Path;
use std::sync::atomic::Ordering;

fn count_rewritten(block: &Path, r: &mut Report) {
    let _ = block;
    let n = RECORDS_REWRITTEN.swap(0, Ordering::SeqCst);
    if n > 0 {
        r.outcome_n("dt-unknown:records-rewritten", n);
    }
}

fn rd_case(block: &Path, c: &RdCase, r: &mut Report) {
    readdir::run_case(block, c, r);
    count_rewritten(block, r);
}

fn rm_case(block: &Path, c: &RmCase, r: &mut Report) {
    rmall::run_case(block, c, r);
    count_rewritten(block, r);
}

fn vacuity_guard(r: &mut Report, what: &str) {
    if r.outcomes.get("dt-unknown:records-rewritten").copied().unwrap_or(0) == 0 {
        r.cap(format!("{what}: the syscall seam rewrote no directory record (Syscall User Dispatch unavailable?)"));
    }
}

pub fn run_listing(args: &Args, master: &Path) -> Report {
    let sub = master.join("dtu-list");
    std::fs::create_dir_all(&sub).expect("dir");
    let maxk = if args.thorough { 3 } else { 2 };
    let cs: Vec<RdCase> = readdir::cases(args.thorough)
        .into_iter()
        .filter(|c| match c {
            RdCase::Multi(v) => (v & 7) as usize <= maxk,
            RdCase::Fanout(n) => *n <= 100,
            RdCase::Special(_) => true,
        })
        .collect();
    let n = cs.len();
    DT_UNKNOWN_MODE.store(true, Ordering::SeqCst);
    let mut r = run_blocks(args, &sub, cs, 16, "C14", rd_case, 0);
    DT_UNKNOWN_MODE.store(false, Ordering::SeqCst);
    vacuity_guard(&mut r, "dt-unknown listing");
    r.bound("dt_unknown_listing_cases", n);
    r
}

pub fn run_removal(args: &Args, master: &Path) -> Report {
    let sub = master.join("dtu-rm");
    std::fs::create_dir_all(&sub).expect("dir");
    let maxn = if args.thorough { 4 } else { 3 };
    let cs: Vec<RmCase> = rmall::cases(args.thorough)
        .into_iter()
        .filter(|c| match c {
            RmCase::Tree { forest, long_names, .. } => forest.bytes().filter(|b| b.is_ascii_alphabetic()).count() <= maxn && (!*long_names || forest.len() <= 2),
            RmCase::Fan { n, .. } => *n <= 100,
            RmCase::RootIsLink => false,
        })
        .collect();
    let n = cs.len();
    DT_UNKNOWN_MODE.store(true, Ordering::SeqCst);
    let mut r = run_blocks(args, &sub, cs, 16, "C14", rm_case, 0);
    DT_UNKNOWN_MODE.store(false, Ordering::SeqCst);
    vacuity_guard(&mut r, "dt-unknown removal");
    r.bound("dt_unknown_removal_cases", n);
    r
}

pub fn rule_listing(thorough: bool) -> String {
    format!(
        "[directory records without a type] the multisets of <= {} entries, the fan-outs <= 100 and the special names again, the real getdents64 answers passed through the syscall seam with every \
         record's d_type rewritten to DT_UNKNOWN: names exact and each once as before; file_type() = Unknown is recorded and not judged, any other answer must be the type std::fs::symlink_metadata reports.",
        if thorough { 3 } else { 2 }
    )
}

pub fn rule_removal(thorough: bool) -> String {
    format!(
        "[removal when directory records carry no type] the trees with <= {} nodes (all four call variants; 200-byte names for <= 2 nodes) and fan-outs <= 100 again under the same seam: whatever \
         remove_dir_all / remove_all returns, the std::fs listing of everything outside the tree (the directory and the file the links inside point to, the siblings) must be identical; after Ok the tree is gone.",
        if thorough { 4 } else { 3 }
    )
}

pub fn phase(args: &Args, master: &Path) -> Report {
    let mut r = run_listing(args, master);
    r.merge(run_removal(args, master));
    r.rule = format!("{} {}", rule_listing(args.thorough), rule_removal(args.thorough));
    r
}
