//! Phase "seq": explicit-state BFS over operation sequences on colliding paths p, q, p/n,
//! every step compared with a reference tree model (state = std::fs listing of the case dir).

use crate::util::*;
use common::*;
use serde_json::{json, Value};
use std::collections::{HashMap, VecDeque};
use std::path::Path;

#[derive(Clone, Copy, Debug)]
pub enum OpK {
    Write(&'static [u8], &'static [u8]),
    Copy(&'static [u8], &'static [u8]),
    MkAll(&'static [u8]),
    Mkdir(&'static [u8]),
    RmFile(&'static [u8]),
    RmDir(&'static [u8]),
    RmAll(&'static [u8]),
    Rename(&'static [u8], &'static [u8]),
    Read(&'static [u8]),
    Exists(&'static [u8]),
}

/// the first QUICK_OPS entries are the quick alphabet; thorough uses all of them
pub const QUICK_OPS: usize = 16;
pub const OPS: [&str; 22] = [
    "write(p,'x')",
    "write(p,'longer')",
    "write(q,'yy')",
    "write(p/n,'z')",
    "copy_file(p,q)",
    "copy_file(q,p)",
    "create_dir_all(p/n)",
    "create_dir_all(p)",
    "create_dir(p)",
    "remove_file(p)",
    "remove_dir(p)",
    "remove_dir_all(p)",
    "rename(p,q)",
    "rename(q,p)",
    "read(p)",
    "exists(p)",
    "remove_file(q)",
    "remove_dir_all(q)",
    "create_dir(q)",
    "create_dir_all(p/n/)",
    "write(q,'longer')",
    "copy_file(q,p/n)",
];
const OPK: [OpK; 22] = [
    OpK::Write(b"p", b"x"),
    OpK::Write(b"p", b"longer"),
    OpK::Write(b"q", b"yy"),
    OpK::Write(b"p/n", b"z"),
    OpK::Copy(b"p", b"q"),
    OpK::Copy(b"q", b"p"),
    OpK::MkAll(b"p/n"),
    OpK::MkAll(b"p"),
    OpK::Mkdir(b"p"),
    OpK::RmFile(b"p"),
    OpK::RmDir(b"p"),
    OpK::RmAll(b"p"),
    OpK::Rename(b"p", b"q"),
    OpK::Rename(b"q", b"p"),
    OpK::Read(b"p"),
    OpK::Exists(b"p"),
    OpK::RmFile(b"q"),
    OpK::RmAll(b"q"),
    OpK::Mkdir(b"q"),
    OpK::MkAll(b"p/n/"),
    OpK::Write(b"q", b"longer"),
    OpK::Copy(b"q", b"p/n"),
];

fn fn_name(op: usize) -> &'static str {
    OPS[op].split('(').next().unwrap()
}

/// operations that are one system call: a failure leaves the tree as it was
fn atomic_on_failure(op: usize) -> bool {
    matches!(fn_name(op), "create_dir" | "remove_file" | "remove_dir" | "rename" | "read" | "exists")
}

#[derive(Clone, Debug, PartialEq)]
pub enum Ret {
    Unit,
    Data(Vec<u8>),
    Bool(bool),
}

pub enum Real {
    Ok(Ret),
    Err(String),
    Panic(String),
}

fn exec(op: usize) -> Real {
    use tiny_std::fs;
    let res: Result<Result<Ret, String>, String> = catch(|| {
        let e = |e: tiny_std::Error| format!("{e}");
        match OPK[op] {
            OpK::Write(p, d) => fs::write(&ux(p), d).map(|_| Ret::Unit).map_err(e),
            OpK::Copy(a, b) => fs::copy_file(&ux(a), &ux(b)).map(|_| Ret::Unit).map_err(e),
            OpK::MkAll(p) => fs::create_dir_all(&ux(p)).map(|_| Ret::Unit).map_err(e),
            OpK::Mkdir(p) => fs::create_dir(&ux(p)).map(|_| Ret::Unit).map_err(e),
            OpK::RmFile(p) => fs::remove_file(&ux(p)).map(|_| Ret::Unit).map_err(e),
            OpK::RmDir(p) => fs::remove_dir(&ux(p)).map(|_| Ret::Unit).map_err(e),
            OpK::RmAll(p) => fs::remove_dir_all(&ux(p)).map(|_| Ret::Unit).map_err(e),
            OpK::Rename(a, b) => fs::rename(&ux(a), &ux(b)).map(|_| Ret::Unit).map_err(e),
            OpK::Read(p) => fs::read(&ux(p)).map(Ret::Data).map_err(e),
            OpK::Exists(p) => fs::exists(&ux(p)).map(Ret::Bool).map_err(e),
        }
    });
    match res {
        Err(p) => Real::Panic(p),
        Ok(Err(e)) => Real::Err(e),
        Ok(Ok(r)) => Real::Ok(r),
    }
}

// ---------------------------------------------------------------------------
// the boring reference model (Linux semantics on a map path -> node)

fn parent_is_dir(s: &Snap, path: &[u8]) -> bool {
    match path.iter().rposition(|&b| b == b'/') {
        None => true,
        Some(i) => s.get(&path[..i]) == Some(&Node::Dir),
    }
}

fn has_children(s: &Snap, path: &[u8]) -> bool {
    let mut pre = path.to_vec();
    pre.push(b'/');
    s.keys().any(|k| k.starts_with(&pre))
}

fn remove_subtree(s: &mut Snap, path: &[u8]) -> Vec<(Vec<u8>, Node)> {
    let mut pre = path.to_vec();
    pre.push(b'/');
    let keys: Vec<Vec<u8>> = s.keys().filter(|k| k.as_slice() == path || k.starts_with(&pre)).cloned().collect();
    keys.into_iter()
        .map(|k| {
            let n = s.remove(&k).unwrap();
            (k[path.len()..].to_vec(), n)
        })
        .collect()
}

fn m_write(s: &Snap, path: &[u8], data: &[u8]) -> Option<(Snap, Ret)> {
    if !parent_is_dir(s, path) || s.get(path) == Some(&Node::Dir) {
        return None;
    }
    let mut t = s.clone();
    t.insert(path.to_vec(), Node::File(data.to_vec()));
    Some((t, Ret::Unit))
}

fn m_copy(s: &Snap, src: &[u8], dst: &[u8]) -> Option<(Snap, Ret)> {
    match s.get(src) {
        Some(Node::File(c)) => m_write(s, dst, &c.clone()),
        _ => None,
    }
}

fn m_mkall(s: &Snap, path: &[u8]) -> Option<(Snap, Ret)> {
    let mut t = s.clone();
    let mut acc: Vec<u8> = Vec::new();
    for comp in path.split(|&b| b == b'/').filter(|c| !c.is_empty()) {
        if !acc.is_empty() {
            acc.push(b'/');
        }
        acc.extend_from_slice(comp);
        match t.get(&acc) {
            Some(Node::Dir) => {}
            Some(_) => return None,
            None => {
                t.insert(acc.clone(), Node::Dir);
            }
        }
    }
    Some((t, Ret::Unit))
}

fn m_rename(s: &Snap, a: &[u8], b: &[u8]) -> Option<(Snap, Ret)> {
    if !parent_is_dir(s, b) {
        return None;
    }
    match s.get(a)? {
        Node::Dir => match s.get(b) {
            None => {}
            Some(Node::Dir) if !has_children(s, b) => {}
            _ => return None,
        },
        _ => {
            if s.get(b) == Some(&Node::Dir) {
                return None;
            }
        }
    }
    let mut t = s.clone();
    remove_subtree(&mut t, b);
    for (rest, n) in remove_subtree(&mut t, a) {
        let mut k = b.to_vec();
        k.extend_from_slice(&rest);
        t.insert(k, n);
    }
    Some((t, Ret::Unit))
}

/// None = the operation must fail
pub fn model(s: &Snap, op: usize) -> Option<(Snap, Ret)> {
    match OPK[op] {
        OpK::Write(p, d) => m_write(s, p, d),
        OpK::Copy(a, b) => m_copy(s, a, b),
        OpK::MkAll(p) => m_mkall(s, p),
        OpK::Mkdir(p) => {
            if s.contains_key(p) || !parent_is_dir(s, p) {
                None
            } else {
                let mut t = s.clone();
                t.insert(p.to_vec(), Node::Dir);
                Some((t, Ret::Unit))
            }
        }
        OpK::RmFile(p) => match s.get(p) {
            Some(Node::File(_)) => {
                let mut t = s.clone();
                t.remove(p);
                Some((t, Ret::Unit))
            }
            _ => None,
        },
        OpK::RmDir(p) => {
            if s.get(p) == Some(&Node::Dir) && !has_children(s, p) {
                let mut t = s.clone();
                t.remove(p);
                Some((t, Ret::Unit))
            } else {
                None
            }
        }
        OpK::RmAll(p) => {
            if s.get(p) == Some(&Node::Dir) {
                let mut t = s.clone();
                remove_subtree(&mut t, p);
                Some((t, Ret::Unit))
            } else {
                None
            }
        }
        OpK::Rename(a, b) => m_rename(s, a, b),
        OpK::Read(p) => match s.get(p) {
            Some(Node::File(c)) => Some((s.clone(), Ret::Data(c.clone()))),
            _ => None,
        },
        OpK::Exists(p) => Some((s.clone(), Ret::Bool(s.contains_key(p)))),
    }
}

// ---------------------------------------------------------------------------

pub fn case_json(history: &[usize], op: usize) -> Value {
    json!({"phase": "seq", "op": fn_name(op), "step": OPS[op], "history": history.iter().map(|&o| OPS[o]).collect::<Vec<_>>()})
}

pub fn parse_case(v: &Value) -> Option<(Vec<usize>, usize)> {
    let op = OPS.iter().position(|o| Some(*o) == v["step"].as_str())?;
    let mut h = Vec::new();
    for x in v["history"].as_array()? {
        h.push(OPS.iter().position(|o| Some(*o) == x.as_str())?);
    }
    Some((h, op))
}

/// Rebuild the state by re-executing `history` in a fresh directory, apply `op`, judge.
/// Returns (state before, state after) as observed through std::fs.
pub fn step(block: &Path, history: &[usize], op: usize, r: &mut Report) -> (Snap, Snap) {
    r.eval();
    r.nontrivial_unique();
    let case_dir = fresh_case_dir(block);
    std::env::set_current_dir(&case_dir).expect("chdir");
    let cj = case_json(history, op);
    for &h in history {
        let _ = exec(h);
    }
    let before = snapshot(Path::new(""));
    set_case(&cj.to_string());
    let real = exec(op);
    clear_case();
    let after = snapshot(Path::new(""));
    let f = fn_name(op);
    let ctx = format!("in state {} (reached by {:?}), {}", snap_show(&before), history.iter().map(|&o| OPS[o]).collect::<Vec<_>>(), OPS[op]);
    let pred = model(&before, op);
    match real {
        Real::Panic(p) => {
            r.outcome("panic");
            r.violation(&format!("C14:seq:{f}:panic"), format!("{ctx} panicked: {p}"), cj.clone());
        }
        Real::Err(e) => {
            match &pred {
                None => r.outcome("err:as-model"),
                Some(_) => {
                    r.outcome("err:model-succeeds");
                    if r.notes.len() < 8 {
                        r.note(format!("{ctx} = Err({e}) where the model succeeds (accepted)"));
                    }
                }
            }
            if atomic_on_failure(op) && after != before {
                r.violation(
                    &format!("C14:seq:{f}:err-but-changed"),
                    format!("{ctx} = Err({e}) but the tree changed: {}", snap_diff(&before, &after).unwrap_or_default()),
                    cj.clone(),
                );
            }
        }
        Real::Ok(ret) => match pred {
            None => {
                r.outcome("ok:VIOLATION");
                r.violation(
                    &format!("C14:seq:{f}:model-mismatch"),
                    format!("{ctx} returned Ok although the operation cannot succeed in this state; tree afterwards {}", snap_show(&after)),
                    cj.clone(),
                );
            }
            Some((want, wret)) => {
                if after != want {
                    r.outcome("ok:VIOLATION");
                    r.violation(
                        &format!("C14:seq:{f}:model-mismatch"),
                        format!("{ctx} returned Ok; tree afterwards {} but the model predicts {}", snap_show(&after), snap_show(&want)),
                        cj.clone(),
                    );
                } else if ret != wret {
                    r.outcome("ok:VIOLATION");
                    r.violation(
                        &format!("C14:seq:{f}:wrong-result"),
                        format!("{ctx} returned {ret:?}, the model predicts {wret:?}"),
                        cj.clone(),
                    );
                } else if after == before {
                    r.outcome("ok:no-change");
                } else {
                    r.outcome("ok:changed");
                }
            }
        },
    }
    cleanup(&case_dir);
    (before, after)
}

pub fn phase(args: &Args, master: &Path) -> Report {
    let depth = if args.thorough { 32 } else { 12 };
    let nops = if args.thorough { OPS.len() } else { QUICK_OPS };
    let block = master.join("b0");
    let items = vec![isolated("bfs", move || {
        let mut r = Report::new();
        std::fs::create_dir_all(&block).unwrap();
        let mut seen: HashMap<Snap, Vec<usize>> = HashMap::new();
        let mut q: VecDeque<(Snap, Vec<usize>)> = VecDeque::new();
        let init = Snap::new();
        seen.insert(init.clone(), vec![]);
        q.push_back((init, vec![]));
        r.states = 1;
        let mut frontier_cut = 0u64;
        let mut max_depth = 0;
        while let Some((s, hist)) = q.pop_front() {
            max_depth = max_depth.max(hist.len());
            if hist.len() >= depth {
                frontier_cut += 1;
                continue;
            }
            for op in 0..nops {
                let (before, after) = step(&block, &hist, op, &mut r);
                r.transitions += 1;
                if before != s {
                    r.cap(format!("rebuilding a state by re-executing its history gave a different tree ({:?})", hist));
                    continue;
                }
                if !seen.contains_key(&after) {
                    let mut h = hist.clone();
                    h.push(op);
                    seen.insert(after.clone(), h.clone());
                    r.states += 1;
                    if r.samples.len() < 6 && h.len() >= 2 {
                        r.sample(json!({"history": h.iter().map(|&o| OPS[o]).collect::<Vec<_>>(), "state": snap_show(&after)}));
                    }
                    q.push_back((after, h));
                }
            }
        }
        r.bound("max_depth_reached", max_depth);
        r.bound("states_not_expanded_at_depth_bound", frontier_cut);
        if frontier_cut == 0 {
            r.note(format!("fixpoint: every reachable state (by observed listing) was expanded; deepest shortest-history = {max_depth}"));
        }
        cleanup(&block);
        r
    })];
    let mut r = run_isolated(items, &args.out, "C14");
    r.rule = format!(
        "breadth-first search over ALL sequences of <= {depth} operations from the {}-operation alphabet {:?} on the colliding relative paths p, q, p/n (cwd = fresh case directory, forked shard); \
         sequences that lead to the same observed tree are merged (state = std::fs listing: paths, kinds, contents); a state is rebuilt by re-executing its shortest history in a fresh directory \
         and the rebuilt listing is checked against the recorded one; from every state every operation is executed with the real tiny_std::fs function and the resulting listing (and the returned \
         data / bool) is compared with a BTreeMap reference model when the call returned Ok; on Err the tree must be unchanged for the single-syscall operations only.",
        nops,
        &OPS[..nops]
    );
    r.bound("depth", depth);
    r.bound("alphabet", nops);
    // second part of the phase: histories of OpenOptions setter calls
    let r2 = crate::builder::run_all(args, master);
    r.merge(r2);
    r.rule.push_str(" ");
    r.rule.push_str(&crate::builder::rule(args.thorough));
    r
}
