//! Part "rmarg" of phase "rmall" (also alone as `--phase rmarg`): the ARGUMENT of remove_dir_all is
//! not a directory -- a symlink to a directory, to a file, a dangling symlink, a fifo, a socket, a
//! regular file, nothing.  Whatever is returned: nothing outside the named entry changed, the call
//! comes back (watchdog); when it returns Ok the entry is gone.

use crate::readdir::make_outside;
use crate::util::*;
use common::*;
use serde_json::{json, Value};
use std::path::Path;

pub const KINDS: [&str; 8] =
    ["symlink-to-dir", "symlink-to-dir-relative", "dangling-symlink", "symlink-to-file", "fifo", "socket", "regular-file", "missing"];

#[derive(Clone, Debug)]
pub struct RaCase {
    pub kind: usize,
    pub trailing_slash: bool,
}

impl RaCase {
    pub fn to_json(&self) -> Value {
        tag_fs(json!({"phase": "rmarg", "op": "remove_dir_all", "argument": KINDS[self.kind], "trailing_slash": self.trailing_slash}))
    }
    pub fn from_json(v: &Value) -> Option<RaCase> {
        Some(RaCase { kind: KINDS.iter().position(|k| Some(*k) == v["argument"].as_str())?, trailing_slash: v["trailing_slash"].as_bool()? })
    }
}

pub fn cases() -> Vec<RaCase> {
    let mut out = Vec::new();
    for kind in 0..KINDS.len() {
        for trailing_slash in [false, true] {
            out.push(RaCase { kind, trailing_slash });
        }
    }
    out
}

pub const HANG_MS: i32 = 1500;

pub fn run_case(block: &Path, c: &RaCase, r: &mut Report) {
    r.eval();
    r.nontrivial_unique();
    let case_dir = fresh_case_dir(block);
    let cj = c.to_json();
    let o = make_outside(&case_dir);
    std::fs::write(case_dir.join("sibling.txt"), "sibling file").unwrap();
    let root = case_dir.join("root");
    match c.kind {
        0 => symlink(&o.dir, &root),
        1 => symlink(Path::new("out/td"), &root),
        2 => symlink(&o.missing, &root),
        3 => symlink(&o.file, &root),
        4 => mkfifo(&root),
        5 => {
            let l = std::os::unix::net::UnixListener::bind(&root).expect("setup socket");
            drop(l);
        }
        6 => std::fs::write(&root, "a regular file, not a directory").unwrap(),
        _ => {}
    }
    let before = snapshot(&case_dir);
    let mut given = p2b(&root);
    if c.trailing_slash {
        given.push(b'/');
    }
    let up = ux(&given);
    set_case(&cj.to_string());
    let w = watchdog(HANG_MS, || match catch(|| tiny_std::fs::remove_dir_all(&up).map_err(|e| format!("{e}"))) {
        Err(p) => format!("panic: {p}"),
        Ok(Ok(())) => "ok".to_string(),
        Ok(Err(e)) => format!("err: {e}"),
    });
    clear_case();
    let what = format!("remove_dir_all(<{}>{})", KINDS[c.kind], if c.trailing_slash { " + '/'" } else { "" });
    let strip = |mut s: Snap| -> Snap {
        s.remove(&b"root"[..]);
        s
    };
    let after = snapshot(&case_dir);
    let outside = snap_diff(&strip(before.clone()), &strip(after.clone()));
    let res = match w {
        Watched::Hang => {
            r.outcome("hang");
            r.violation(
                "C14:remove_dir_all:hang",
                format!("{what}: did not return within {HANG_MS} ms (the argument is opened without O_NONBLOCK/O_DIRECTORY and the open blocks); the call was killed"),
                cj.clone(),
            );
            "hang".to_string()
        }
        Watched::Died(st) => {
            r.outcome("died");
            r.violation("C14:remove_dir_all:crash", format!("{what}: the process died (wait status {st})"), cj.clone());
            "died".to_string()
        }
        Watched::Done(s) => s,
    };
    if let Some(p) = res.strip_prefix("panic: ") {
        r.outcome("panic");
        r.violation("C14:remove_dir_all:panic", format!("{what}: panicked: {p}"), cj.clone());
    }
    // "link/" names the directory the link leads to (path resolution follows a link before a trailing '/'):
    // emptying it is what was asked for -- std::fs::remove_dir_all and rm -r do the same and then fail on the
    // final rmdir.  Recorded, not judged.
    let names_target = c.trailing_slash && c.kind <= 1;
    if names_target {
        r.outcome(&format!("argument:{}+slash:names-the-target:{}(not-judged)", KINDS[c.kind], if outside.is_some() { "target-emptied" } else { "target-intact" }));
        cleanup(&case_dir);
        return;
    }
    if let Some(d) = &outside {
        let key = if c.kind <= 3 { "C14:remove_dir_all:symlink-argument-target-touched" } else { "C14:remove_dir_all:outside-touched" };
        r.violation(key, format!("{what} returned {res}; outside the named entry {d}"), cj.clone());
    }
    if res == "ok" {
        match std::fs::symlink_metadata(&root) {
            Err(e) if e.kind() == std::io::ErrorKind::NotFound => {}
            _ => r.violation("C14:remove_dir_all:ok-but-exists", format!("{what} returned Ok but the entry is still there"), cj.clone()),
        }
    }
    let class = if res == "ok" {
        "ok"
    } else if res.starts_with("err") {
        "err"
    } else {
        "other"
    };
    r.outcome(&format!("argument:{}:{}{}", KINDS[c.kind], class, if outside.is_some() { "+outside-touched" } else { "" }));
    if r.samples.len() < 1 {
        r.sample(cj);
    }
    cleanup(&case_dir);
}

pub fn rule() -> String {
    format!(
        "[remove_dir_all on a non-directory argument] the path handed to remove_dir_all is each of {:?} x {{plain, with a trailing '/'}}, next to an outside directory tree (the symlink's target), a \
         sibling file; the call runs in a forked child under a {HANG_MS} ms watchdog. Whatever it returns, the recursive std::fs listing of everything except the named entry must be unchanged; it \
         must return; after Ok the entry is gone. (A symlink to a directory followed by '/' names the target directory itself: recorded only.)",
        KINDS
    )
}

pub fn run_all(args: &Args, master: &Path) -> Report {
    let cs = cases();
    let n = cs.len();
    let sub = master.join("rmarg");
    std::fs::create_dir_all(&sub).expect("rmarg dir");
    let mut r = run_blocks(args, &sub, cs, 16, "C14", run_case, 1);
    r.bound("non_directory_argument_cases", n);
    r
}

pub fn phase(args: &Args, master: &Path) -> Report {
    let mut r = run_all(args, master);
    r.rule = rule();
    r
}
