//! Phase "rwcopy": write / read / read_to_string / File::copy / copy_file over sizes x prior destination states.

use crate::util::*;
use common::*;
use serde_json::{json, Value};
use std::path::Path;

pub const OPS: [&str; 4] = ["write", "write-text", "File::copy", "copy_file"];
pub const PRIORS: [&str; 6] = ["absent", "shorter-file", "equal-size-file", "longer-file+1", "longer-file+5000", "directory"];

#[derive(Clone, Debug)]
pub struct RwCase {
    pub op: usize,
    pub size: usize,
    pub prior: usize,
    /// File::copy only: bytes read from the source handle before the copy (0 = fresh handle, usize::MAX = read to EOF)
    pub pre_read: usize,
}

impl RwCase {
    pub fn to_json(&self) -> Value {
        tag_fs(json!({"phase": "rwcopy", "op": OPS[self.op], "size": self.size, "dest_prior": PRIORS[self.prior],
                      "pre_read": if self.pre_read == usize::MAX { -1i64 } else { self.pre_read as i64 }}))
    }
    pub fn from_json(v: &Value) -> Option<RwCase> {
        Some(RwCase {
            op: OPS.iter().position(|o| Some(*o) == v["op"].as_str())?,
            size: v["size"].as_u64()? as usize,
            prior: PRIORS.iter().position(|o| Some(*o) == v["dest_prior"].as_str())?,
            pre_read: match v["pre_read"].as_i64() {
                Some(-1) => usize::MAX,
                Some(n) => n as usize,
                None => 0,
            },
        })
    }
}

pub fn sizes(thorough: bool) -> Vec<usize> {
    let mut s = vec![0usize, 1, 4095, 4096, 4097, 70_000];
    if thorough {
        s.push(1 << 20);
        s.push(3 << 20);
    }
    s
}

pub fn cases(thorough: bool) -> Vec<RwCase> {
    let mut out = Vec::new();
    for size in sizes(thorough) {
        for prior in 0..PRIORS.len() {
            if prior == 1 && size == 0 {
                continue; // nothing is shorter than empty
            }
            for op in 0..OPS.len() {
                out.push(RwCase { op, size, prior, pre_read: 0 });
            }
            // File::copy on a handle that has already been read from: the copy is of the FILE, whatever the handle's position
            if size > 0 {
                for pre_read in [1usize, size / 2, size - 1, usize::MAX] {
                    if pre_read == 0 || (pre_read != usize::MAX && pre_read >= size) {
                        continue;
                    }
                    out.push(RwCase { op: 2, size, prior, pre_read });
                }
            }
        }
    }
    out
}

fn prior_len(size: usize, prior: usize) -> Option<usize> {
    match prior {
        1 => Some(size / 2),
        2 => Some(size),
        3 => Some(size + 1),
        4 => Some(size + 5000),
        _ => None,
    }
}

pub fn run_case(block: &Path, c: &RwCase, r: &mut Report) {
    r.eval();
    r.nontrivial_unique();
    let case_dir = fresh_case_dir(block);
    let cj = c.to_json();
    let opname = OPS[c.op];
    let key_op = match c.op {
        0 | 1 => "write",
        2 => "copy",
        _ => "copy_file",
    };
    let dst = case_dir.join("dst.bin");
    let src = case_dir.join("src.bin");
    let data = if c.op == 1 { text_pattern(c.size) } else { pattern(c.size, 31, 7) };
    // destination prior state
    let old = prior_len(c.size, c.prior).map(|n| pattern(n, 17, 3));
    if let Some(o) = &old {
        std::fs::write(&dst, o).expect("setup dst");
    } else if c.prior == 5 {
        std::fs::create_dir(&dst).expect("setup dst dir");
        std::fs::write(dst.join("inside.txt"), "inside the directory").expect("setup dst dir content");
    }
    if c.op >= 2 {
        std::fs::write(&src, &data).expect("setup src");
    }
    let before = snapshot(&case_dir);
    let udst = ux(&p2b(&dst));
    let usrc = ux(&p2b(&src));
    set_case(&cj.to_string());
    let res: Result<Result<(), String>, String> = match c.op {
        0 | 1 => catch(|| tiny_std::fs::write(&udst, &data).map_err(|e| format!("{e}"))),
        2 => catch(|| {
            let mut f = tiny_std::fs::File::open(&usrc).map_err(|e| format!("open source: {e}"))?;
            if c.pre_read > 0 {
                use tiny_std::io::Read;
                let want = if c.pre_read == usize::MAX { c.size + 16 } else { c.pre_read };
                let mut buf = vec![0u8; want];
                let mut got = 0;
                while got < want {
                    match f.read(&mut buf[got..]) {
                        Ok(0) => break,
                        Ok(n) => got += n,
                        Err(e) => return Err(format!("pre-read of the source: {e}")),
                    }
                }
            }
            f.copy(&udst).map(|_| ()).map_err(|e| format!("{e}"))
        }),
        _ => catch(|| tiny_std::fs::copy_file(&usrc, &udst).map(|_| ()).map_err(|e| format!("{e}"))),
    };
    clear_case();
    let what = format!(
        "{opname} of {} bytes{} onto a destination that was: {}",
        c.size,
        match c.pre_read {
            0 => String::new(),
            usize::MAX => " (source handle read to EOF before)".into(),
            n => format!(" (source handle had {n} bytes read before)"),
        },
        PRIORS[c.prior]
    );
    match res {
        Err(p) => {
            r.outcome("panic");
            r.violation(&format!("C14:{key_op}:panic"), format!("{what}: panicked: {p}"), cj.clone());
        }
        Ok(Err(e)) => {
            if c.prior == 5 {
                r.outcome("err:destination-is-directory");
                // nothing may have changed
                let after = snapshot(&case_dir);
                if let Some(d) = snap_diff(&before, &after) {
                    r.violation(&format!("C14:{key_op}:directory-touched"), format!("{what}: returned Err({e}) but {d}"), cj.clone());
                }
            } else {
                r.outcome("err:unexpected");
                r.note(format!("{what}: Err({e}) (accepted: the statement constrains success)"));
            }
        }
        Ok(Ok(())) => {
            if c.prior == 5 {
                r.outcome("ok:VIOLATION");
                r.violation(
                    &format!("C14:{key_op}:ok-on-directory"),
                    format!("{what}: returned Ok although the destination is a directory"),
                    cj.clone(),
                );
            } else {
                let got = std::fs::read(&dst);
                match got {
                    Err(e) => {
                        r.outcome("ok:VIOLATION");
                        r.violation(&format!("C14:{key_op}:ok-but-unreadable"), format!("{what}: Ok, but std::fs::read fails: {e}"), cj.clone());
                    }
                    Ok(g) if g == data => {
                        r.outcome(&format!("ok:{}", PRIORS[c.prior]));
                    }
                    Ok(g) => {
                        r.outcome("ok:VIOLATION");
                        let kind = if g.len() > data.len() && g[..data.len()] == data[..] { "stale-tail" } else { "content-differs" };
                        let tail_is_old =
                            kind == "stale-tail" && old.as_ref().map_or(false, |o| o.len() == g.len() && o[data.len()..] == g[data.len()..]);
                        r.violation(
                            &format!("C14:{key_op}:{kind}"),
                            format!(
                                "{what}: returned Ok; std::fs::read(destination) gives {} bytes, expected exactly the {} given bytes{}",
                                g.len(),
                                data.len(),
                                if tail_is_old { " (the first bytes are the new content, the rest is the tail of the OLD destination)" } else { "" }
                            ),
                            cj.clone(),
                        );
                    }
                }
                if c.op >= 2 {
                    match std::fs::read(&src) {
                        Ok(s) if s == data => {}
                        _ => r.violation(&format!("C14:{key_op}:source-changed"), format!("{what}: the source no longer holds its bytes"), cj.clone()),
                    }
                }
                // everything else in the case dir is unchanged
                let after = snapshot(&case_dir);
                let mut b2 = before.clone();
                let mut a2 = after.clone();
                b2.remove(&b"dst.bin"[..]);
                a2.remove(&b"dst.bin"[..]);
                if let Some(d) = snap_diff(&b2, &a2) {
                    r.violation(&format!("C14:{key_op}:other-entry-touched"), format!("{what}: {d}"), cj.clone());
                }
                // read back through tiny-std: judged against what std sees in the file now
                if let Ok(now) = std::fs::read(&dst) {
                    read_checks(&udst, &now, c.op == 1 && now == data, &what, &cj, r);
                }
            }
        }
    }
    if r.samples.len() < 2 {
        r.sample(cj);
    }
    cleanup(&case_dir);
}

fn read_checks(p: &rusl::string::unix_str::UnixStr, content: &[u8], is_text: bool, what: &str, cj: &Value, r: &mut Report) {
    r.eval();
    r.nontrivial_unique();
    set_case(&json!({"phase":"rwcopy","op":"read","of":cj}).to_string());
    let rd = catch(|| tiny_std::fs::read(p).map_err(|e| format!("{e}")));
    clear_case();
    match rd {
        Err(pn) => r.violation("C14:read:panic", format!("after {what}: fs::read panicked: {pn}"), cj.clone()),
        Ok(Err(e)) => r.violation("C14:read:err-on-readable-file", format!("after {what}: fs::read = Err({e}) but std::fs::read succeeds"), cj.clone()),
        Ok(Ok(v)) if v == content => r.outcome("read:equal"),
        Ok(Ok(v)) => r.violation(
            "C14:read:content-differs",
            format!("after {what}: fs::read returned {} bytes, the file holds {} bytes (or different bytes)", v.len(), content.len()),
            cj.clone(),
        ),
    }
    r.eval();
    r.nontrivial_unique();
    set_case(&json!({"phase":"rwcopy","op":"read_to_string","of":cj}).to_string());
    let rs = catch(|| tiny_std::fs::read_to_string(p).map_err(|e| format!("{e}")));
    clear_case();
    let valid = std::str::from_utf8(content).is_ok();
    match rs {
        Err(pn) => r.violation("C14:read_to_string:panic", format!("after {what}: fs::read_to_string panicked: {pn}"), cj.clone()),
        Ok(Err(e)) => {
            if valid {
                r.violation(
                    "C14:read_to_string:err-on-readable-text",
                    format!("after {what}: read_to_string = Err({e}) on valid UTF-8 content"),
                    cj.clone(),
                );
            } else {
                r.outcome("read_to_string:err-not-utf8");
            }
        }
        Ok(Ok(s)) => {
            if s.as_bytes() == content {
                r.outcome(if is_text { "read_to_string:equal-text" } else { "read_to_string:equal" });
            } else {
                r.violation(
                    "C14:read_to_string:content-differs",
                    format!("after {what}: read_to_string returned {} bytes, the file holds {}", s.len(), content.len()),
                    cj.clone(),
                );
            }
        }
    }
}

pub fn phase(args: &Args, master: &Path) -> Report {
    let cs = cases(args.thorough);
    let n = cs.len();
    let mut r = run_blocks(args, master, cs, 16, "C14", run_case, 2);
    if let Some(t) = second_fs() {
        // copy_file_range takes different kernel paths on different file systems: the whole grid again on the std temp dir
        let m2 = Master::new_in(&t, "rwcopy-2");
        ON_STD_TMP.store(true, std::sync::atomic::Ordering::SeqCst);
        let r2 = run_blocks(args, &m2.path, cases(args.thorough), 16, "C14", run_case, 0);
        ON_STD_TMP.store(false, std::sync::atomic::Ordering::SeqCst);
        drop(m2);
        r.outcome_n("run-on-second-file-system", n as u64);
        r.merge(r2);
        r.bound("second_file_system", format!("{} (the whole grid)", t.display()));
    }
    r.rule = format!(
        "sizes {:?} x destination prior state {{absent, shorter file (size/2), equal-size file with different bytes, file longer by 1, file longer by 5000, a directory with a file in it}} \
         x operation {{fs::write (binary pattern i*31+7), fs::write (ASCII pattern), File::open(src).copy(dst), fs::copy_file(src,dst)}}; old destination content is the pattern i*17+3 so a \
         stale tail is visible. Judged by std::fs::read of destination and source and by a recursive listing of the case directory; after every successful operation \
         tiny_std::fs::read and read_to_string of the destination are compared with what std::fs::read sees. Each (op,size,prior) once; 'shorter' is skipped for size 0.",
        sizes(args.thorough)
    );
    r.bound("cases", n);
    r.bound("max_size", *sizes(args.thorough).last().unwrap());
    // fourth part: reads when st_size lies
    let r4 = crate::readsrc::run_all(args, master);
    r.merge(r4);
    r.rule.push_str(" ");
    r.rule.push_str(&crate::readsrc::rule());
    // third part: copy from special sources / across mounts
    let r3 = crate::copysrc::run_all(args, master);
    r.merge(r3);
    r.rule.push_str(" ");
    r.rule.push_str(&crate::copysrc::rule());
    // second part of the phase: read_to_end / read_to_string into caller-supplied buffers
    let r2 = crate::readend::run_all(args, master);
    r.merge(r2);
    r.rule.push_str(" ");
    r.rule.push_str(&crate::readend::rule(args.thorough));
    r
}
