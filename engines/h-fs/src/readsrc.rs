//! Part "readsrc" of phase "rwcopy" (also `--phase readsrc`): fs::read / fs::read_to_string /
//! File::read_to_end on files whose st_size is not what read() delivers: procfs/sysfs files, and a
//! regular file whose fstat/newfstatat/statx answer is forged through the syscall seam.

use crate::util::*;
use common::*;
use serde_json::{json, Value};
use std::path::Path;
use tiny_std::io::Read;

pub const SOURCES: [&str; 6] = [
    "/proc/self/cmdline",
    "/proc/self/comm",
    "/proc/sys/kernel/ostype",
    "/proc/version",
    "/sys/devices/system/cpu/online",
    "/sys/kernel/mm/transparent_hugepage/enabled",
];
pub const OPS: [&str; 3] = ["read", "read_to_string", "read_to_end"];

#[derive(Clone, Debug)]
pub enum RsCase {
    Special { src: String, op: usize },
    /// regular file of `len` bytes, the kernel's size answer replaced by `lie`
    Forged { len: usize, lie: u64, op: usize },
}

impl RsCase {
    pub fn to_json(&self) -> Value {
        match self {
            RsCase::Special { src, op } => json!({"phase": "readsrc", "op": OPS[*op], "source": src}),
            RsCase::Forged { len, lie, op } => json!({"phase": "readsrc", "op": OPS[*op], "file_len": len, "reported_st_size": lie}),
        }
    }
    pub fn from_json(v: &Value) -> Option<RsCase> {
        let op = OPS.iter().position(|o| Some(*o) == v["op"].as_str())?;
        if let Some(s) = v["source"].as_str() {
            return Some(RsCase::Special { src: s.to_string(), op });
        }
        Some(RsCase::Forged { len: v["file_len"].as_u64()? as usize, lie: v["reported_st_size"].as_u64()?, op })
    }
}

pub fn cases() -> Vec<RsCase> {
    let mut out = Vec::new();
    for s in SOURCES {
        for op in 0..OPS.len() {
            out.push(RsCase::Special { src: s.to_string(), op });
        }
    }
    for len in [0usize, 1, 31, 100, 4096, 5000] {
        let mut lies = vec![0u64, len as u64 + 1, 4096, 1 << 20];
        if len > 0 {
            lies.push(len as u64 - 1);
        }
        lies.sort();
        lies.dedup();
        for lie in lies {
            if lie == len as u64 {
                continue;
            }
            for op in 0..OPS.len() {
                out.push(RsCase::Forged { len, lie, op });
            }
        }
    }
    out
}

struct SizeLie {
    lie: u64,
    patched: u64,
}

impl sysx::Plan for SizeLie {
    fn decide(&mut self, _i: usize, nr: i64, a: &[u64; 6]) -> sysx::Decision {
        // (buffer argument index, offset of the size field)
        let (buf_arg, off) = if nr == libc::SYS_fstat || nr == libc::SYS_stat || nr == libc::SYS_lstat {
            (1, 48)
        } else if nr == libc::SYS_newfstatat {
            (2, 48)
        } else if nr == libc::SYS_statx {
            (4, 40)
        } else {
            return sysx::Decision::Pass;
        };
        let rc = unsafe { libc::syscall(nr, a[0], a[1], a[2], a[3], a[4], a[5]) };
        if rc < 0 {
            return sysx::Decision::Force(-(std::io::Error::last_os_error().raw_os_error().unwrap_or(libc::EIO) as i64));
        }
        unsafe { std::ptr::write_unaligned((a[buf_arg] as *mut u8).add(off) as *mut u64, self.lie) };
        self.patched += 1;
        sysx::Decision::Force(rc as i64)
    }
}

fn do_read(op: usize, p: &Path) -> Result<Result<Vec<u8>, String>, String> {
    let up = ux(&p2b(p));
    catch(|| match op {
        0 => tiny_std::fs::read(&up).map_err(|e| format!("{e}")),
        1 => tiny_std::fs::read_to_string(&up).map(|s| s.into_bytes()).map_err(|e| format!("{e}")),
        _ => {
            let mut f = tiny_std::fs::File::open(&up).map_err(|e| format!("open: {e}"))?;
            let mut v = Vec::new();
            f.read_to_end(&mut v).map_err(|e| format!("{e}"))?;
            Ok(v)
        }
    })
}

pub fn run_case(block: &Path, c: &RsCase, r: &mut Report) {
    r.eval();
    let cj = c.to_json();
    let (op, path, want, what, lies) = match c {
        RsCase::Special { src, op } => {
            let p = Path::new(src).to_path_buf();
            let Ok(before) = std::fs::read(&p) else {
                r.outcome("source-not-present");
                if r.notes.len() < 4 {
                    r.note(format!("{src} is not present here: skipped"));
                }
                return;
            };
            let st = std::fs::metadata(&p).map(|m| m.len()).unwrap_or(0);
            (*op, p, before, format!("fs {}({src}) (st_size {st})", OPS[*op]), None)
        }
        RsCase::Forged { len, lie, op } => {
            let p = block.join(format!("rs{len}"));
            std::fs::write(&p, text_pattern(*len)).unwrap();
            let seen = std::fs::read(&p).unwrap();
            (*op, p, seen, format!("fs {} of a regular file of {len} bytes whose fstat/statx answer says st_size = {lie}", OPS[*op]), Some(*lie))
        }
    };
    r.nontrivial_unique();
    set_case(&cj.to_string());
    let res = match lies {
        None => do_read(op, &path),
        Some(lie) => {
            let mut plan = SizeLie { lie, patched: 0 };
            let (x, _) = sysx::run(&mut plan, || do_read(op, &path));
            r.outcome(if plan.patched > 0 { "forged:size-was-asked-and-forged" } else { "forged:size-never-asked" });
            x
        }
    };
    clear_case();
    let after = if lies.is_none() { std::fs::read(&path).unwrap_or_default() } else { want.clone() };
    let suffix = "(st_size lies)";
    let kop = if op == 2 { "read_to_end" } else { OPS[op] };
    match res {
        Err(p) => r.violation(&format!("C14:{kop}:panic{suffix}"), format!("{what}: panicked: {p}"), cj.clone()),
        Ok(_) if after != want => r.outcome("source-volatile(not-judged)"),
        Ok(Err(e)) => {
            if op == 1 && std::str::from_utf8(&want).is_err() {
                r.outcome("err-not-utf8");
            } else {
                r.outcome("VIOLATION");
                r.violation(&format!("C14:{kop}:err-on-readable-file{suffix}"), format!("{what}: Err({e}) although std::fs::read returns {} bytes", want.len()), cj.clone());
            }
        }
        Ok(Ok(v)) if v == want => r.outcome(if lies.is_some() { "forged:content-equal" } else { "special:content-equal" }),
        Ok(Ok(v)) => {
            r.outcome("VIOLATION");
            r.violation(
                &format!("C14:{kop}:content-differs{suffix}"),
                format!("{what}: returned {} bytes, std::fs::read of the same file returns {} bytes", v.len(), want.len()),
                cj.clone(),
            );
        }
    }
    if r.samples.len() < 1 {
        r.sample(cj);
    }
}

pub fn rule() -> String {
    format!(
        "[reads when st_size lies] fs::read, fs::read_to_string and File::open + read_to_end on {:?} (size 0 or a page, whatever they hold; missing ones skipped; a file whose two std reads differ is not \
         judged) and, through the syscall seam, on regular files of 0,1,31,100,4096,5000 bytes whose fstat/newfstatat/statx answer is patched to st_size in {{0, len-1, len+1, 4096, 1 MiB}}: the bytes returned \
         must be exactly what std::fs::read returns.",
        SOURCES
    )
}

pub fn run_all(args: &Args, master: &Path) -> Report {
    let cs = cases();
    let n = cs.len();
    let sub = master.join("readsrc");
    std::fs::create_dir_all(&sub).expect("dir");
    let mut r = run_blocks(args, &sub, cs, 8, "C14", run_case, 1);
    r.bound("st_size_lies_cases", n);
    r
}

pub fn phase(args: &Args, master: &Path) -> Report {
    let mut r = run_all(args, master);
    r.rule = rule();
    r
}
