//! Temp-directory management, the std::fs observer (snapshots) and small helpers.

use common::*;
use rusl::string::unix_str::UnixString;
use std::collections::BTreeMap;
use std::ffi::OsStr;
use std::os::unix::ffi::OsStrExt;
use std::os::unix::fs::FileTypeExt;
use std::path::{Path, PathBuf};
use std::sync::Arc;

/// The one directory under `std::env::temp_dir()` everything of this process (and of its
/// forked shards) lives in.  Removed by the process that created it, also on unwinding.
pub struct Master {
    pub path: PathBuf,
    owner: u32,
}

/// Where the temp trees go: `$VERIF_FS_TMP`, else `std::env::temp_dir()` (which honours `$TMPDIR`).
/// When neither variable is set and the std temp dir is on a disk file system while /dev/shm is a
/// usable memory file system, /dev/shm is taken for the full grids (they create millions of entries;
/// a journalling disk file system is two orders of magnitude slower) and a reduced grid is repeated
/// on the std temp dir.  Decided by statfs (no timing), once per process; recorded in the report.
pub fn temp_base() -> (PathBuf, &'static str) {
    static CHOICE: std::sync::OnceLock<(PathBuf, &'static str)> = std::sync::OnceLock::new();
    CHOICE.get_or_init(choose_base).clone()
}

fn is_memory_fs(p: &Path) -> bool {
    let Ok(c) = std::ffi::CString::new(p2b(p)) else { return false };
    let mut st: libc::statfs = unsafe { std::mem::zeroed() };
    if unsafe { libc::statfs(c.as_ptr(), &mut st) } != 0 {
        return false;
    }
    const TMPFS_MAGIC: i64 = 0x0102_1994;
    const RAMFS_MAGIC: i64 = 0x8584_58f6u32 as i64;
    let t = st.f_type as i64;
    t == TMPFS_MAGIC || t == RAMFS_MAGIC
}

fn writable(p: &Path) -> bool {
    let d = p.join(format!("verif-h-fs-probe-{}", std::process::id()));
    let ok = std::fs::create_dir(&d).is_ok();
    let _ = std::fs::remove_dir(&d);
    ok
}

fn choose_base() -> (PathBuf, &'static str) {
    if let Some(p) = std::env::var_os("VERIF_FS_TMP") {
        return (PathBuf::from(p), "VERIF_FS_TMP");
    }
    let t = std::env::temp_dir();
    if std::env::var_os("TMPDIR").is_some() {
        return (t, "TMPDIR");
    }
    let shm = Path::new("/dev/shm");
    if !is_memory_fs(&t) && is_memory_fs(shm) && writable(shm) {
        return (shm.to_path_buf(), "std temp dir is on a disk file system: /dev/shm taken; rwcopy/readdir/rmall repeat a (reduced) grid on the std temp dir");
    }
    if !writable(&t) && writable(shm) {
        return (shm.to_path_buf(), "std temp dir unusable, /dev/shm taken");
    }
    (t, "std::env::temp_dir()")
}

/// set while the reduced grid is run a second time on the std temp dir (a different file system)
pub static ON_STD_TMP: std::sync::atomic::AtomicBool = std::sync::atomic::AtomicBool::new(false);

pub fn on_std_tmp() -> bool {
    ON_STD_TMP.load(std::sync::atomic::Ordering::SeqCst)
}

/// `Some(dir)` when the main run is not on the std temp dir, so that a reduced grid can be repeated there
pub fn second_fs() -> Option<PathBuf> {
    let t = std::env::temp_dir();
    if temp_base().0 != t && std::env::var_os("VERIF_FS_NO_SECOND").is_none() {
        Some(t)
    } else {
        None
    }
}

pub fn tag_fs(mut v: serde_json::Value) -> serde_json::Value {
    if on_std_tmp() {
        v["fs"] = serde_json::json!("std-temp-dir");
    }
    if dt_unknown_mode() {
        v["dt_unknown"] = serde_json::json!(true);
    }
    v
}

impl Master {
    pub fn new(tag: &str) -> Master {
        Self::new_in(&temp_base().0, tag)
    }
    pub fn new_in(base: &Path, tag: &str) -> Master {
        let path = base.join(format!("verif-h-fs-{}-{}", std::process::id(), tag));
        let _ = std::fs::remove_dir_all(&path);
        std::fs::create_dir_all(&path).expect("create master temp dir");
        Master { path, owner: std::process::id() }
    }
}

impl Drop for Master {
    fn drop(&mut self) {
        // a forked shard that unwinds must not remove the tree of its siblings
        if std::process::id() == self.owner {
            let _ = std::env::set_current_dir("/");
            let _ = std::fs::remove_dir_all(&self.path);
        }
    }
}

pub fn ux(b: &[u8]) -> UnixString {
    UnixString::try_from_bytes(b).expect("harness path without NUL")
}

pub fn p2b(p: &Path) -> Vec<u8> {
    p.as_os_str().as_bytes().to_vec()
}

pub fn b2p(b: &[u8]) -> PathBuf {
    PathBuf::from(OsStr::from_bytes(b))
}

pub fn join(base: &Path, rel: &[u8]) -> PathBuf {
    if base.as_os_str().is_empty() {
        b2p(rel)
    } else {
        base.join(OsStr::from_bytes(rel))
    }
}

/// `<block>/c`, fresh and empty.
pub fn fresh_case_dir(block: &Path) -> PathBuf {
    let d = block.join("c");
    cleanup(&d);
    std::fs::create_dir_all(&d).expect("create case dir");
    d
}

pub fn cleanup(dir: &Path) {
    let _ = std::env::set_current_dir("/");
    match std::fs::remove_dir_all(dir) {
        Ok(()) => {}
        Err(e) if e.kind() == std::io::ErrorKind::NotFound => {}
        Err(e) => panic!("harness cannot remove {dir:?}: {e}"),
    }
}

pub fn pattern(n: usize, mul: usize, add: usize) -> Vec<u8> {
    (0..n).map(|i| (i.wrapping_mul(mul).wrapping_add(add)) as u8).collect()
}

pub fn text_pattern(n: usize) -> Vec<u8> {
    (0..n).map(|i| 33 + ((i * 31 + 7) % 94) as u8).collect()
}

pub fn mkfifo(p: &Path) {
    let c = std::ffi::CString::new(p2b(p)).unwrap();
    let rc = unsafe { libc::mkfifo(c.as_ptr(), 0o644) };
    assert_eq!(rc, 0, "mkfifo {p:?}: {}", std::io::Error::last_os_error());
}

pub fn symlink(target: &Path, link: &Path) {
    std::os::unix::fs::symlink(target, link).unwrap_or_else(|e| panic!("symlink {link:?}: {e}"));
}

// ---------------------------------------------------------------------------
// observer

#[derive(Clone, PartialEq, Eq, Debug, Hash, PartialOrd, Ord)]
pub enum Node {
    File(Vec<u8>),
    Dir,
    Link(Vec<u8>),
    Fifo,
    Other,
}

impl Node {
    pub fn show(&self) -> String {
        match self {
            Node::File(c) if c.len() <= 24 => format!("file[{}]", show_bytes(c)),
            Node::File(c) => format!("file[{} bytes, hash {:x}]", c.len(), hash_of(c) & 0xffff_ffff),
            Node::Dir => "dir".into(),
            Node::Link(t) => format!("link->{}", show_bytes(t)),
            Node::Fifo => "fifo".into(),
            Node::Other => "other".into(),
        }
    }
}

/// path relative to the snapshot root (bytes, '/'-separated) -> node, seen through std::fs only
pub type Snap = BTreeMap<Vec<u8>, Node>;

/// Recursive listing of `root` (not following symlinks).  `root` may be empty = the cwd
/// (so that every path handed to the kernel stays as short as possible).
pub fn snapshot(root: &Path) -> Snap {
    let mut out = Snap::new();
    snap_rec(root, &[], &mut out);
    out
}

fn snap_rec(dir: &Path, rel: &[u8], out: &mut Snap) {
    let rd_path: &Path = if dir.as_os_str().is_empty() { Path::new(".") } else { dir };
    let rd = std::fs::read_dir(rd_path).unwrap_or_else(|e| panic!("observer read_dir {rd_path:?}: {e}"));
    for e in rd {
        let e = e.expect("observer read_dir entry");
        let name = e.file_name();
        let child = join(dir, name.as_bytes());
        let mut crel = rel.to_vec();
        if !crel.is_empty() {
            crel.push(b'/');
        }
        crel.extend_from_slice(name.as_bytes());
        let md = std::fs::symlink_metadata(&child).unwrap_or_else(|e| panic!("observer lstat {child:?}: {e}"));
        let ft = md.file_type();
        let node = if ft.is_dir() {
            Node::Dir
        } else if ft.is_file() {
            Node::File(std::fs::read(&child).unwrap_or_else(|e| panic!("observer read {child:?}: {e}")))
        } else if ft.is_symlink() {
            Node::Link(p2b(&std::fs::read_link(&child).expect("observer readlink")))
        } else if ft.is_fifo() {
            Node::Fifo
        } else {
            Node::Other
        };
        let is_dir = node == Node::Dir;
        out.insert(crel.clone(), node);
        if is_dir {
            snap_rec(&child, &crel, out);
        }
    }
}

/// First difference between two snapshots, in words.
pub fn snap_diff(before: &Snap, after: &Snap) -> Option<String> {
    for (p, n) in before {
        match after.get(p) {
            None => return Some(format!("{} ({}) disappeared", show_bytes(p), n.show())),
            Some(m) if m != n => return Some(format!("{} was {} and is now {}", show_bytes(p), n.show(), m.show())),
            _ => {}
        }
    }
    for (p, n) in after {
        if !before.contains_key(p) {
            return Some(format!("{} ({}) appeared", show_bytes(p), n.show()));
        }
    }
    None
}

/// Every entry of `before` is still there, unchanged (new entries are allowed).
pub fn snap_preserved(before: &Snap, after: &Snap) -> Option<String> {
    for (p, n) in before {
        match after.get(p) {
            None => return Some(format!("{} ({}) disappeared", show_bytes(p), n.show())),
            Some(m) if m != n => return Some(format!("{} was {} and is now {}", show_bytes(p), n.show(), m.show())),
            _ => {}
        }
    }
    None
}

pub fn snap_show(s: &Snap) -> String {
    let mut v = Vec::new();
    for (p, n) in s {
        v.push(format!("{}={}", show_bytes(p), n.show()));
    }
    format!("{{{}}}", v.join(", "))
}

// ---------------------------------------------------------------------------
// block-wise distribution over forked shards: block i gets the i-th contiguous slice of the
// (simplest-first) case list, and reports are merged in block order, so the case kept under
// a violation key is the globally first one.

pub fn run_blocks<C: 'static>(
    args: &Args,
    master: &Path,
    cases: Vec<C>,
    nblocks: usize,
    prefix: &str,
    f: fn(&Path, &C, &mut Report),
    samples: usize,
) -> Report {
    let cases = Arc::new(cases);
    let n = cases.len();
    let nblocks = nblocks.min(n.max(1));
    let mut items = Vec::new();
    for b in 0..nblocks {
        let lo = n * b / nblocks;
        let hi = n * (b + 1) / nblocks;
        let cases = cases.clone();
        let block = master.join(format!("b{b}"));
        items.push(isolated(format!("block-{b}"), move || {
            let mut r = Report::new();
            std::fs::create_dir_all(&block).expect("block dir");
            for c in &cases[lo..hi] {
                f(&block, c, &mut r);
            }
            cleanup(&block);
            // keep only a few samples per block; merge caps the total
            r.samples.truncate(samples);
            r
        }));
    }
    run_isolated(items, &args.out, prefix)
}

// ---------------------------------------------------------------------------
// watchdog: run `f` in a forked child; a call that blocks for ever is killed and reported as a hang

pub enum Watched {
    Done(String),
    Hang,
    /// the child did not exit normally (wait status)
    Died(i32),
}

pub fn watchdog(timeout_ms: i32, f: impl FnOnce() -> String) -> Watched {
    use std::io::Write;
    let mut fds = [0i32; 2];
    assert_eq!(unsafe { libc::pipe(fds.as_mut_ptr()) }, 0, "pipe");
    std::io::stdout().flush().ok();
    std::io::stderr().flush().ok();
    let pid = unsafe { libc::fork() };
    assert!(pid >= 0, "fork");
    if pid == 0 {
        unsafe { libc::close(fds[0]) };
        let s = f();
        let b = s.as_bytes();
        let mut off = 0;
        while off < b.len() {
            let n = unsafe { libc::write(fds[1], b[off..].as_ptr() as *const _, b.len() - off) };
            if n <= 0 {
                break;
            }
            off += n as usize;
        }
        unsafe { libc::_exit(0) };
    }
    unsafe { libc::close(fds[1]) };
    let mut out = Vec::new();
    let t0 = std::time::Instant::now();
    let mut hang = false;
    loop {
        let left = timeout_ms as i64 - t0.elapsed().as_millis() as i64;
        if left <= 0 {
            hang = true;
            break;
        }
        let mut pfd = libc::pollfd { fd: fds[0], events: libc::POLLIN, revents: 0 };
        let rc = unsafe { libc::poll(&mut pfd, 1, left as i32) };
        if rc == 0 {
            hang = true;
            break;
        }
        if rc < 0 {
            continue;
        }
        let mut buf = [0u8; 4096];
        let n = unsafe { libc::read(fds[0], buf.as_mut_ptr() as *mut _, buf.len()) };
        if n <= 0 {
            break; // EOF: the child is done (or dead)
        }
        out.extend_from_slice(&buf[..n as usize]);
    }
    unsafe { libc::close(fds[0]) };
    if hang {
        unsafe { libc::kill(pid, libc::SIGKILL) };
    }
    let mut status = 0;
    unsafe { libc::waitpid(pid, &mut status, 0) };
    if hang {
        return Watched::Hang;
    }
    if libc::WIFEXITED(status) && libc::WEXITSTATUS(status) == 0 {
        Watched::Done(String::from_utf8_lossy(&out).to_string())
    } else {
        Watched::Died(status)
    }
}

// ---------------------------------------------------------------------------
// "the file system does not say what an entry is": with DT_UNKNOWN_MODE on, the code under test
// runs under the syscall seam and every record of every (real) getdents64 answer has its d_type
// byte rewritten to DT_UNKNOWN before the caller sees it.

pub static DT_UNKNOWN_MODE: std::sync::atomic::AtomicBool = std::sync::atomic::AtomicBool::new(false);
pub static RECORDS_REWRITTEN: std::sync::atomic::AtomicU64 = std::sync::atomic::AtomicU64::new(0);

pub fn dt_unknown_mode() -> bool {
    DT_UNKNOWN_MODE.load(std::sync::atomic::Ordering::SeqCst)
}

struct RewriteTypes;

impl sysx::Plan for RewriteTypes {
    fn decide(&mut self, _idx: usize, nr: i64, a: &[u64; 6]) -> sysx::Decision {
        if nr != libc::SYS_getdents64 {
            return sysx::Decision::Pass;
        }
        let n = unsafe { libc::syscall(libc::SYS_getdents64, a[0], a[1], a[2]) };
        if n < 0 {
            return sysx::Decision::Force(-(std::io::Error::last_os_error().raw_os_error().unwrap_or(libc::EIO) as i64));
        }
        let buf = unsafe { std::slice::from_raw_parts_mut(a[1] as *mut u8, n as usize) };
        let mut off = 0usize;
        while off + 19 <= buf.len() {
            let reclen = u16::from_ne_bytes([buf[off + 16], buf[off + 17]]) as usize;
            if reclen == 0 {
                break;
            }
            buf[off + 18] = libc::DT_UNKNOWN;
            RECORDS_REWRITTEN.fetch_add(1, std::sync::atomic::Ordering::Relaxed);
            off += reclen;
        }
        sysx::Decision::Force(n as i64)
    }
}

/// run the code under test, under the type-erasing seam when the mode is on
pub fn seam<R>(f: impl FnOnce() -> R) -> R {
    if !dt_unknown_mode() {
        return f();
    }
    let mut plan = RewriteTypes;
    sysx::run(&mut plan, f).0
}

/// key suffix / json tag of the mode
pub fn mode_key(key: &str) -> String {
    if dt_unknown_mode() {
        format!("{key}(dt-unknown)")
    } else {
        key.to_string()
    }
}
