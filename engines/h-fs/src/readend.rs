//! Part "readend" of phase "rwcopy" (also runnable alone as `--phase readend`):
//! File::read_to_end / File::read_to_string into a caller-supplied buffer, over the
//! two-dimensional grid (capacity of the buffer) x (size of the file) x (bytes already
//! in the buffer), and over buffers re-used across two files.  The engine under test
//! (io.rs default_read_to_end) behaves differently when the buffer is roomy, an exact
//! fit, overshot by less than its 32-byte probe, or overshot by more, so the diagonal
//! band size - capacity in a window around 0 is enumerated completely.

use crate::util::*;
use common::*;
use serde_json::{json, Value};
use std::cell::RefCell;
use std::collections::HashMap;
use std::path::{Path, PathBuf};
use std::rc::Rc;
use tiny_std::io::Read;

pub const OPS: [&str; 2] = ["read_to_end", "read_to_string"];

#[derive(Clone, Debug)]
pub enum ReCase {
    /// buffer = with_capacity(cap) holding `prefix` bytes, file of `size` bytes
    Grid { op: usize, cap: usize, size: usize, prefix: usize },
    /// one buffer: read file of `a` bytes into a new buffer, clear(), read file of `b` bytes
    Reuse { op: usize, a: usize, b: usize },
}

impl ReCase {
    pub fn to_json(&self) -> Value {
        tag_fs(match self {
            ReCase::Grid { op, cap, size, prefix } => {
                json!({"phase": "readend", "op": OPS[*op], "capacity": cap, "file_size": size, "prefix": prefix})
            }
            ReCase::Reuse { op, a, b } => json!({"phase": "readend", "op": OPS[*op], "reuse": [a, b]}),
        })
    }
    pub fn from_json(v: &Value) -> Option<ReCase> {
        let op = OPS.iter().position(|o| Some(*o) == v["op"].as_str())?;
        if let Some(p) = v.get("reuse") {
            return Some(ReCase::Reuse { op, a: p[0].as_u64()? as usize, b: p[1].as_u64()? as usize });
        }
        Some(ReCase::Grid {
            op,
            cap: v["capacity"].as_u64()? as usize,
            size: v["file_size"].as_u64()? as usize,
            prefix: v["prefix"].as_u64()? as usize,
        })
    }
}

fn caps(thorough: bool) -> Vec<usize> {
    let mut c: Vec<usize> = if thorough { (0..=300).collect() } else { (0..=140).collect() };
    c.extend([127, 128, 129, 255, 256, 500, 4095, 4096, 4097]);
    if thorough {
        c.extend([511, 512, 513, 1023, 1024, 1025, 8191, 8192, 8193, 65535, 65536, 65537]);
    }
    c.sort();
    c.dedup();
    c
}

fn prefixes(thorough: bool) -> Vec<usize> {
    if thorough {
        vec![0, 1, 5, 31, 32, 33]
    } else {
        vec![0, 1, 5]
    }
}

fn window(thorough: bool) -> (i64, i64) {
    if thorough {
        (-70, 140)
    } else {
        (-40, 70)
    }
}

fn ladder(thorough: bool) -> Vec<usize> {
    let mut l: Vec<usize> = if thorough { (0..=300).collect() } else { (0..=100).collect() };
    l.extend([127, 128, 129, 140, 159, 160, 161, 255, 256, 257, 500, 514, 1000, 4095, 4096, 4097, 5000]);
    if thorough {
        l.extend([8191, 8192, 8193, 70_000]);
    }
    l.sort();
    l.dedup();
    l
}

pub fn cases(thorough: bool) -> Vec<ReCase> {
    let mut out = Vec::new();
    let (lo, hi) = window(thorough);
    for cap in caps(thorough) {
        for d in lo..=hi {
            let size = cap as i64 + d;
            if size < 0 {
                continue;
            }
            for &prefix in &prefixes(thorough) {
                if prefix > cap {
                    continue; // the buffer cannot hold the prefix at this capacity
                }
                for op in 0..OPS.len() {
                    out.push(ReCase::Grid { op, cap, size: size as usize, prefix });
                }
            }
        }
    }
    let l = ladder(thorough);
    for &a in &l {
        for &b in &l {
            for op in 0..OPS.len() {
                out.push(ReCase::Reuse { op, a, b });
            }
        }
    }
    out
}

// one file per size and block, created on first use; its content as std::fs::read sees it
type FileCache = HashMap<(PathBuf, usize), (PathBuf, Rc<Vec<u8>>)>;
thread_local! {
    static FILES: RefCell<FileCache> = RefCell::new(HashMap::new());
}

fn file_of(block: &Path, size: usize) -> (PathBuf, Rc<Vec<u8>>) {
    FILES.with(|f| {
        let mut f = f.borrow_mut();
        f.entry((block.to_path_buf(), size))
            .or_insert_with(|| {
                let p = block.join(format!("f{size}"));
                // ASCII, never NUL: a foreign zero byte in the result is visible, and read_to_string applies
                std::fs::write(&p, text_pattern(size)).expect("setup file");
                let seen = std::fs::read(&p).expect("observer read");
                assert_eq!(seen.len(), size, "harness: file size");
                (p, Rc::new(seen))
            })
            .clone()
    })
}

fn prefix_bytes(p: usize) -> Vec<u8> {
    (0..p).map(|i| b'A' + (i % 26) as u8).collect()
}

/// what the engine meets: how the file relates to the spare room of the buffer
fn class(spare: usize, size: usize) -> &'static str {
    if spare == 0 {
        "no-spare-room"
    } else if size < spare {
        "roomy"
    } else if size == spare {
        "exact-fit"
    } else if size - spare < 32 {
        "overshoot-1..31"
    } else if size - spare == 32 {
        "overshoot-32"
    } else {
        "overshoot->32"
    }
}

/// Ok((count, bytes now in the buffer, capacity before)) or Err(message)
fn do_read(op: usize, path: &Path, buf: &mut Vec<u8>) -> Result<Result<usize, String>, String> {
    let up = ux(&p2b(path));
    catch(|| {
        let mut f = tiny_std::fs::File::open(&up).map_err(|e| format!("open: {e}"))?;
        if op == 0 {
            f.read_to_end(buf).map_err(|e| format!("{e}"))
        } else {
            // the buffer only ever holds ASCII here
            let mut s = String::from_utf8(std::mem::take(buf)).expect("harness: ascii buffer");
            let res = f.read_to_string(&mut s).map_err(|e| format!("{e}"));
            *buf = s.into_bytes();
            res
        }
    })
}

fn judge(opn: &str, what: &str, res: Result<Result<usize, String>, String>, buf: &[u8], prefix: &[u8], want: &[u8], cj: &Value, r: &mut Report) -> bool {
    match res {
        Err(p) => {
            r.violation(&format!("C14:{opn}:panic"), format!("{what}: panicked: {p}"), cj.clone());
            false
        }
        Ok(Err(e)) => {
            r.violation(&format!("C14:{opn}:err-on-readable-file"), format!("{what}: Err({e}) although std::fs::read reads the file"), cj.clone());
            false
        }
        Ok(Ok(k)) => {
            let mut ok = true;
            if buf.len() < prefix.len() || buf[..prefix.len()] != prefix[..] {
                ok = false;
                r.violation(
                    &format!("C14:{opn}:prefix-changed"),
                    format!("{what}: the {} bytes that were in the buffer before the call are no longer at its start", prefix.len()),
                    cj.clone(),
                );
            } else if buf[prefix.len()..] != want[..] {
                ok = false;
                let got = &buf[prefix.len()..];
                let common_len = got.iter().zip(want.iter()).take_while(|(a, b)| a == b).count();
                r.violation(
                    &format!("C14:{opn}:bytes-differ"),
                    format!(
                        "{what}: returned Ok({k}); the buffer holds {} bytes after the prefix, the file holds {} (std::fs::read); they agree on the first {common_len} bytes{}",
                        got.len(),
                        want.len(),
                        if got.len() > want.len() && common_len == want.len() {
                            format!(", then {} extra bytes follow, starting {}", got.len() - want.len(), show_bytes(&got[want.len()..(want.len() + 8).min(got.len())]))
                        } else {
                            String::new()
                        }
                    ),
                    cj.clone(),
                );
            }
            if k != want.len() {
                ok = false;
                r.violation(
                    &format!("C14:{opn}:wrong-count"),
                    format!("{what}: returned Ok({k}) but the file holds {} bytes", want.len()),
                    cj.clone(),
                );
            }
            ok
        }
    }
}

pub fn run_case(block: &Path, c: &ReCase, r: &mut Report) {
    r.eval();
    r.nontrivial_unique();
    let cj = c.to_json();
    match c {
        ReCase::Grid { op, cap, size, prefix } => {
            let (path, want) = file_of(block, *size);
            let pre = prefix_bytes(*prefix);
            let mut buf: Vec<u8> = Vec::with_capacity(*cap);
            buf.extend_from_slice(&pre);
            let real_cap = buf.capacity();
            let what = format!(
                "File::{}(&mut buffer with capacity {real_cap} holding {prefix} bytes) on a file of {size} bytes",
                OPS[*op]
            );
            set_case(&cj.to_string());
            let res = do_read(*op, &path, &mut buf);
            clear_case();
            let ok = judge(OPS[*op], &what, res, &buf, &pre, &want, &cj, r);
            if real_cap != *cap {
                r.outcome("allocator-gave-other-capacity");
            }
            r.outcome(&if ok { format!("grid:{}", class(real_cap - prefix, *size)) } else { "grid:VIOLATION".to_string() });
        }
        ReCase::Reuse { op, a, b } => {
            let (pa, wa) = file_of(block, *a);
            let (pb, wb) = file_of(block, *b);
            let mut buf: Vec<u8> = Vec::new();
            set_case(&cj.to_string());
            let res1 = do_read(*op, &pa, &mut buf);
            clear_case();
            let what1 = format!("File::{}(&mut Vec::new()) on a file of {a} bytes", OPS[*op]);
            let ok1 = judge(OPS[*op], &what1, res1, &buf, &[], &wa, &cj, r);
            buf.clear();
            let cap = buf.capacity();
            let what2 = format!(
                "File::{}(&mut buffer) on a file of {b} bytes, the buffer having been used to read a file of {a} bytes (capacity now {cap}) and clear()ed",
                OPS[*op]
            );
            set_case(&cj.to_string());
            let res2 = do_read(*op, &pb, &mut buf);
            clear_case();
            let ok2 = judge(OPS[*op], &what2, res2, &buf, &[], &wb, &cj, r);
            r.outcome(&if ok1 && ok2 { format!("reuse:{}", class(cap, *b)) } else { "reuse:VIOLATION".to_string() });
        }
    }
    if r.samples.len() < 2 {
        r.sample(cj);
    }
}

pub fn rule(thorough: bool) -> String {
    let (lo, hi) = window(thorough);
    format!(
        "[read_to_end grid] File::read_to_end and File::read_to_string into Vec/String::with_capacity(c) already holding p bytes, for every c in {} x every file size n with n - c in {lo}..={hi} \
         x p in {:?} (p <= c): the whole band around the diagonal, so that the file is smaller than / exactly as large as / 1..31, 32, more than 32 bytes larger than the spare room (the engine probes \
         with a 32-byte buffer when the caller's capacity was filled exactly); plus every ordered pair (a,b) from the size ladder {} read one after the other into ONE buffer (Vec::new(), read a, clear(), read b). \
         Oracle: Ok(k) with k == n and buffer == prefix ++ exactly the bytes std::fs::read sees (files hold an ASCII pattern without NUL). Each (op,c,n,p) / (op,a,b) once.",
        describe(&caps(thorough)),
        prefixes(thorough),
        describe(&ladder(thorough))
    )
}

fn describe(v: &[usize]) -> String {
    // leading run 0..=k, then the rest
    let mut k = 0;
    while k + 1 < v.len() && v[k + 1] == v[k] + 1 {
        k += 1;
    }
    format!("{{{}..={} step 1, {}}}", v[0], v[k], v[k + 1..].iter().map(|x| x.to_string()).collect::<Vec<_>>().join(","))
}

/// the grid on the main temp base and, when there is one, once more on the second file system
pub fn run_all(args: &Args, master: &Path) -> Report {
    let cs = cases(args.thorough);
    let n = cs.len();
    let sub = master.join("readend");
    std::fs::create_dir_all(&sub).expect("readend dir");
    let mut r = run_blocks(args, &sub, cs, 32, "C14", run_case, 1);
    if let Some(t) = second_fs() {
        if !args.thorough {
            // quick: the grid rows only up to capacity 40 and the reuse pairs, on the disk file system
            let m2 = Master::new_in(&t, "readend-2");
            ON_STD_TMP.store(true, std::sync::atomic::Ordering::SeqCst);
            let cs2: Vec<ReCase> = cases(false)
                .into_iter()
                .filter(|c| match c {
                    ReCase::Grid { cap, .. } => *cap <= 40,
                    ReCase::Reuse { .. } => true,
                })
                .collect();
            let n2 = cs2.len();
            let r2 = run_blocks(args, &m2.path, cs2, 16, "C14", run_case, 0);
            ON_STD_TMP.store(false, std::sync::atomic::Ordering::SeqCst);
            drop(m2);
            r.outcome_n("readend:run-on-second-file-system", n2 as u64);
            r.merge(r2);
        } else {
            let m2 = Master::new_in(&t, "readend-2");
            ON_STD_TMP.store(true, std::sync::atomic::Ordering::SeqCst);
            let r2 = run_blocks(args, &m2.path, cases(true), 32, "C14", run_case, 0);
            ON_STD_TMP.store(false, std::sync::atomic::Ordering::SeqCst);
            drop(m2);
            r.outcome_n("readend:run-on-second-file-system", n as u64);
            r.merge(r2);
        }
    }
    r.bound("read_to_end_cases", n);
    r.bound("read_to_end_capacities", describe(&caps(args.thorough)));
    r.bound("read_to_end_size_minus_capacity", format!("{:?}", window(args.thorough)));
    r.bound("read_to_end_reuse_ladder", ladder(args.thorough).len());
    r
}

pub fn phase(args: &Args, master: &Path) -> Report {
    let mut r = run_all(args, master);
    r.rule = rule(args.thorough);
    r
}
