//! Part "copysrc" of phase "rwcopy" (also alone as `--phase copysrc`): File::copy / copy_file from
//! sources whose st_size says nothing about their content (procfs, sysfs: st_size 0 or a page),
//! from a FIFO with a writer (recorded only), and across mount points (recorded only: EXDEV is an Err).
//! C14: "after copy the destination's content equals the source's whatever it held before".

use crate::util::*;
use common::*;
use serde_json::{json, Value};
use std::path::{Path, PathBuf};

pub const SPECIAL: [&str; 8] = [
    "/proc/version",
    "/proc/filesystems",
    "/proc/self/cgroup",
    "/proc/self/cmdline",
    "/proc/cpuinfo",
    "/proc/self/status",
    "/proc/sys/kernel/ostype",
    "/sys/devices/system/cpu/online",
];
pub const OPS: [&str; 2] = ["File::copy", "copy_file"];
pub const WATCH_MS: i32 = 3000;

#[derive(Clone, Debug)]
pub enum CsCase {
    Special { src: String, op: usize, dest_longer: bool },
    Fifo { op: usize },
    /// source in this block's directory, destination in `other` (a directory on another mount), or the reverse
    CrossMount { other: String, reverse: bool, op: usize, size: usize, dest_longer: bool },
}

impl CsCase {
    pub fn to_json(&self) -> Value {
        match self {
            CsCase::Special { src, op, dest_longer } => json!({"phase": "copysrc", "op": OPS[*op], "source": src, "dest_prior": if *dest_longer { "longer-file" } else { "absent" }}),
            CsCase::Fifo { op } => json!({"phase": "copysrc", "op": OPS[*op], "source": "fifo-with-writer"}),
            CsCase::CrossMount { other, reverse, op, size, dest_longer } => {
                json!({"phase": "copysrc", "op": OPS[*op], "cross_mount": other, "reverse": reverse, "size": size, "dest_prior": if *dest_longer { "longer-file" } else { "absent" }})
            }
        }
    }
    pub fn from_json(v: &Value) -> Option<CsCase> {
        let op = OPS.iter().position(|o| Some(*o) == v["op"].as_str())?;
        let dest_longer = v["dest_prior"].as_str() == Some("longer-file");
        if let Some(o) = v.get("cross_mount") {
            // the recorded directory belonged to the recording run: take the std temp dir again
            let _ = o;
            return Some(CsCase::CrossMount {
                other: String::new(),
                reverse: v["reverse"].as_bool()?,
                op,
                size: v["size"].as_u64()? as usize,
                dest_longer,
            });
        }
        match v["source"].as_str()? {
            "fifo-with-writer" => Some(CsCase::Fifo { op }),
            s => Some(CsCase::Special { src: s.to_string(), op, dest_longer }),
        }
    }
}

fn do_copy(op: usize, src: &Path, dst: &Path) -> String {
    let us = ux(&p2b(src));
    let ud = ux(&p2b(dst));
    let res = catch(|| {
        if op == 0 {
            let f = tiny_std::fs::File::open(&us).map_err(|e| format!("open source: {e}"))?;
            f.copy(&ud).map(|_| ()).map_err(|e| format!("{e}"))
        } else {
            tiny_std::fs::copy_file(&us, &ud).map(|_| ()).map_err(|e| format!("{e}"))
        }
    });
    match res {
        Err(p) => format!("panic: {p}"),
        Ok(Ok(())) => "ok".into(),
        Ok(Err(e)) => format!("err: {e}"),
    }
}

fn key_op(op: usize) -> &'static str {
    if op == 0 {
        "copy"
    } else {
        "copy_file"
    }
}

pub fn run_case(block: &Path, c: &CsCase, r: &mut Report) {
    r.eval();
    let cj = c.to_json();
    let case_dir = fresh_case_dir(block);
    let old = pattern(9000, 17, 3);
    match c {
        CsCase::Special { src, op, dest_longer } => {
            let sp = Path::new(src);
            let Ok(before) = std::fs::read(sp) else {
                r.outcome("special-source:not-present");
                cleanup(&case_dir);
                return;
            };
            r.nontrivial_unique();
            let dst = case_dir.join("dst.bin");
            if *dest_longer {
                std::fs::write(&dst, &old).unwrap();
            }
            set_case(&cj.to_string());
            let w = watchdog(WATCH_MS, || do_copy(*op, sp, &dst));
            clear_case();
            let after = std::fs::read(sp).unwrap_or_default();
            let st_size = std::fs::metadata(sp).map(|m| m.len()).unwrap_or(0);
            let what = format!(
                "{} from {src} (st_size {st_size}, {} bytes of content) onto a destination that was {}",
                OPS[*op],
                before.len(),
                if *dest_longer { "a longer file" } else { "absent" }
            );
            match w {
                Watched::Hang => r.violation(&format!("C14:{}:hang", key_op(*op)), format!("{what}: did not return within {WATCH_MS} ms"), cj.clone()),
                Watched::Died(st) => r.violation(&format!("C14:{}:crash", key_op(*op)), format!("{what}: died (status {st})"), cj.clone()),
                Watched::Done(s) if s.starts_with("panic") => r.violation(&format!("C14:{}:panic", key_op(*op)), format!("{what}: {s}"), cj.clone()),
                Watched::Done(s) if s.starts_with("err") => {
                    r.outcome("special-source:err");
                    if r.notes.len() < 6 {
                        r.note(format!("{what}: {s} (accepted: the statement constrains success)"));
                    }
                }
                Watched::Done(_) => {
                    if before != after {
                        r.outcome("special-source:volatile-not-judged");
                    } else {
                        let got = std::fs::read(&dst).unwrap_or_default();
                        if got == before {
                            r.outcome("special-source:ok-equal");
                        } else {
                            r.outcome("special-source:VIOLATION");
                            let kind = if got.len() < before.len() && st_size == 0 { "size0-source-content-lost" } else { "special-source-content-differs" };
                            r.violation(
                                &format!("C14:{}:{kind}", key_op(*op)),
                                format!("{what}: returned Ok; the destination holds {} bytes, std::fs::read of the source gives {} bytes (the same before and after the call)", got.len(), before.len()),
                                cj.clone(),
                            );
                        }
                    }
                }
            }
        }
        CsCase::Fifo { op } => {
            r.nontrivial_unique();
            let fifo = case_dir.join("fifo");
            mkfifo(&fifo);
            let dst = case_dir.join("dst.bin");
            let payload = b"nine byte";
            // the writer: opens (blocks until the copy opens the read end), writes, closes
            let wpid = unsafe { libc::fork() };
            if wpid == 0 {
                if let Ok(mut f) = std::fs::OpenOptions::new().write(true).open(&fifo) {
                    let _ = std::io::Write::write_all(&mut f, payload);
                }
                unsafe { libc::_exit(0) };
            }
            set_case(&cj.to_string());
            let w = watchdog(WATCH_MS, || do_copy(*op, &fifo, &dst));
            clear_case();
            unsafe {
                libc::kill(wpid, libc::SIGKILL);
                let mut st = 0;
                libc::waitpid(wpid, &mut st, 0);
            }
            let class = match w {
                Watched::Hang => "hang".to_string(),
                Watched::Died(_) => "died".to_string(),
                Watched::Done(s) if s == "ok" => {
                    let got = std::fs::read(&dst).unwrap_or_default();
                    if got == payload {
                        "ok-all-bytes".into()
                    } else {
                        format!("ok-{}-of-{}-bytes", got.len(), payload.len())
                    }
                }
                Watched::Done(s) => s.split(':').next().unwrap_or("?").to_string(),
            };
            // a stream has no "content" the statement could refer to: recorded, not judged
            r.outcome(&format!("fifo-source:{class}(not-judged)"));
        }
        CsCase::CrossMount { other, reverse, op, size, dest_longer } => {
            let other_dir: PathBuf = if other.is_empty() { std::env::temp_dir() } else { PathBuf::from(other) };
            let odir = other_dir.join(format!("verif-h-fs-x-{}", std::process::id()));
            let _ = std::fs::remove_dir_all(&odir);
            if std::fs::create_dir_all(&odir).is_err() {
                r.outcome("cross-mount:other-dir-unusable");
                cleanup(&case_dir);
                return;
            }
            r.nontrivial_unique();
            let (sdir, ddir) = if *reverse { (odir.clone(), case_dir.clone()) } else { (case_dir.clone(), odir.clone()) };
            let src = sdir.join("src.bin");
            let dst = ddir.join("dst.bin");
            let data = pattern(*size, 31, 7);
            std::fs::write(&src, &data).unwrap();
            let prior: Option<Vec<u8>> = if *dest_longer { Some(pattern(size + 5000, 17, 3)) } else { None };
            if let Some(p) = &prior {
                std::fs::write(&dst, p).unwrap();
            }
            set_case(&cj.to_string());
            let res = do_copy(*op, &src, &dst);
            clear_case();
            let got = std::fs::read(&dst).ok();
            let what = format!("{} of {size} bytes across mount points ({} -> {})", OPS[*op], sdir.display(), ddir.display());
            if res.starts_with("panic") {
                r.violation(&format!("C14:{}:panic", key_op(*op)), format!("{what}: {res}"), cj.clone());
            } else if res == "ok" {
                if got.as_deref() == Some(&data[..]) {
                    r.outcome("copy:cross-mount:ok-equal");
                } else {
                    r.outcome("copy:cross-mount:VIOLATION");
                    r.violation(
                        &format!("C14:{}:content-differs", key_op(*op)),
                        format!("{what}: returned Ok; the destination holds {:?} bytes, the source {size}", got.as_ref().map(|g| g.len())),
                        cj.clone(),
                    );
                }
            } else {
                let exdev = res.contains("EXDEV");
                let state = match (&prior, &got) {
                    (Some(p), Some(g)) if p == g => "destination-intact",
                    (Some(_), Some(g)) if g.is_empty() => "destination-truncated",
                    (Some(_), _) => "destination-changed",
                    (None, None) => "destination-still-absent",
                    (None, Some(g)) if g.is_empty() => "destination-created-empty",
                    (None, Some(_)) => "destination-partly-written",
                };
                r.outcome(&format!("copy:err-{}-{state}", if exdev { "exdev" } else { "other" }));
                if r.notes.len() < 4 {
                    r.note(format!("{what}: {res}; {state} (an Err: recorded, not judged)"));
                }
            }
            let _ = std::fs::remove_dir_all(&odir);
        }
    }
    if r.samples.len() < 1 {
        r.sample(cj);
    }
    cleanup(&case_dir);
}

pub fn cases(thorough: bool) -> Vec<CsCase> {
    let mut out = Vec::new();
    for s in SPECIAL {
        for op in 0..2 {
            for dest_longer in [false, true] {
                out.push(CsCase::Special { src: s.to_string(), op, dest_longer });
            }
        }
    }
    for op in 0..2 {
        out.push(CsCase::Fifo { op });
    }
    if let Some(t) = second_fs() {
        let sizes: &[usize] = if thorough { &[0, 1, 4096, 70_000, 1 << 20] } else { &[0, 1, 70_000] };
        for &size in sizes {
            for reverse in [false, true] {
                for op in 0..2 {
                    for dest_longer in [false, true] {
                        out.push(CsCase::CrossMount { other: t.to_string_lossy().to_string(), reverse, op, size, dest_longer });
                    }
                }
            }
        }
    }
    out
}

pub fn rule() -> String {
    format!(
        "[copy from special sources] File::copy and copy_file from each of {:?} (files whose st_size is 0 or a page whatever they contain) onto {{an absent, a longer}} destination, under a watchdog: after Ok the \
         destination must equal what std::fs::read gives for the source (read before and after the call; a source whose two reads differ is volatile and not judged). Recorded only: a FIFO with a writer as \
         source; copies between two mount points in both directions (EXDEV and the state the destination is left in).",
        SPECIAL
    )
}

pub fn run_all(args: &Args, master: &Path) -> Report {
    let cs = cases(args.thorough);
    let n = cs.len();
    let sub = master.join("copysrc");
    std::fs::create_dir_all(&sub).expect("copysrc dir");
    let mut r = run_blocks(args, &sub, cs, 16, "C14", run_case, 1);
    r.bound("special_source_cases", n);
    r
}

pub fn phase(args: &Args, master: &Path) -> Report {
    let mut r = run_all(args, master);
    r.rule = rule();
    r
}
