//! Part "builder" of phase "seq" (also runnable alone as `--phase builder`): histories of
//! OpenOptions setter calls.  The builder is a little state machine (state = the OpenOptions
//! value, alphabet = every setter with each of its values); every history of <= L setter calls
//! is followed by the real open + write "AB" on {a missing file, an existing 10-byte file, a
//! symlink to a 10-byte file} and the result is observed through std::fs.
//!
//! Two oracles, neither needs a hand-written expectation:
//!  * last call wins: history h and h with every call that is overridden by a later call of the
//!    SAME setter removed must open/write identically (a state reached from elsewhere equals the
//!    state reached from the initial state);
//!  * reference: std::fs::OpenOptions driven by the same setter sequence must give the same
//!    Ok/Err class (errno) and the same resulting file.

use crate::util::*;
use common::*;
use rusl::platform::OpenFlags;
use serde_json::{json, Value};
use std::collections::{HashSet, VecDeque};
use std::os::unix::fs::{OpenOptionsExt, PermissionsExt};
use std::path::Path;
use tiny_std::fs::Mode;
use tiny_std::io::Write as TinyWrite;

/// (name, setter id, argument)
pub const ALPHABET: [(&str, u8, u32); 21] = [
    ("read(true)", 0, 1),
    ("write(true)", 1, 1),
    ("append(true)", 2, 1),
    ("truncate(true)", 3, 1),
    ("create(true)", 4, 1),
    ("create_new(true)", 5, 1),
    ("custom_flags(empty)", 6, 0),
    ("custom_flags(O_APPEND)", 6, 1),
    ("custom_flags(O_TRUNC)", 6, 2),
    ("custom_flags(O_EXCL)", 6, 3),
    ("custom_flags(O_DIRECTORY)", 6, 4),
    ("custom_flags(O_NOFOLLOW)", 6, 5),
    ("mode(0o600)", 7, 0o600),
    ("mode(0o644)", 7, 0o644),
    ("mode(0o666)", 7, 0o666),
    ("read(false)", 0, 0),
    ("write(false)", 1, 0),
    ("append(false)", 2, 0),
    ("truncate(false)", 3, 0),
    ("create(false)", 4, 0),
    ("create_new(false)", 5, 0),
];

pub const TARGETS: [&str; 3] = ["missing", "existing-10-bytes", "symlink-to-10-bytes"];

fn apply_tiny(o: &mut tiny_std::fs::OpenOptions, s: usize) {
    let (_, id, arg) = ALPHABET[s];
    match id {
        0 => o.read(arg != 0),
        1 => o.write(arg != 0),
        2 => o.append(arg != 0),
        3 => o.truncate(arg != 0),
        4 => o.create(arg != 0),
        5 => o.create_new(arg != 0),
        6 => o.custom_flags(match arg {
            0 => OpenFlags::empty(),
            1 => OpenFlags::O_APPEND,
            2 => OpenFlags::O_TRUNC,
            3 => OpenFlags::O_EXCL,
            4 => OpenFlags::O_DIRECTORY,
            _ => OpenFlags::O_NOFOLLOW,
        }),
        _ => o.mode(Mode::from(arg)),
    };
}

fn apply_std(o: &mut std::fs::OpenOptions, s: usize) {
    let (_, id, arg) = ALPHABET[s];
    match id {
        0 => o.read(arg != 0),
        1 => o.write(arg != 0),
        2 => o.append(arg != 0),
        3 => o.truncate(arg != 0),
        4 => o.create(arg != 0),
        5 => o.create_new(arg != 0),
        6 => o.custom_flags(match arg {
            0 => 0,
            1 => libc::O_APPEND,
            2 => libc::O_TRUNC,
            3 => libc::O_EXCL,
            4 => libc::O_DIRECTORY,
            _ => libc::O_NOFOLLOW,
        }),
        _ => o.mode(arg),
    };
}

/// h with every call removed that a later call of the same setter overrides
pub fn reduce(h: &[u8]) -> Vec<u8> {
    h.iter()
        .enumerate()
        .filter(|(i, &s)| !h[i + 1..].iter().any(|&t| ALPHABET[t as usize].1 == ALPHABET[s as usize].1))
        .map(|(_, &s)| s)
        .collect()
}

fn errno_label(e: i32) -> String {
    match e {
        libc::EINVAL => "EINVAL/bad-options".into(),
        libc::EEXIST => "EEXIST".into(),
        libc::ENOENT => "ENOENT".into(),
        libc::ENOTDIR => "ENOTDIR".into(),
        libc::ELOOP => "ELOOP".into(),
        libc::EBADF => "EBADF".into(),
        libc::EISDIR => "EISDIR".into(),
        n => format!("errno{n}"),
    }
}

fn tiny_label(e: &tiny_std::Error) -> String {
    match e {
        tiny_std::Error::Os { code, .. } => errno_label(code.raw()),
        // the builder rejects the combination itself (std reports EINVAL for the same check)
        tiny_std::Error::Uncategorized(_) => errno_label(libc::EINVAL),
        tiny_std::Error::Timeout => "timeout".into(),
    }
}

fn std_label(e: &std::io::Error) -> String {
    match e.raw_os_error() {
        Some(n) => errno_label(n),
        // std's own rejection of a flag combination carries no errno
        None if e.kind() == std::io::ErrorKind::InvalidInput => errno_label(libc::EINVAL),
        None => format!("std:{:?}", e.kind()),
    }
}

fn setup_target(dir: &Path, target: usize) {
    let t = dir.join("t");
    let real = dir.join("real");
    let _ = std::fs::remove_file(&t);
    let _ = std::fs::remove_file(&real);
    match target {
        0 => {}
        1 => {
            std::fs::write(&t, b"0123456789").expect("setup t");
            std::fs::set_permissions(&t, std::fs::Permissions::from_mode(0o640)).expect("setup mode");
        }
        _ => {
            std::fs::write(&real, b"0123456789").expect("setup real");
            std::fs::set_permissions(&real, std::fs::Permissions::from_mode(0o640)).expect("setup mode");
            symlink(Path::new("real"), &t);
        }
    }
}

fn observe(dir: &Path) -> String {
    let show = |p: &Path| -> String {
        match std::fs::symlink_metadata(p) {
            Err(_) => "absent".into(),
            Ok(m) if m.file_type().is_symlink() => format!("symlink->{:?}", std::fs::read_link(p).unwrap()),
            Ok(m) if m.is_file() => {
                format!("file[{}] mode {:o}", show_bytes(&std::fs::read(p).expect("observer read")), m.permissions().mode() & 0o7777)
            }
            Ok(_) => "other".into(),
        }
    };
    format!("t = {}, real = {}", show(&dir.join("t")), show(&dir.join("real")))
}

/// (open class, full signature) of one history on one target, for the subject or the reference
fn probe(dir: &Path, h: &[u8], target: usize, subject: bool) -> Result<(String, String), String> {
    setup_target(dir, target);
    let t = dir.join("t");
    let (open, write): (String, String) = if subject {
        let ut = ux(&p2b(&t));
        catch(|| {
            let mut o = tiny_std::fs::OpenOptions::new();
            for &s in h {
                apply_tiny(&mut o, s as usize);
            }
            match o.open(&ut) {
                Err(e) => (format!("Err({})", tiny_label(&e)), "-".to_string()),
                Ok(mut f) => {
                    let w = match f.write(b"AB") {
                        Ok(n) => format!("Ok({n})"),
                        Err(e) => format!("Err({})", tiny_label(&e)),
                    };
                    ("Ok".to_string(), w)
                }
            }
        })?
    } else {
        let mut o = std::fs::OpenOptions::new();
        for &s in h {
            apply_std(&mut o, s as usize);
        }
        match o.open(&t) {
            Err(e) => (format!("Err({})", std_label(&e)), "-".to_string()),
            Ok(mut f) => {
                let w = match std::io::Write::write(&mut f, b"AB") {
                    Ok(n) => format!("Ok({n})"),
                    Err(e) => format!("Err({})", std_label(&e)),
                };
                ("Ok".to_string(), w)
            }
        }
    };
    let sig = format!("open = {open}, write(\"AB\") = {write}, afterwards {}", observe(dir));
    Ok((open, sig))
}

pub fn names(h: &[u8]) -> Vec<&'static str> {
    h.iter().map(|&s| ALPHABET[s as usize].0).collect()
}

pub fn case_json(h: &[u8]) -> Value {
    tag_fs(json!({"phase": "builder", "op": "OpenOptions", "history": names(h)}))
}

pub fn parse_case(v: &Value) -> Option<Vec<u8>> {
    let mut h = Vec::new();
    for x in v["history"].as_array()? {
        h.push(ALPHABET.iter().position(|a| Some(a.0) == x.as_str())? as u8);
    }
    Some(h)
}

pub fn run_case(block: &Path, h: &Vec<u8>, r: &mut Report) {
    r.eval();
    r.nontrivial_unique();
    let cj = case_json(h);
    let red = reduce(h);
    let reducible = red.len() != h.len();
    for target in 0..TARGETS.len() {
        let what = format!("OpenOptions::new(){}.open(<{}>) then write(\"AB\")", names(h).iter().map(|n| format!(".{n}")).collect::<String>(), TARGETS[target]);
        set_case(&cj.to_string());
        let sub = probe(block, h, target, true);
        clear_case();
        let (open, sig) = match sub {
            Err(p) => {
                r.outcome("panic");
                r.violation("C14:OpenOptions:panic", format!("{what}: panicked: {p}"), cj.clone());
                continue;
            }
            Ok(x) => x,
        };
        r.outcome(&format!("{}:open={open}", TARGETS[target]));
        // oracle 1: last call wins
        if reducible {
            set_case(&cj.to_string());
            let base = probe(block, &red, target, true);
            clear_case();
            match base {
                Err(p) => r.violation("C14:OpenOptions:panic", format!("reduced history {:?} on <{}>: panicked: {p}", names(&red), TARGETS[target]), cj.clone()),
                Ok((_, bsig)) => {
                    if bsig != sig {
                        r.outcome("history:VIOLATION");
                        r.violation(
                            "C14:OpenOptions:setter-history-changes-open",
                            format!(
                                "{what}: {sig}; but the same builder without the overridden earlier calls, {:?}, gives: {bsig} (a setter must leave the builder as if called on a fresh one)",
                                names(&red)
                            ),
                            cj.clone(),
                        );
                    } else {
                        r.outcome("history:last-call-wins");
                    }
                }
            }
        }
        // oracle 2: the std builder driven by the same calls
        let (_, rsig) = probe(block, h, target, false).expect("reference does not panic");
        if rsig != sig {
            r.outcome("reference:VIOLATION");
            r.violation(
                "C14:OpenOptions:differs-from-std",
                format!("{what}: {sig}; std::fs::OpenOptions with the same calls: {rsig}"),
                cj.clone(),
            );
        } else {
            r.outcome("reference:same");
        }
    }
    if r.samples.len() < 2 && h.len() >= 2 {
        r.sample(cj);
    }
}

pub fn cases(thorough: bool) -> Vec<Vec<u8>> {
    let maxl = if thorough { 4 } else { 3 };
    let mut out = Vec::new();
    for_each_seq(ALPHABET.len(), maxl, |s| out.push(s.iter().map(|&x| x as u8).collect()));
    out
}

/// the builder's own state graph (state = its Debug rendering), explored in-process
fn state_graph(maxl: usize) -> (u64, u64) {
    let init = tiny_std::fs::OpenOptions::new();
    let mut seen: HashSet<String> = HashSet::new();
    seen.insert(format!("{init:?}"));
    let mut q: VecDeque<(tiny_std::fs::OpenOptions, usize)> = VecDeque::new();
    q.push_back((init, 0));
    let mut transitions = 0;
    while let Some((o, d)) = q.pop_front() {
        if d >= maxl {
            continue;
        }
        for s in 0..ALPHABET.len() {
            let mut n = o.clone();
            apply_tiny(&mut n, s);
            transitions += 1;
            if seen.insert(format!("{n:?}")) {
                q.push_back((n, d + 1));
            }
        }
    }
    (seen.len() as u64, transitions)
}

pub fn rule(thorough: bool) -> String {
    format!(
        "[OpenOptions builder histories] every sequence of <= {} setter calls from the {}-letter alphabet {:?} on a fresh tiny_std::fs::OpenOptions, then open on each of {:?} + write \"AB\", \
         observed through std::fs (content, permission bits, the symlink and its target). (1) a history and the same history without the calls overridden by a later call of the same setter must \
         behave identically; (2) std::fs::OpenOptions (+ OpenOptionsExt::mode/custom_flags) driven by the same calls must give the same Ok/Err(errno) for open and write and the same resulting files \
         (the builder's own 'bad options' error is identified with std's EINVAL). Each history once.",
        if thorough { 4 } else { 3 },
        ALPHABET.len(),
        ALPHABET.iter().map(|a| a.0).collect::<Vec<_>>(),
        TARGETS
    )
}

pub fn run_all(args: &Args, master: &Path) -> Report {
    let maxl = if args.thorough { 4 } else { 3 };
    let cs = cases(args.thorough);
    let n = cs.len();
    let sub = master.join("builder");
    std::fs::create_dir_all(&sub).expect("builder dir");
    let mut r = run_blocks(args, &sub, cs, 32, "C14", run_case, 1);
    let (states, transitions) = state_graph(maxl);
    r.states += states;
    r.transitions += transitions;
    r.bound("builder_histories", n);
    r.bound("builder_max_setter_calls", maxl);
    r.bound("builder_alphabet", ALPHABET.len());
    r.bound("builder_states", states);
    r
}

pub fn phase(args: &Args, master: &Path) -> Report {
    let mut r = run_all(args, master);
    r.rule = rule(args.thorough);
    r
}
