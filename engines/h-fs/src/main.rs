//! C14 — file-system post-conditions of tiny_std::fs (write/read/copy, create_dir_all,
//! remove_dir_all, directory iteration): bounded-exhaustive enumeration (engine E4) of
//! prior states x path shapes x tree shapes on the REAL functions inside fresh temp
//! directories, and an explicit-state search (engine E3) over operation sequences, with a
//! boring reference tree model and std::fs as the independent observer.
//!
//! Phases: mkdirall, rwcopy (includes the read_to_end grid, also alone as `readend`), readdir, rmall, seq (includes the OpenOptions builder histories, also alone as `builder`).

mod builder;
mod copysrc;
mod dirhandle;
mod dtunknown;
mod forged;
mod mkdirall;
mod mkdots;
mod mkrace;
mod readdir;
mod readend;
mod readsrc;
mod rmall;
mod rmarg;
mod rwcopy;
mod seq;
mod util;

use common::*;

fn main() {
    let args = parse_args();
    install_panic_hook();
    if let Some(p) = &args.replay {
        let v = read_replay(p);
        let mut r = Report::new();
        replay(&v, &mut r);
        for v in r.violations.values() {
            println!("VIOLATED {}: {}", v.key, v.desc);
        }
        if r.violations.is_empty() {
            println!("no violation; outcomes: {:?}", r.outcomes);
        }
        std::process::exit(if r.violations.is_empty() { 0 } else { 1 });
    }
    let phase = args.phase.clone().unwrap_or_else(|| "mkdirall".into());
    let t0 = now();
    let master = util::Master::new(&phase);
    let mut r = match phase.as_str() {
        "mkdirall" => mkdirall::phase(&args, &master.path),
        "rwcopy" => rwcopy::phase(&args, &master.path),
        "readend" => readend::phase(&args, &master.path),
        "readdir" => readdir::phase(&args, &master.path),
        "rmall" => rmall::phase(&args, &master.path),
        "seq" => seq::phase(&args, &master.path),
        "builder" => builder::phase(&args, &master.path),
        "copysrc" => copysrc::phase(&args, &master.path),
        "dirhandle" => dirhandle::phase(&args, &master.path),
        "forged" => forged::phase(&args, &master.path),
        "mkdots" => mkdots::phase(&args, &master.path),
        "mkrace" => mkrace::phase(&args, &master.path),
        "readsrc" => readsrc::phase(&args, &master.path),
        "dtunknown" => dtunknown::phase(&args, &master.path),
        "rmarg" => rmarg::phase(&args, &master.path),
        _ => panic!("unknown phase (mkdirall|mkdots|mkrace|readsrc|rwcopy|readend|copysrc|readdir|forged|dirhandle|dtunknown|rmall|rmarg|seq|builder)"),
    };
    drop(master);
    let (tb, why) = util::temp_base();
    r.bound("temp_dir", format!("{} ({why})", tb.display()));
    eprintln!("h-fs {phase}: {} cases, {} violation keys, {:.1}s", r.evaluations, r.violations.len(), t0.elapsed().as_secs_f64());
    r.write(&args.out);
}

fn replay(v: &serde_json::Value, r: &mut Report) {
    let phase = v["phase"].as_str().unwrap_or("");
    println!("replaying {v}");
    let master = if v["fs"].as_str() == Some("std-temp-dir") {
        util::ON_STD_TMP.store(true, std::sync::atomic::Ordering::SeqCst);
        util::Master::new_in(&std::env::temp_dir(), "replay")
    } else {
        util::Master::new("replay")
    };
    if v["dt_unknown"].as_bool() == Some(true) {
        util::DT_UNKNOWN_MODE.store(true, std::sync::atomic::Ordering::SeqCst);
    }
    let block = master.path.join("b0");
    std::fs::create_dir_all(&block).unwrap();
    match phase {
        "mkdirall" => mkdirall::run_case(&block, &mkdirall::MkCase::from_json(v).expect("mkdirall case"), r),
        "rwcopy" => {
            // a read / read_to_string crash record wraps the case it followed
            let v = if v.get("of").is_some() { &v["of"] } else { v };
            rwcopy::run_case(&block, &rwcopy::RwCase::from_json(v).expect("rwcopy case"), r)
        }
        "mkrace" => mkrace::run_case(&block, &mkrace::RaceCase::from_json(v).expect("mkrace case"), r),
        "readsrc" => readsrc::run_case(&block, &readsrc::RsCase::from_json(v).expect("readsrc case"), r),
        "mkdots" => mkdots::run_case(&block, &mkdots::DotCase::from_json(v).expect("mkdots case"), r),
        "copysrc" => copysrc::run_case(&block, &copysrc::CsCase::from_json(v).expect("copysrc case"), r),
        "forged" => forged::run_case(&block, &forged::FgCase::from_json(v).expect("forged case"), r),
        "rmarg" => rmarg::run_case(&block, &rmarg::RaCase::from_json(v).expect("rmarg case"), r),
        "dirhandle" => {
            if v.get("lifetime_probe").is_some() {
                dirhandle::lifetime_probe(&block, r)
            } else {
                dirhandle::run_case(&block, &dirhandle::DhCase::from_json(v).expect("dirhandle case"), r)
            }
        }
        "builder" => builder::run_case(&block, &builder::parse_case(v).expect("builder case"), r),
        "readend" => readend::run_case(&block, &readend::ReCase::from_json(v).expect("readend case"), r),
        "readdir" => {
            let known = readdir::probe_dtype(&master.path);
            readdir::DTYPE_UNKNOWN_FS.store(!known, std::sync::atomic::Ordering::SeqCst);
            readdir::run_case(&block, &readdir::RdCase::from_json(v).expect("readdir case"), r)
        }
        "rmall" => rmall::run_case(&block, &rmall::RmCase::from_json(v).expect("rmall case"), r),
        "seq" => {
            let (h, op) = seq::parse_case(v).expect("seq case");
            let (before, after) = seq::step(&block, &h, op, r);
            println!("state before: {}", util::snap_show(&before));
            println!("state after:  {}", util::snap_show(&after));
        }
        _ => panic!("replay: unknown phase {phase:?}"),
    }
    for n in &r.notes {
        println!("note: {n}");
    }
    drop(master);
}
