//! Phase "readdir": Directory::open(..).read() against std::fs::read_dir for every multiset of entries.

use crate::util::*;
use common::*;
use serde_json::{json, Value};
use std::collections::BTreeMap;
use std::os::unix::ffi::OsStrExt;
use std::os::unix::fs::FileTypeExt;
use std::path::Path;
use std::sync::atomic::{AtomicBool, Ordering};
use tiny_std::fs::FileType;

pub const KINDS: [&str; 6] = ["file", "dir", "link-to-file", "link-to-outside-dir", "dangling-link", "fifo"];
pub const LENS: [usize; 5] = [1, 8, 100, 200, 255];
const NTYPES: usize = KINDS.len() * LENS.len();

/// set when the file system of the temp dir does not fill in d_type (then `Unknown` is accepted)
pub static DTYPE_UNKNOWN_FS: AtomicBool = AtomicBool::new(false);

fn special_names() -> Vec<Vec<u8>> {
    let mut long_utf8 = "é".repeat(127).into_bytes();
    long_utf8.push(b'x');
    vec![
        b"a b".to_vec(),
        b".hidden".to_vec(),
        b"...".to_vec(),
        b"..a".to_vec(),
        b".a".to_vec(),
        "é".as_bytes().to_vec(),
        vec![0xff, 0xfe],
        b"-rf".to_vec(),
        b"line\nbreak".to_vec(),
        vec![1],
        long_utf8,
        vec![0xff; 255],
    ]
}

#[derive(Clone, Debug)]
pub enum RdCase {
    /// packed multiset: low 3 bits = count, then 5 bits per entry type (type = lenidx*6 + kind)
    Multi(u64),
    Fanout(usize),
    /// index into special_names(), or == len for "all of them"
    Special(usize),
}

fn pack(t: &[usize]) -> u64 {
    let mut v = t.len() as u64;
    for (i, &x) in t.iter().enumerate() {
        v |= (x as u64) << (3 + 5 * i);
    }
    v
}
fn unpack(v: u64) -> Vec<usize> {
    let n = (v & 7) as usize;
    (0..n).map(|i| ((v >> (3 + 5 * i)) & 31) as usize).collect()
}

impl RdCase {
    pub fn to_json(&self) -> Value {
        tag_fs(self.to_json0())
    }
    fn to_json0(&self) -> Value {
        match self {
            RdCase::Multi(v) => {
                let e: Vec<Value> = unpack(*v).iter().map(|&t| json!([KINDS[t % 6], LENS[t / 6]])).collect();
                json!({"phase": "readdir", "op": "Directory::read", "entries": e})
            }
            RdCase::Fanout(n) => json!({"phase": "readdir", "op": "Directory::read", "fanout": n}),
            RdCase::Special(i) => json!({"phase": "readdir", "op": "Directory::read", "special": i}),
        }
    }
    pub fn from_json(v: &Value) -> Option<RdCase> {
        if let Some(n) = v.get("fanout") {
            return Some(RdCase::Fanout(n.as_u64()? as usize));
        }
        if let Some(n) = v.get("special") {
            return Some(RdCase::Special(n.as_u64()? as usize));
        }
        let mut t = Vec::new();
        for e in v["entries"].as_array()? {
            let k = KINDS.iter().position(|k| Some(*k) == e[0].as_str())?;
            let l = LENS.iter().position(|l| Some(*l as u64) == e[1].as_u64())?;
            t.push(l * 6 + k);
        }
        Some(RdCase::Multi(pack(&t)))
    }
}

pub fn cases(thorough: bool) -> Vec<RdCase> {
    let maxk = if thorough { 6 } else { 4 };
    let mut out = Vec::new();
    for k in 0..=maxk {
        // non-decreasing sequences of length k over 0..NTYPES
        let mut idx = vec![0usize; k];
        'outer: loop {
            out.push(RdCase::Multi(pack(&idx)));
            let mut p = k;
            loop {
                if p == 0 {
                    break 'outer;
                }
                p -= 1;
                if idx[p] + 1 < NTYPES {
                    idx[p] += 1;
                    let v = idx[p];
                    for q in p + 1..k {
                        idx[q] = v;
                    }
                    break;
                }
            }
        }
    }
    let mut fan = vec![0usize, 1, 2, 3, 10, 100];
    if thorough {
        fan.push(5000);
    }
    for n in fan {
        out.push(RdCase::Fanout(n));
    }
    for i in 0..=special_names().len() {
        out.push(RdCase::Special(i));
    }
    out
}

/// the name of the i-th entry of a multiset
fn entry_name(i: usize, kind: usize, len: usize) -> Vec<u8> {
    if len == 1 {
        return vec![b'a' + i as u8];
    }
    let mut n = vec![KINDS[kind].as_bytes()[0], b'0' + i as u8, b'_'];
    let mut j = 0usize;
    while n.len() < len {
        n.push(b'a' + (j % 26) as u8);
        j += 1;
    }
    n
}

pub struct Outside {
    pub file: std::path::PathBuf,
    pub dir: std::path::PathBuf,
    pub missing: std::path::PathBuf,
}

/// `<case>/out/{tf, td/inner.txt, td/sub/deep.txt}`
pub fn make_outside(case_dir: &Path) -> Outside {
    let out = case_dir.join("out");
    std::fs::create_dir(&out).unwrap();
    std::fs::write(out.join("tf"), "outside target file").unwrap();
    std::fs::create_dir(out.join("td")).unwrap();
    std::fs::write(out.join("td").join("inner.txt"), "file inside the outside directory").unwrap();
    std::fs::create_dir(out.join("td").join("sub")).unwrap();
    std::fs::write(out.join("td").join("sub").join("deep.txt"), "deeper outside file").unwrap();
    Outside { file: out.join("tf"), dir: out.join("td"), missing: out.join("no-such-target") }
}

pub fn make_entry(dir: &Path, name: &[u8], kind: usize, o: &Outside) {
    let p = join(dir, name);
    match kind {
        0 => std::fs::write(&p, b"regular file content").unwrap_or_else(|e| panic!("setup file {p:?}: {e}")),
        1 => std::fs::create_dir(&p).unwrap_or_else(|e| panic!("setup dir {p:?}: {e}")),
        2 => symlink(&o.file, &p),
        3 => symlink(&o.dir, &p),
        4 => symlink(&o.missing, &p),
        5 => mkfifo(&p),
        _ => unreachable!(),
    }
}

fn tiny_type(t: FileType) -> &'static str {
    match t {
        FileType::RegularFile => "file",
        FileType::Directory => "dir",
        FileType::Symlink => "symlink",
        FileType::Fifo => "fifo",
        FileType::Unknown => "unknown",
        _ => "other",
    }
}

struct Seen {
    raw: Vec<u8>,
    name_str: Result<String, String>,
    ty: &'static str,
    relref: bool,
}

pub fn run_case(block: &Path, c: &RdCase, r: &mut Report) {
    r.eval();
    r.nontrivial_unique();
    let case_dir = fresh_case_dir(block);
    let cj = c.to_json();
    let o = make_outside(&case_dir);
    let d = case_dir.join("d");
    std::fs::create_dir(&d).unwrap();
    // name -> kind, by construction
    let mut model: BTreeMap<Vec<u8>, usize> = BTreeMap::new();
    match c {
        RdCase::Multi(v) => {
            for (i, t) in unpack(*v).into_iter().enumerate() {
                model.insert(entry_name(i, t % 6, LENS[t / 6]), t % 6);
            }
        }
        RdCase::Fanout(n) => {
            for i in 0..*n {
                model.insert(format!("e{i}").into_bytes(), i % 6);
            }
        }
        RdCase::Special(i) => {
            let names = special_names();
            if *i < names.len() {
                model.insert(names[*i].clone(), 0);
            } else {
                for (j, n) in names.into_iter().enumerate() {
                    model.insert(n, j % 6);
                }
            }
        }
    }
    for (n, k) in &model {
        make_entry(&d, n, *k, &o);
    }
    // the observer
    let mut want: BTreeMap<Vec<u8>, &'static str> = BTreeMap::new();
    for e in std::fs::read_dir(&d).expect("observer read_dir") {
        let e = e.unwrap();
        let ft = std::fs::symlink_metadata(e.path()).unwrap().file_type();
        let t = if ft.is_file() {
            "file"
        } else if ft.is_dir() {
            "dir"
        } else if ft.is_symlink() {
            "symlink"
        } else if ft.is_fifo() {
            "fifo"
        } else {
            "other"
        };
        want.insert(e.file_name().as_bytes().to_vec(), t);
    }
    assert_eq!(want.len(), model.len(), "harness: std sees a different number of entries than were created");
    // the subject
    let ud = ux(&p2b(&d));
    set_case(&cj.to_string());
    let got: Result<Result<Vec<Seen>, String>, String> = seam(|| catch(|| {
        let dir = tiny_std::fs::Directory::open(&ud).map_err(|e| format!("open: {e}"))?;
        let mut v = Vec::new();
        for ent in dir.read() {
            let ent = ent.map_err(|e| format!("iteration: {e}"))?;
            let raw = ent.file_unix_name().map_err(|e| format!("file_unix_name: {e}"))?.as_slice().to_vec();
            v.push(Seen {
                raw,
                name_str: ent.file_name().map(|s| s.to_string()).map_err(|e| format!("{e}")),
                ty: tiny_type(ent.file_type()),
                relref: ent.is_relative_reference(),
            });
        }
        Ok(v)
    }));
    clear_case();
    let label = match c {
        RdCase::Multi(_) => format!("directory with entries {}", cj["entries"]),
        RdCase::Fanout(n) => format!("directory with {n} entries e0..e{}", n.saturating_sub(1)),
        RdCase::Special(i) => format!("directory with special name(s) #{i}"),
    };
    match got {
        Err(p) => {
            r.outcome("panic");
            r.violation("C14:readdir:panic", format!("{label}: iteration panicked: {p}"), cj.clone());
        }
        Ok(Err(e)) => {
            r.outcome("err");
            r.violation("C14:readdir:iteration-error", format!("{label}: {e} (std::fs::read_dir lists it without error)"), cj.clone());
        }
        Ok(Ok(seen)) => {
            let mut count: BTreeMap<Vec<u8>, u32> = BTreeMap::new();
            let mut dots = 0;
            for s in &seen {
                // C10: the raw slice ends with exactly one NUL
                let name: Vec<u8> = match s.raw.split_last() {
                    Some((0, body)) => {
                        if body.contains(&0) {
                            r.violation(
                                "C10:DirEntry::file_unix_name:interior-nul",
                                format!("{label}: file_unix_name raw slice {} has a NUL before its end", show_bytes(&s.raw)),
                                cj.clone(),
                            );
                        }
                        body.to_vec()
                    }
                    _ => {
                        r.violation(
                            "C10:DirEntry::file_unix_name:last-byte-not-nul",
                            format!("{label}: file_unix_name raw slice {} does not end with NUL", show_bytes(&s.raw)),
                            cj.clone(),
                        );
                        s.raw.clone()
                    }
                };
                let is_dot = name == b"." || name == b"..";
                if s.relref != is_dot {
                    r.violation(
                        "C14:readdir:relative-reference-misclassified",
                        format!("{label}: is_relative_reference() = {} for the entry named {}", s.relref, show_bytes(&name)),
                        cj.clone(),
                    );
                }
                if is_dot {
                    dots += 1;
                    continue;
                }
                *count.entry(name.clone()).or_insert(0) += 1;
                match want.get(&name) {
                    None => r.violation(
                        "C14:readdir:unexpected-entry",
                        format!("{label}: yields the name {} which std::fs::read_dir does not list", show_bytes(&name)),
                        cj.clone(),
                    ),
                    Some(t) => {
                        // a file system that does not say: Unknown is recorded, not judged
                        let unknown_ok = s.ty == "unknown" && (DTYPE_UNKNOWN_FS.load(Ordering::Relaxed) || dt_unknown_mode());
                        if dt_unknown_mode() {
                            r.outcome(if s.ty == "unknown" { "dt-unknown:type-unknown" } else { "dt-unknown:type-resolved" });
                        }
                        if *t != s.ty && !unknown_ok {
                            r.violation(
                                &mode_key("C14:readdir:wrong-type"),
                                format!("{label}: entry {} has file_type() {} but std's symlink_metadata says {t}", show_bytes(&name), s.ty),
                                cj.clone(),
                            );
                        }
                    }
                }
                // file_name(): the same bytes as &str, or Err for names that are not UTF-8
                match (std::str::from_utf8(&name), &s.name_str) {
                    (Ok(u), Ok(g)) if u == g => {}
                    (Err(_), Err(_)) => r.outcome("file_name:err-not-utf8"),
                    (_, g) => r.violation(
                        "C14:readdir:file_name-differs",
                        format!("{label}: file_name() = {g:?} for the entry whose bytes are {}", show_bytes(&name)),
                        cj.clone(),
                    ),
                }
            }
            let mut okay = true;
            for n in want.keys() {
                match count.get(n) {
                    None => {
                        okay = false;
                        r.violation(
                            "C14:readdir:missing-entry",
                            format!(
                                "{label}: the entry {} ({} bytes) is never yielded ({} of {} entries seen)",
                                show_bytes(&n[..n.len().min(12)]),
                                n.len(),
                                count.len(),
                                want.len()
                            ),
                            cj.clone(),
                        );
                    }
                    Some(1) => {}
                    Some(k) => {
                        okay = false;
                        r.violation(
                            "C14:readdir:duplicate-entry",
                            format!("{label}: the entry {} is yielded {k} times", show_bytes(&n[..n.len().min(12)])),
                            cj.clone(),
                        );
                    }
                }
            }
            // how many getdents batches the listing needed (24-byte records for . and ..)
            let bytes: usize = 48 + want.keys().map(|n| (19 + n.len() + 1 + 7) / 8 * 8).sum::<usize>();
            let class = if want.is_empty() {
                "listed:empty"
            } else if bytes <= 512 {
                "listed:single-batch"
            } else {
                "listed:multi-batch"
            };
            r.outcome(if okay { class } else { "listed:VIOLATION" });
            if dots != 2 {
                r.outcome("dot-entries-not-2");
            }
        }
    }
    if r.samples.len() < 2 {
        r.sample(cj);
    }
    cleanup(&case_dir);
}

/// does the file system under the temp dir fill in d_type?
pub fn probe_dtype(master: &Path) -> bool {
    let d = master.join("probe");
    std::fs::create_dir_all(&d).unwrap();
    std::fs::write(d.join("f"), "x").unwrap();
    let c = std::ffi::CString::new(p2b(&d)).unwrap();
    let mut known = true;
    unsafe {
        let dp = libc::opendir(c.as_ptr());
        assert!(!dp.is_null());
        loop {
            let e = libc::readdir(dp);
            if e.is_null() {
                break;
            }
            if (*e).d_name[0] as u8 == b'f' && (*e).d_type == libc::DT_UNKNOWN {
                known = false;
            }
        }
        libc::closedir(dp);
    }
    cleanup(&d);
    known
}

pub fn phase(args: &Args, master: &Path) -> Report {
    let known = probe_dtype(master);
    DTYPE_UNKNOWN_FS.store(!known, Ordering::SeqCst);
    let cs = cases(args.thorough);
    let n = cs.len();
    let mut r = run_blocks(args, master, cs, 128, "C14", run_case, 1);
    if let Some(t) = second_fs() {
        // the same oracle on the std temp dir (another file system: other record order, other d_off cookies)
        let m2 = Master::new_in(&t, "readdir-2");
        let known2 = probe_dtype(&m2.path);
        DTYPE_UNKNOWN_FS.store(!known2, Ordering::SeqCst);
        ON_STD_TMP.store(true, Ordering::SeqCst);
        let sub: Vec<RdCase> = cases(args.thorough)
            .into_iter()
            .filter(|c| match c {
                RdCase::Multi(v) => (v & 7) <= 2,
                _ => true,
            })
            .collect();
        let n2 = sub.len();
        let r2 = run_blocks(args, &m2.path, sub, 16, "C14", run_case, 1);
        ON_STD_TMP.store(false, Ordering::SeqCst);
        drop(m2);
        r.outcome_n("run-on-second-file-system", n2 as u64);
        r.merge(r2);
        r.bound("second_file_system", format!("{} (multisets <= 2, all fan-outs, special names)", t.display()));
        if !known2 {
            r.note("the second file system reports DT_UNKNOWN; FileType::Unknown was accepted there");
        }
    }
    if !known {
        r.note("the file system of the temp dir reports DT_UNKNOWN; FileType::Unknown was accepted");
    }
    let maxk = if args.thorough { 6 } else { 4 };
    r.rule = format!(
        "every multiset of <= {maxk} entries over kinds {{file, dir, symlink->file, symlink->outside dir, dangling symlink, fifo}} x name lengths {{1,8,100,200,255}} (30 entry types; names made \
         unique by position) in a fresh directory, so that the 512-byte getdents64 buffer of ReadDir (fs.rs Directory::read) is split at every record boundary; plus fan-outs {} of mixed kinds and \
         {} special names (spaces, leading dots, '...', non-UTF-8, 255 bytes). Directory::open(dir).read() is drained; '.' and '..' are filtered by name; the remaining names must equal, as a multiset, \
         what std::fs::read_dir lists (each exactly once), file_type() must equal the type std::fs::symlink_metadata reports, file_name()/file_unix_name() must be the exact bytes. Each case once.",
        if args.thorough { "{0,1,2,3,10,100,5000}" } else { "{0,1,2,3,10,100}" },
        special_names().len()
    );
    for part in [crate::forged::run_all(args, master), crate::dirhandle::run_all(args, master), crate::dtunknown::run_listing(args, master)] {
        r.merge(part);
    }
    r.rule.push_str(" ");
    r.rule.push_str(&crate::forged::rule());
    r.rule.push_str(" ");
    r.rule.push_str(&crate::dirhandle::rule(args.thorough));
    r.rule.push_str(" ");
    r.rule.push_str(&crate::dtunknown::rule_listing(args.thorough));
    r.bound("cases", n);
    r.bound("max_entries_in_multiset", maxk);
    r.bound("getdents_buffer", 512);
    r
}
