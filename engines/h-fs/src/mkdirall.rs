//! Phase "mkdirall": create_dir_all over every prior state x path shape.

use crate::util::*;
use common::*;
use serde_json::{json, Value};
use std::path::{Path, PathBuf};

pub const PRIORS: [&str; 13] = [
    "nothing",
    "dir-a",
    "dir-a/b",
    "dir-a/b/c",
    "file-at-a",
    "file-at-a/b",
    // other things that are not directories in the way: each must make a successful return impossible
    "fifo-at-a",
    "socket-at-a",
    "socket-at-a/b",
    "symlink-to-file-at-a",
    "dangling-symlink-at-a",
    "chardev-symlink-at-a",
    // a symlink to a directory IS a directory for path resolution: success allowed, nothing may be lost
    "symlink-to-dir-at-a",
];
pub const LONG_PRIORS: [&str; 3] = ["nothing", "parents-exist", "all-exist"];

#[derive(Clone, Debug)]
pub enum MkCase {
    /// `path` is the string below the case directory (with the separator variant applied);
    /// `lead_double`: absolute only, the separator between the case directory and `path` is doubled
    Grid { prior: usize, path: Vec<u8>, rel: bool, lead_double: bool },
    /// a path whose TOTAL length (as handed to create_dir_all) is `total`
    Long { prior: usize, total: usize, maxc: usize, rel: bool },
}

impl MkCase {
    pub fn to_json(&self) -> Value {
        match self {
            MkCase::Grid { prior, path, rel, lead_double } => json!({
                "phase": "mkdirall", "op": "create_dir_all", "prior": PRIORS[*prior], "path": show_bytes(path),
                "mode": if *rel { "relative" } else { "absolute" }, "lead_double": lead_double,
            }),
            MkCase::Long { prior, total, maxc, rel } => json!({
                "phase": "mkdirall", "op": "create_dir_all", "long_prior": LONG_PRIORS[*prior], "total_len": total,
                "max_component": maxc, "mode": if *rel { "relative" } else { "absolute" },
            }),
        }
    }
    pub fn from_json(v: &Value) -> Option<MkCase> {
        let rel = v["mode"].as_str()? == "relative";
        if let Some(t) = v.get("total_len") {
            Some(MkCase::Long {
                prior: LONG_PRIORS.iter().position(|p| Some(*p) == v["long_prior"].as_str())?,
                total: t.as_u64()? as usize,
                maxc: v["max_component"].as_u64()? as usize,
                rel,
            })
        } else {
            Some(MkCase::Grid {
                prior: PRIORS.iter().position(|p| Some(*p) == v["prior"].as_str())?,
                path: parse_shown(v["path"].as_str()?),
                rel,
                lead_double: v["lead_double"].as_bool().unwrap_or(false),
            })
        }
    }
}

pub fn cases(thorough: bool) -> Vec<MkCase> {
    let maxn = if thorough { 5 } else { 4 };
    let sigma = [b'a', b'b', b'c'];
    let mut out = Vec::new();
    for n in 1..=maxn {
        let mut seqs = Vec::new();
        for_each_seq(3, n, |s| {
            if s.len() == n {
                seqs.push(s.to_vec());
            }
        });
        for s in seqs {
            // separator variants: plain, trailing, doubled at separator k (1..n)
            let mut variants: Vec<Vec<u8>> = Vec::new();
            let plain: Vec<u8> = s.iter().map(|&i| vec![sigma[i]]).collect::<Vec<_>>().join(&b'/');
            variants.push(plain.clone());
            let mut t = plain.clone();
            t.push(b'/');
            variants.push(t);
            for k in 1..n {
                let mut p = Vec::new();
                for (j, &i) in s.iter().enumerate() {
                    if j > 0 {
                        p.push(b'/');
                        if j == k {
                            p.push(b'/');
                        }
                    }
                    p.push(sigma[i]);
                }
                variants.push(p);
            }
            for (vi, path) in variants.iter().enumerate() {
                for rel in [true, false] {
                    for prior in 0..PRIORS.len() {
                        out.push(MkCase::Grid { prior, path: path.clone(), rel, lead_double: false });
                    }
                }
                if vi == 0 {
                    for prior in 0..PRIORS.len() {
                        out.push(MkCase::Grid { prior, path: path.clone(), rel: false, lead_double: true });
                    }
                }
            }
        }
    }
    for total in [510usize, 511, 512, 513, 1024, 4094, 4095, 4096] {
        for maxc in [255usize, 100, 1] {
            if maxc == 1 && total > 513 {
                continue;
            }
            for rel in [true, false] {
                for prior in 0..LONG_PRIORS.len() {
                    if prior == 2 && total >= 4096 {
                        continue;
                    }
                    out.push(MkCase::Long { prior, total, maxc, rel });
                }
            }
        }
    }
    out
}

/// components with sum(len) + (n-1) separators == avail, each <= maxc (one may be maxc+1 when maxc==1)
fn long_comps(avail: usize, maxc: usize) -> Vec<Vec<u8>> {
    let mut rem = avail;
    let mut out: Vec<Vec<u8>> = Vec::new();
    while rem > 0 {
        let mut c = rem.min(maxc);
        if rem - c == 1 {
            if c > 1 {
                c -= 1;
            } else {
                c += 1;
            }
        }
        let letter = b'a' + (out.len() % 26) as u8;
        out.push(vec![letter; c]);
        rem -= c;
        if rem > 0 {
            rem -= 1;
        }
    }
    out
}

fn setup_grid(case_dir: &Path, prior: usize) {
    let w = |p: &str, c: &str| std::fs::write(case_dir.join(p), c).expect("setup write");
    let d = |p: &str| std::fs::create_dir(case_dir.join(p)).expect("setup mkdir");
    match prior {
        0 => {}
        1 => {
            d("a");
            w("a/sentinel.txt", "sentinel in a");
        }
        2 => {
            d("a");
            d("a/b");
            w("a/sentinel.txt", "sentinel in a");
            w("a/b/sentinel.txt", "sentinel in a/b");
        }
        3 => {
            d("a");
            d("a/b");
            d("a/b/c");
            w("a/sentinel.txt", "sentinel in a");
            w("a/b/sentinel.txt", "sentinel in a/b");
            w("a/b/c/sentinel.txt", "sentinel in a/b/c");
        }
        4 => w("a", "i am a file called a"),
        5 => {
            d("a");
            w("a/sentinel.txt", "sentinel in a");
            w("a/b", "i am a file called a/b");
        }
        6 => {
            let c = std::ffi::CString::new(p2b(&case_dir.join("a"))).unwrap();
            assert_eq!(0, unsafe { libc::mkfifo(c.as_ptr(), 0o644) }, "setup mkfifo");
        }
        7 => {
            // a bound unix socket leaves a socket node behind
            drop(std::os::unix::net::UnixListener::bind(case_dir.join("a")).expect("setup bind"));
        }
        8 => {
            d("a");
            w("a/sentinel.txt", "sentinel in a");
            drop(std::os::unix::net::UnixListener::bind(case_dir.join("a/b")).expect("setup bind"));
        }
        9 => {
            w("target-file", "i am the target of a");
            std::os::unix::fs::symlink("target-file", case_dir.join("a")).expect("setup symlink");
        }
        10 => std::os::unix::fs::symlink("no-such-target", case_dir.join("a")).expect("setup symlink"),
        11 => std::os::unix::fs::symlink("/dev/null", case_dir.join("a")).expect("setup symlink"),
        12 => {
            d("target-dir");
            w("target-dir/sentinel.txt", "sentinel in target-dir");
            std::os::unix::fs::symlink("target-dir", case_dir.join("a")).expect("setup symlink");
        }
        _ => unreachable!(),
    }
}

pub fn run_case(block: &Path, c: &MkCase, r: &mut Report) {
    r.eval();
    r.nontrivial_unique();
    let case_dir = fresh_case_dir(block);
    let case_json = c.to_json();
    let rel = match c {
        MkCase::Grid { rel, .. } | MkCase::Long { rel, .. } => *rel,
    };
    // `base`: what the observer joins component prefixes to ("" = cwd in relative mode)
    let base: PathBuf = if rel {
        std::env::set_current_dir(&case_dir).expect("chdir into case dir");
        PathBuf::new()
    } else {
        case_dir.clone()
    };
    let abs_prefix = {
        let mut p = p2b(&case_dir);
        p.push(b'/');
        p
    };
    // the path string handed to create_dir_all and its components below the case dir
    let (given, comps): (Vec<u8>, Vec<Vec<u8>>) = match c {
        MkCase::Grid { prior, path, rel, lead_double } => {
            setup_grid(&case_dir, *prior);
            let comps: Vec<Vec<u8>> = path.split(|&b| b == b'/').filter(|s| !s.is_empty()).map(|s| s.to_vec()).collect();
            let given = if *rel {
                path.clone()
            } else {
                let mut g = abs_prefix.clone();
                if *lead_double {
                    g.push(b'/');
                }
                g.extend_from_slice(path);
                g
            };
            (given, comps)
        }
        MkCase::Long { prior, total, maxc, rel } => {
            let avail = if *rel { *total } else { *total - abs_prefix.len() };
            let comps = long_comps(avail, *maxc);
            let rel_path = comps.join(&b'/');
            let given = if *rel {
                rel_path.clone()
            } else {
                let mut g = abs_prefix.clone();
                g.extend_from_slice(&rel_path);
                g
            };
            assert_eq!(given.len(), *total, "harness: long path construction");
            let upto = match prior {
                0 => 0,
                1 => comps.len() - 1,
                _ => comps.len(),
            };
            if upto > 0 {
                let pre = comps[..upto].join(&b'/');
                std::fs::create_dir_all(join(&base, &pre)).expect("setup long prior");
                std::fs::write(join(&base, &comps[0]).join("sentinel.txt"), "sentinel in first component").expect("setup sentinel");
            }
            (given, comps)
        }
    };
    let before = snapshot(&base);
    let upath = ux(&given);
    set_case(&case_json.to_string());
    let res = catch(|| tiny_std::fs::create_dir_all(&upath).map_err(|e| format!("{e}")));
    clear_case();
    let shown = if given.len() > 80 {
        format!("<{} bytes, {} components below the case dir>", given.len(), comps.len())
    } else if rel {
        show_bytes(&given)
    } else {
        format!("<case dir>/{}", show_bytes(&given[abs_prefix.len()..]))
    };
    let prior_name = match c {
        MkCase::Grid { prior, .. } => PRIORS[*prior],
        MkCase::Long { prior, .. } => LONG_PRIORS[*prior],
    };
    match res {
        Err(p) => {
            r.outcome("panic");
            r.violation(
                "C14:create_dir_all:panic",
                format!("create_dir_all({shown}) [prior state: {prior_name}] panicked: {p}"),
                case_json.clone(),
            );
        }
        Ok(Err(_e)) => {
            // the statement constrains success only
            let blocked = first_non_dir(&base, &comps, &before);
            r.outcome(if blocked { "err:file-in-the-way" } else { "err:other" });
            if !blocked && r.notes.len() < 3 {
                r.note(format!("create_dir_all({shown}) [prior state: {prior_name}] = Err({_e}) although nothing is in the way (accepted: the statement constrains success)"));
            }
        }
        Ok(Ok(())) => {
            let after = snapshot(&base);
            // every prefix must be a directory now
            let mut bad: Option<(&'static str, String)> = None;
            let mut acc: Vec<u8> = Vec::new();
            for (i, comp) in comps.iter().enumerate() {
                if i > 0 {
                    acc.push(b'/');
                }
                acc.extend_from_slice(comp);
                let p = join(&base, &acc);
                let what = if acc.len() > 60 { format!("component prefix #{}", i + 1) } else { show_bytes(&acc) };
                match std::fs::metadata(&p) {
                    Ok(md) if md.is_dir() => {}
                    Ok(_) => {
                        bad = Some(("ok-but-file-in-the-way", format!("{what} is not a directory")));
                        break;
                    }
                    Err(e) => {
                        let trimmed: &[u8] = {
                            let mut t: &[u8] = &given;
                            while t.last() == Some(&b'/') {
                                t = &t[..t.len() - 1];
                            }
                            t
                        };
                        let parent_preexisted = if i == 0 {
                            true
                        } else {
                            let par = comps[..i].join(&b'/');
                            before.get(&par) == Some(&Node::Dir)
                        };
                        let kind = if !trimmed.contains(&b'/') {
                            "ok-but-missing"
                        } else if parent_preexisted {
                            "ok-but-missing-below-existing-dir"
                        } else {
                            "ok-but-missing-partial"
                        };
                        bad = Some((kind, format!("{what} does not exist ({e})")));
                        break;
                    }
                }
            }
            if let Some((kind, why)) = bad {
                r.outcome("ok:VIOLATION");
                r.violation(
                    &format!("C14:create_dir_all:{kind}"),
                    format!("create_dir_all({shown}) [prior state: {prior_name}] returned Ok but {why}"),
                    case_json.clone(),
                );
            } else if snap_diff(&before, &after).is_none() {
                r.outcome("ok:already-complete");
            } else {
                r.outcome("ok:created");
            }
            if let Some(d) = snap_preserved(&before, &after) {
                r.violation(
                    "C14:create_dir_all:existing-content-changed",
                    format!("create_dir_all({shown}) [prior state: {prior_name}] returned Ok and {d}"),
                    case_json.clone(),
                );
            }
        }
    }
    if r.samples.len() < 2 {
        r.sample(case_json);
    }
    cleanup(&case_dir);
}

/// true when some proper-or-full prefix of the requested path pre-existed as a non-directory
fn first_non_dir(_base: &Path, comps: &[Vec<u8>], before: &Snap) -> bool {
    let mut acc: Vec<u8> = Vec::new();
    for (i, comp) in comps.iter().enumerate() {
        if i > 0 {
            acc.push(b'/');
        }
        acc.extend_from_slice(comp);
        match before.get(&acc) {
            Some(Node::Dir) => {}
            Some(_) => return true,
            None => return false,
        }
    }
    false
}

pub fn phase(args: &Args, master: &Path) -> Report {
    let cs = cases(args.thorough);
    let n = cs.len();
    let mut r = run_blocks(args, master, cs, 48, "C14", run_case, 2);
    r.rule = format!(
        "every prior state of {{nothing, dirs a | a/b | a/b/c (each with a sentinel file), a FILE at a, a FILE at a/b}} x every path of 1..{} components over {{a,b,c}} \
         x {{relative (after chdir into the fresh case directory, in a forked shard), absolute}} x {{plain, trailing '/', '/' doubled at each separator position \
         (absolute: also at the join with the case directory)}}; plus paths whose TOTAL length is 510,511,512,513,1024,4094,4095,4096 built from components of at most \
         255/100/1 bytes x {{nothing exists, all ancestors exist, everything exists}} x {{relative, absolute}}. Each case is generated once, runs the real \
         tiny_std::fs::create_dir_all in a fresh directory, and is judged through std::fs (symlink_metadata of every prefix, recursive listing before/after).",
        if args.thorough { 5 } else { 4 }
    );
    let r2 = crate::mkdots::run_all(args, master);
    r.merge(r2);
    r.rule.push_str(" ");
    r.rule.push_str(&crate::mkdots::rule(args.thorough));
    let r3 = crate::mkrace::run_all(args, master);
    r.merge(r3);
    r.rule.push_str(" ");
    r.rule.push_str(&crate::mkrace::rule());
    r.bound("cases", n);
    r.bound("max_components", if args.thorough { 5 } else { 4 });
    r.bound("long_totals", "510 511 512 513 1024 4094 4095 4096");
    r
}
