//! Phase "rmall": remove_dir_all / Directory::remove_all over every small tree shape.

use crate::readdir::{make_entry, make_outside, KINDS};
use crate::util::*;
use common::*;
use serde_json::{json, Value};
use std::path::Path;

#[derive(Clone, Debug, PartialEq, Eq, PartialOrd, Ord)]
pub enum T {
    /// kind index into readdir::KINDS (never 1)
    Leaf(usize),
    Dir(Vec<T>),
}

const LEAVES: [(usize, u8); 5] = [(0, b'f'), (2, b'L'), (3, b'D'), (4, b'X'), (5, b'p')];

impl T {
    fn enc(&self, out: &mut String) {
        match self {
            T::Leaf(k) => out.push(LEAVES.iter().find(|l| l.0 == *k).unwrap().1 as char),
            T::Dir(ch) => {
                out.push('d');
                out.push('(');
                for c in ch {
                    c.enc(out);
                }
                out.push(')');
            }
        }
    }
}

pub fn enc_forest(f: &[T]) -> String {
    let mut s = String::new();
    for t in f {
        t.enc(&mut s);
    }
    s
}

pub fn dec_forest(s: &[u8], pos: &mut usize) -> Vec<T> {
    let mut out = Vec::new();
    while *pos < s.len() && s[*pos] != b')' {
        let c = s[*pos];
        *pos += 1;
        if c == b'd' {
            assert_eq!(s[*pos], b'(');
            *pos += 1;
            let ch = dec_forest(s, pos);
            assert_eq!(s[*pos], b')');
            *pos += 1;
            out.push(T::Dir(ch));
        } else {
            out.push(T::Leaf(LEAVES.iter().find(|l| l.1 == c).expect("tree letter").0));
        }
    }
    out
}

fn trees_of_size(s: usize, depth: usize) -> Vec<T> {
    let mut out = Vec::new();
    if depth == 0 || s == 0 {
        return out;
    }
    if s == 1 {
        for (k, _) in LEAVES {
            out.push(T::Leaf(k));
        }
        out.push(T::Dir(vec![]));
    } else if depth >= 2 {
        for f in forests_exact(s - 1, depth - 1) {
            out.push(T::Dir(f));
        }
    }
    out
}

/// all multisets of trees (each of depth <= `depth`) with exactly `n` nodes in total
pub fn forests_exact(n: usize, depth: usize) -> Vec<Vec<T>> {
    let mut all: Vec<(usize, T)> = Vec::new();
    for s in 1..=n {
        for t in trees_of_size(s, depth) {
            all.push((s, t));
        }
    }
    let mut out = Vec::new();
    fn rec(all: &[(usize, T)], start: usize, rem: usize, cur: &mut Vec<T>, out: &mut Vec<Vec<T>>) {
        if rem == 0 {
            out.push(cur.clone());
            return;
        }
        for i in start..all.len() {
            if all[i].0 <= rem {
                cur.push(all[i].1.clone());
                rec(all, i, rem - all[i].0, cur, out);
                cur.pop();
            }
        }
    }
    rec(&all, 0, n, &mut Vec::new(), &mut out);
    out
}

pub const VARIANTS: [&str; 4] = ["remove_dir_all", "remove_dir_all-trailing-slash", "remove_dir_all-relative", "Directory::remove_all"];

#[derive(Clone, Debug)]
pub enum RmCase {
    Tree { forest: String, long_names: bool, variant: usize },
    Fan { n: usize, variant: usize },
    /// outside the statement (observation only): the path handed to remove_dir_all is itself a symlink to a directory
    RootIsLink,
}

impl RmCase {
    pub fn to_json(&self) -> Value {
        tag_fs(self.to_json0())
    }
    fn to_json0(&self) -> Value {
        match self {
            RmCase::Tree { forest, long_names, variant } => {
                json!({"phase": "rmall", "op": VARIANTS[*variant], "tree": forest, "names": if *long_names { "200-bytes" } else { "short" }})
            }
            RmCase::Fan { n, variant } => json!({"phase": "rmall", "op": VARIANTS[*variant], "fanout": n}),
            RmCase::RootIsLink => json!({"phase": "rmall", "op": "remove_dir_all", "root_is_symlink": true}),
        }
    }
    pub fn from_json(v: &Value) -> Option<RmCase> {
        if v.get("root_is_symlink").is_some() {
            return Some(RmCase::RootIsLink);
        }
        let variant = VARIANTS.iter().position(|x| Some(*x) == v["op"].as_str())?;
        if let Some(n) = v.get("fanout") {
            return Some(RmCase::Fan { n: n.as_u64()? as usize, variant });
        }
        Some(RmCase::Tree { forest: v["tree"].as_str()?.to_string(), long_names: v["names"].as_str()? != "short", variant })
    }
}

pub fn cases(thorough: bool) -> Vec<RmCase> {
    let maxn = if thorough { 6 } else { 4 };
    let mut out = Vec::new();
    for n in 0..=maxn {
        for f in forests_exact(n, 3) {
            let enc = enc_forest(&f);
            for long_names in [false, true] {
                if n == 0 && long_names {
                    continue;
                }
                for variant in 0..VARIANTS.len() {
                    out.push(RmCase::Tree { forest: enc.clone(), long_names, variant });
                }
            }
        }
    }
    let mut fans = vec![10usize, 100, 1000];
    if thorough {
        fans.push(5000);
    }
    for n in fans {
        for variant in 0..VARIANTS.len() {
            out.push(RmCase::Fan { n, variant });
        }
    }
    out.push(RmCase::RootIsLink);
    out
}

fn child_name(i: usize, long: bool) -> Vec<u8> {
    let mut n = format!("n{i}").into_bytes();
    if long {
        n.push(b'_');
        let mut j = 0;
        while n.len() < 200 {
            n.push(b'a' + (j % 26) as u8);
            j += 1;
        }
    }
    n
}

fn build(dir: &Path, forest: &[T], long: bool, o: &crate::readdir::Outside) {
    for (i, t) in forest.iter().enumerate() {
        let name = child_name(i, long);
        match t {
            T::Leaf(k) => make_entry(dir, &name, *k, o),
            T::Dir(ch) => {
                make_entry(dir, &name, 1, o);
                build(&join(dir, &name), ch, long, o);
            }
        }
    }
}

pub fn run_case(block: &Path, c: &RmCase, r: &mut Report) {
    r.eval();
    r.nontrivial_unique();
    let case_dir = fresh_case_dir(block);
    let cj = c.to_json();
    let o = make_outside(&case_dir);
    std::fs::write(case_dir.join("sibling.txt"), "sibling file of the root").unwrap();
    std::fs::create_dir(case_dir.join("sibling.d")).unwrap();
    std::fs::write(case_dir.join("sibling.d").join("x"), "file in the sibling directory").unwrap();
    symlink(&o.dir, &case_dir.join("sibling.link"));
    let root = case_dir.join("root");
    let (variant, label): (usize, String) = match c {
        RmCase::Tree { forest, long_names, variant } => {
            std::fs::create_dir(&root).unwrap();
            let f = dec_forest(forest.as_bytes(), &mut 0);
            build(&root, &f, *long_names, &o);
            (*variant, format!("tree root/[{forest}] ({} names)", if *long_names { "200-byte" } else { "short" }))
        }
        RmCase::Fan { n, variant } => {
            std::fs::create_dir(&root).unwrap();
            for i in 0..*n {
                let name = format!("e{i}").into_bytes();
                make_entry(&root, &name, i % 6, &o);
                if i % 6 == 1 {
                    let sub = join(&root, &name);
                    std::fs::write(sub.join("f1"), "x").unwrap();
                    std::fs::write(sub.join("f2"), "y").unwrap();
                    symlink(&o.dir, &sub.join("to-outside"));
                }
            }
            (*variant, format!("root with {n} entries of mixed kinds"))
        }
        RmCase::RootIsLink => {
            symlink(&o.dir, &root);
            (0, "root is a symlink to the outside directory".to_string())
        }
    };
    let strip_root = |mut s: Snap| -> Snap {
        s.retain(|k, _| !(k == b"root" || k.starts_with(b"root/")));
        s
    };
    let before = snapshot(&case_dir);
    let given: Vec<u8> = match variant {
        1 => {
            let mut p = p2b(&root);
            p.push(b'/');
            p
        }
        2 => {
            std::env::set_current_dir(&case_dir).expect("chdir");
            b"root".to_vec()
        }
        _ => p2b(&root),
    };
    let up = ux(&given);
    set_case(&cj.to_string());
    let res = seam(|| {
        if variant == 3 {
            catch(|| {
                let d = tiny_std::fs::Directory::open(&up).map_err(|e| format!("open: {e}"))?;
                d.remove_all().map_err(|e| format!("{e}"))
            })
        } else {
            catch(|| tiny_std::fs::remove_dir_all(&up).map_err(|e| format!("{e}")))
        }
    });
    clear_case();
    let _ = std::env::set_current_dir("/");
    let opname = if variant == 3 { "remove_all" } else { "remove_dir_all" };
    let vname = VARIANTS[variant];
    let after = snapshot(&case_dir);
    let outside_diff = snap_diff(&strip_root(before.clone()), &strip_root(after.clone()));
    if let RmCase::RootIsLink = c {
        let oc = match (&res, &outside_diff) {
            (Ok(Ok(())), None) => "root-is-symlink:ok-target-intact".to_string(),
            (Ok(Ok(())), Some(_)) => "root-is-symlink:ok-target-emptied".to_string(),
            (Ok(Err(_)), None) => "root-is-symlink:err-target-intact".to_string(),
            (Ok(Err(_)), Some(_)) => "root-is-symlink:err-target-emptied".to_string(),
            (Err(_), _) => "root-is-symlink:panic".to_string(),
        };
        r.outcome(&oc);
        r.note(format!(
            "observation outside the statement: remove_dir_all(<symlink to a directory>) -> {:?}; target: {}",
            res,
            outside_diff.clone().unwrap_or_else(|| "unchanged".into())
        ));
        cleanup(&case_dir);
        return;
    }
    match res {
        Err(p) => {
            r.outcome("panic");
            r.violation(&format!("C14:{opname}:panic"), format!("{vname} on {label}: panicked: {p}"), cj.clone());
        }
        Ok(Err(e)) => {
            // the statement constrains success only: recorded, not judged
            if r.notes.len() < 4 {
                r.note(format!("{vname} on {label}: Err({e}) (accepted: the statement constrains success)"));
            }
            match &outside_diff {
                None => r.outcome(if dt_unknown_mode() { "dt-unknown:types-unknown,remove-fails" } else { "err" }),
                Some(d) if dt_unknown_mode() => {
                    // whatever is returned: what a link inside the tree points to is not the tree
                    r.outcome("err:VIOLATION");
                    r.violation(
                        &format!("C14:{opname}:outside-changed(dt-unknown)"),
                        format!("{vname} on {label}, directory records without a type: returned Err({e}) and outside the tree {d}"),
                        cj.clone(),
                    );
                }
                Some(d) => {
                    r.outcome("err:outside-touched");
                    r.note(format!("{vname} on {label}: returned Err({e}) AND outside the tree {d} (outside the statement, not judged)"));
                }
            }
        }
        Ok(Ok(())) => {
            let mut okay = true;
            if variant == 3 {
                // children gone, the directory itself stays
                let left: Vec<_> = after.keys().filter(|k| k.starts_with(b"root/")).collect();
                if after.get(&b"root"[..]) != Some(&Node::Dir) || !left.is_empty() {
                    okay = false;
                    r.violation(
                        "C14:remove_all:ok-but-not-empty",
                        format!("{vname} on {label}: returned Ok but {} entries are left below the directory", left.len()),
                        cj.clone(),
                    );
                }
            } else {
                match std::fs::symlink_metadata(&root) {
                    Err(e) if e.kind() == std::io::ErrorKind::NotFound => {}
                    other => {
                        okay = false;
                        r.violation(
                            "C14:remove_dir_all:ok-but-exists",
                            format!(
                                "{vname} on {label}: returned Ok but std::fs::symlink_metadata(root) = {}",
                                match other {
                                    Ok(m) => format!("Ok({:?})", m.file_type()),
                                    Err(e) => format!("Err({e})"),
                                }
                            ),
                            cj.clone(),
                        );
                    }
                }
            }
            if let Some(d) = &outside_diff {
                okay = false;
                let key = if dt_unknown_mode() { format!("C14:{opname}:outside-changed(dt-unknown)") } else { format!("C14:{opname}:outside-touched") };
                r.violation(&key, format!("{vname} on {label}: returned Ok and outside the tree {d}"), cj.clone());
            }
            let has_links = before.iter().any(|(k, n)| k.starts_with(b"root/") && matches!(n, Node::Link(_)));
            let depth = before.keys().filter(|k| k.starts_with(b"root/")).map(|k| k.iter().filter(|&&b| b == b'/').count()).max().unwrap_or(0);
            r.outcome(&if okay { format!("ok:depth{depth}{}", if has_links { "+links" } else { "" }) } else { "ok:VIOLATION".to_string() });
        }
    }
    if r.samples.len() < 2 {
        r.sample(cj);
    }
    cleanup(&case_dir);
}

pub fn phase(args: &Args, master: &Path) -> Report {
    let cs = cases(args.thorough);
    let n = cs.len();
    let mut r = run_blocks(args, master, cs, 96, "C14", run_case, 1);
    if let Some(t) = second_fs() {
        // the same oracle on the std temp dir (another file system: hash-ordered directories, deletion while iterating)
        let m2 = Master::new_in(&t, "rmall-2");
        ON_STD_TMP.store(true, std::sync::atomic::Ordering::SeqCst);
        let fan_max = if args.thorough { 5000 } else { 100 };
        let sub: Vec<RmCase> = cases(args.thorough)
            .into_iter()
            .filter(|c| match c {
                RmCase::Tree { forest, .. } => forest.bytes().filter(|b| b.is_ascii_alphabetic()).count() <= 2,
                RmCase::Fan { n, .. } => *n <= fan_max,
                RmCase::RootIsLink => false,
            })
            .collect();
        let n2 = sub.len();
        let r2 = run_blocks(args, &m2.path, sub, 16, "C14", run_case, 1);
        ON_STD_TMP.store(false, std::sync::atomic::Ordering::SeqCst);
        drop(m2);
        r.outcome_n("run-on-second-file-system", n2 as u64);
        r.merge(r2);
        r.bound("second_file_system", format!("{} (trees <= 2 nodes, fan-outs <= {fan_max})", t.display()));
    }
    let maxn = if args.thorough { 6 } else { 4 };
    r.rule = format!(
        "every tree with <= {maxn} nodes below the root and depth <= 3 whose nodes are {{file, dir, symlink->outside file, symlink->outside directory (which holds files and a subdirectory), dangling symlink, fifo}} \
         (children as multisets: sibling order is not distinguished) x names {{short, 200 bytes (so every directory needs several getdents batches)}} x {{remove_dir_all(abs), remove_dir_all(abs + '/'), \
         remove_dir_all(relative, after chdir), Directory::open(abs).remove_all()}}; plus fan-outs {} of mixed kinds (sub-directories hold files and a symlink to the outside directory). \
         After Ok: std::fs::symlink_metadata(root) is NotFound (remove_all: root is an empty directory) and the recursive std::fs listing (kinds, contents, link targets) of everything else in the case \
         directory -- the outside tree, a sibling file, a sibling directory, a sibling symlink -- is identical to the listing before. Kinds: {:?}. Each case once.",
        if args.thorough { "{10,100,1000,5000}" } else { "{10,100,1000}" },
        KINDS
    );
    let r3 = crate::rmarg::run_all(args, master);
    r.merge(r3);
    r.rule.push_str(" ");
    r.rule.push_str(&crate::rmarg::rule());
    let r4 = crate::dtunknown::run_removal(args, master);
    r.merge(r4);
    r.rule.push_str(" ");
    r.rule.push_str(&crate::dtunknown::rule_removal(args.thorough));
    r.bound("cases", n);
    r.bound("max_nodes", maxn);
    r.bound("max_depth", 3);
    r
}
