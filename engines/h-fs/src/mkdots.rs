//! Part "mkdots" of phase "mkdirall" (also alone as `--phase mkdots`): create_dir_all on paths whose
//! component NAMES contain dots -- ".", "..", and ordinary names that merely look like them
//! ("...", "x..", "..x", "a b..") -- at every position, against std::fs::create_dir_all run on a
//! twin directory in the same prior state.
//!
//! C14: after create_dir_all succeeds the directory and all its ancestors exist and existing content
//! is untouched.  Asked for in addition: it does not fail where std::fs::create_dir_all succeeds.

use crate::util::*;
use common::*;
use serde_json::{json, Value};
use std::path::{Path, PathBuf};

pub const NAMES: [&str; 11] = ["a", ".", "..", "...", "x.", "x..", "..x", ".x", "x..y", "a b..", "...."];
pub const PRIORS: [&str; 3] = ["nothing", "dir-a", "first-component-exists"];
/// the working directory sits this deep inside the case directory, so that ".." stays inside it
const DEPTH: usize = 4;

#[derive(Clone, Debug)]
pub struct DotCase {
    pub comps: Vec<u8>,
    pub trailing: bool,
    pub rel: bool,
    pub prior: usize,
}

impl DotCase {
    fn path(&self) -> String {
        let mut p = self.comps.iter().map(|&c| NAMES[c as usize]).collect::<Vec<_>>().join("/");
        if self.trailing {
            p.push('/');
        }
        p
    }
    pub fn to_json(&self) -> Value {
        json!({"phase": "mkdots", "op": "create_dir_all", "path": self.path(), "mode": if self.rel { "relative" } else { "absolute" }, "prior": PRIORS[self.prior]})
    }
    pub fn from_json(v: &Value) -> Option<DotCase> {
        let p = v["path"].as_str()?;
        let trailing = p.ends_with('/');
        let mut comps = Vec::new();
        for c in p.trim_end_matches('/').split('/') {
            comps.push(NAMES.iter().position(|n| *n == c)? as u8);
        }
        Some(DotCase { comps, trailing, rel: v["mode"].as_str()? == "relative", prior: PRIORS.iter().position(|x| Some(*x) == v["prior"].as_str())? })
    }
}

pub fn cases(thorough: bool) -> Vec<DotCase> {
    let maxn = if thorough { 4 } else { 3 };
    let mut out = Vec::new();
    for_each_seq(NAMES.len(), maxn, |s| {
        if s.is_empty() || s.iter().all(|&c| c == 0) {
            return; // the all-plain paths are the main grid's
        }
        for trailing in [false, true] {
            for rel in [true, false] {
                for prior in 0..PRIORS.len() {
                    out.push(DotCase { comps: s.iter().map(|&x| x as u8).collect(), trailing, rel, prior });
                }
            }
        }
    });
    out
}

/// `<twin>/w/w/w/w`, the prior state created in it
fn make_twin(twin: &Path, c: &DotCase) -> PathBuf {
    let mut wd = twin.to_path_buf();
    for _ in 0..DEPTH {
        wd.push("w");
    }
    std::fs::create_dir_all(&wd).expect("twin");
    std::fs::write(twin.join("w").join("sentinel.txt"), "above the working directory").unwrap();
    match c.prior {
        1 => {
            std::fs::create_dir(wd.join("a")).unwrap();
            std::fs::write(wd.join("a").join("sentinel.txt"), "sentinel in a").unwrap();
        }
        2 => {
            let first = NAMES[c.comps[0] as usize];
            if first != "." && first != ".." {
                std::fs::create_dir(wd.join(first)).unwrap();
                std::fs::write(wd.join(first).join("sentinel.txt"), "sentinel in the first component").unwrap();
            }
        }
        _ => {}
    }
    wd
}

pub fn run_case(block: &Path, c: &DotCase, r: &mut Report) {
    r.eval();
    r.nontrivial_unique();
    let case_dir = fresh_case_dir(block);
    let cj = c.to_json();
    let path = c.path();
    let run = |twin: &Path, subject: bool| -> (Result<Result<(), String>, String>, Snap, Snap, Vec<(String, bool)>) {
        let wd = make_twin(twin, c);
        let before = snapshot(twin);
        std::env::set_current_dir(&wd).expect("chdir");
        let given: Vec<u8> = if c.rel {
            path.as_bytes().to_vec()
        } else {
            let mut g = p2b(&wd);
            g.push(b'/');
            g.extend_from_slice(path.as_bytes());
            g
        };
        let res = if subject {
            let up = ux(&given);
            set_case(&cj.to_string());
            let x = catch(|| tiny_std::fs::create_dir_all(&up).map_err(|e| format!("{e}")));
            clear_case();
            x
        } else {
            Ok(std::fs::create_dir_all(b2p(&given)).map_err(|e| format!("{e}")))
        };
        // every prefix of the given path (cut before each separator) as the kernel resolves it
        let mut prefixes = Vec::new();
        let rel_start = given.len() - path.len();
        for i in rel_start..=given.len() {
            let at_end = i == given.len();
            if (at_end || given[i] == b'/') && i > rel_start && given[i - 1] != b'/' {
                let p = &given[..i];
                let is_dir = std::fs::metadata(b2p(p)).map(|m| m.is_dir()).unwrap_or(false);
                prefixes.push((String::from_utf8_lossy(&p[rel_start..]).to_string(), is_dir));
            }
        }
        let _ = std::env::set_current_dir("/");
        let after = snapshot(twin);
        (res, before, after, prefixes)
    };
    let (res, before, after, prefixes) = run(&case_dir.join("subject"), true);
    let (sres, _sb, safter, _sp) = run(&case_dir.join("reference"), false);
    let std_ok = matches!(sres, Ok(Ok(())));
    let what = format!("create_dir_all({:?}) [{}, prior state: {}]", path, if c.rel { "relative" } else { "absolute" }, PRIORS[c.prior]);
    match res {
        Err(p) => {
            r.outcome("panic");
            r.violation("C14:create_dir_all:panic", format!("{what}: panicked: {p}"), cj.clone());
        }
        Ok(Err(e)) => {
            if std_ok {
                r.outcome("err:VIOLATION");
                r.violation(
                    "C14:create_dir_all:fails-where-std-succeeds",
                    format!("{what}: Err({e}) while std::fs::create_dir_all on a twin directory succeeds"),
                    cj.clone(),
                );
            } else {
                r.outcome("err:std-fails-too");
            }
        }
        Ok(Ok(())) => {
            let missing: Vec<&str> = prefixes.iter().filter(|p| !p.1).map(|p| p.0.as_str()).collect();
            if !missing.is_empty() {
                r.outcome("ok:VIOLATION");
                r.violation(
                    "C14:create_dir_all:ok-but-missing",
                    format!("{what}: returned Ok but {:?} is not a directory afterwards (std::fs::metadata)", missing[0]),
                    cj.clone(),
                );
            } else if !std_ok {
                r.outcome("ok:std-fails(not-judged)");
            } else if after == safter {
                r.outcome("ok:same-tree-as-std");
            } else {
                r.outcome("ok:tree-differs-from-std(not-judged)");
            }
            if let Some(d) = snap_preserved(&before, &after) {
                r.violation("C14:create_dir_all:existing-content-changed", format!("{what}: returned Ok and {d}"), cj.clone());
            }
        }
    }
    if r.samples.len() < 1 {
        r.sample(cj);
    }
    cleanup(&case_dir);
}

pub fn rule(thorough: bool) -> String {
    format!(
        "[dotted component names] every path of 1..={} components over the names {:?} with at least one dotted name x {{plain, trailing '/'}} x {{relative, absolute}} x prior state {:?}, the working \
         directory {DEPTH} levels inside the fresh case directory so that '..' stays inside it; the same call is made with std::fs::create_dir_all on a twin directory. After Ok every prefix of the path \
         (as the kernel resolves it) is a directory (std::fs::metadata) and pre-existing entries are untouched; an Err is a violation only where std succeeds.",
        if thorough { 4 } else { 3 },
        NAMES,
        PRIORS
    )
}

pub fn run_all(args: &Args, master: &Path) -> Report {
    let cs = cases(args.thorough);
    let n = cs.len();
    let sub = master.join("mkdots");
    std::fs::create_dir_all(&sub).expect("mkdots dir");
    let mut r = run_blocks(args, &sub, cs, 32, "C14", run_case, 1);
    r.bound("dotted_name_cases", n);
    r
}

pub fn phase(args: &Args, master: &Path) -> Report {
    let mut r = run_all(args, master);
    r.rule = rule(args.thorough);
    r
}
