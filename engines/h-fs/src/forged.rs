//! Part "forged" of phase "readdir" (also alone as `--phase forged`): directory records that no
//! local file system hands out (names of 256 bytes and more: FUSE allows 1024) are forged, once
//! directly into `rusl::platform::Dirent::try_from_bytes` and once as the answer to the real
//! getdents64 call of `ReadDir::next` through the syscall seam (sysx).  Property C10: a name
//! that reaches the caller is its exact bytes followed by exactly one NUL; nothing panics.

use crate::util::*;
use common::*;
use rusl::platform::Dirent;
use serde_json::{json, Value};
use std::path::Path;

pub const NAME_LENS: [usize; 12] = [1, 2, 8, 100, 254, 255, 256, 257, 258, 300, 480, 486];

fn name_of(len: usize, tag: u8) -> Vec<u8> {
    (0..len).map(|i| if i == 0 { tag } else { b'a' + (i % 26) as u8 }).collect()
}

/// one linux_dirent64 record: ino, off, reclen, type, name, NUL, padding to 8
fn record(name: &[u8], d_type: u8) -> Vec<u8> {
    let reclen = (19 + name.len() + 1 + 7) / 8 * 8;
    let mut r = Vec::with_capacity(reclen);
    r.extend_from_slice(&77u64.to_ne_bytes());
    r.extend_from_slice(&1i64.to_ne_bytes());
    r.extend_from_slice(&(reclen as u16).to_ne_bytes());
    r.push(d_type);
    r.extend_from_slice(name);
    r.resize(reclen, 0);
    r
}

#[derive(Clone, Debug)]
pub enum FgCase {
    /// Dirent::try_from_bytes on one crafted record (followed by `trailing` more bytes of a next record)
    Direct { len: usize, trailing: bool },
    /// ReadDir::next over a forged getdents64 answer made of records with these name lengths
    Iter { lens: Vec<usize> },
}

impl FgCase {
    pub fn to_json(&self) -> Value {
        match self {
            FgCase::Direct { len, trailing } => json!({"phase": "forged", "op": "Dirent::try_from_bytes", "name_len": len, "followed_by_next_record": trailing}),
            FgCase::Iter { lens } => json!({"phase": "forged", "op": "ReadDir::next", "name_lens": lens}),
        }
    }
    pub fn from_json(v: &Value) -> Option<FgCase> {
        if let Some(l) = v.get("name_lens") {
            return Some(FgCase::Iter { lens: l.as_array()?.iter().filter_map(|x| x.as_u64().map(|n| n as usize)).collect() });
        }
        Some(FgCase::Direct { len: v["name_len"].as_u64()? as usize, trailing: v["followed_by_next_record"].as_bool().unwrap_or(false) })
    }
}

pub fn cases() -> Vec<FgCase> {
    let mut out = Vec::new();
    for len in NAME_LENS.iter().copied().chain([1000usize, 4095]) {
        for trailing in [false, true] {
            out.push(FgCase::Direct { len, trailing });
        }
    }
    // batches that fit the 512-byte buffer of ReadDir
    for &l in &NAME_LENS {
        out.push(FgCase::Iter { lens: vec![l] });
    }
    for &l in &NAME_LENS {
        if 24 + (19 + l + 1 + 7) / 8 * 8 + 24 <= 512 {
            out.push(FgCase::Iter { lens: vec![2, l, 2] });
        }
    }
    out
}

struct Forge {
    batch: Vec<u8>,
    served: usize,
}

impl sysx::Plan for Forge {
    fn decide(&mut self, _idx: usize, nr: i64, args: &[u64; 6]) -> sysx::Decision {
        if nr != libc::SYS_getdents64 {
            return sysx::Decision::Pass;
        }
        self.served += 1;
        if self.served > 1 {
            return sysx::Decision::Force(0);
        }
        let cap = args[2] as usize;
        if self.batch.len() > cap {
            return sysx::Decision::Force(-(libc::EINVAL as i64));
        }
        unsafe { std::ptr::copy_nonoverlapping(self.batch.as_ptr(), args[1] as *mut u8, self.batch.len()) };
        sysx::Decision::Force(self.batch.len() as i64)
    }
}

pub fn run_case(block: &Path, c: &FgCase, r: &mut Report) {
    r.eval();
    r.nontrivial_unique();
    let cj = c.to_json();
    match c {
        FgCase::Direct { len, trailing } => {
            let name = name_of(*len, b'N');
            let mut buf = record(&name, 8);
            if *trailing {
                buf.extend_from_slice(&record(b"next", 8));
            }
            set_case(&cj.to_string());
            let res = catch(|| unsafe { Dirent::try_from_bytes(&buf) }.map(|d| (d.d_name, d.d_reclen)));
            clear_case();
            let what = format!("Dirent::try_from_bytes on a well-formed record whose name has {len} bytes");
            match res {
                Err(p) => {
                    r.outcome("direct:panic");
                    r.violation("C10:Dirent::try_from_bytes:panic", format!("{what}: panicked: {p}"), cj.clone());
                }
                Ok(None) => {
                    r.outcome(if *len <= 255 { "direct:none-for-representable-name" } else { "direct:none-for-too-long-name" });
                    if *len <= 255 {
                        r.violation("C10:Dirent::try_from_bytes:rejects-valid-name", format!("{what}: returned None although a name of up to 255 bytes fits"), cj.clone());
                    }
                }
                Ok(Some((d_name, reclen))) => {
                    r.outcome("direct:some");
                    let nul = d_name.iter().position(|&b| b == 0);
                    if nul.map(|n| &d_name[..n]) != Some(&name[..]) {
                        r.violation(
                            "C10:Dirent::try_from_bytes:name-not-exact-or-unterminated",
                            format!("{what}: d_name holds {} bytes before its first NUL ({}), not the {len}-byte name", nul.map(|n| n.to_string()).unwrap_or("no NUL, 256".into()), if nul.is_none() { "unterminated" } else { "terminated" }),
                            cj.clone(),
                        );
                    }
                    if reclen as usize != (19 + len + 1 + 7) / 8 * 8 {
                        r.violation("C10:Dirent::try_from_bytes:wrong-reclen", format!("{what}: d_reclen = {reclen}"), cj.clone());
                    }
                }
            }
        }
        FgCase::Iter { lens } => {
            if !sysx::arm() {
                r.outcome("iter:seam-unavailable");
                r.note("Syscall User Dispatch is not available: ReadDir was not driven over forged getdents64 answers");
                return;
            }
            let names: Vec<Vec<u8>> = lens.iter().enumerate().map(|(i, &l)| name_of(l, b'A' + i as u8)).collect();
            let mut batch = Vec::new();
            for n in &names {
                batch.extend_from_slice(&record(n, 8));
            }
            let d = block.join("forged-empty-dir");
            let _ = std::fs::create_dir(&d);
            let ud = ux(&p2b(&d));
            let mut plan = Forge { batch, served: 0 };
            set_case(&cj.to_string());
            // items: Ok(raw unix name) | Err(message); at most 64 items
            let (res, _log) = sysx::run(&mut plan, || {
                catch(|| {
                    let dir = tiny_std::fs::Directory::open(&ud).map_err(|e| format!("open: {e}"))?;
                    let mut items: Vec<Result<Vec<u8>, String>> = Vec::new();
                    for ent in dir.read() {
                        if items.len() >= 64 {
                            return Err("endless".to_string());
                        }
                        match ent {
                            Ok(e) => items.push(e.file_unix_name().map(|u| u.as_slice().to_vec()).map_err(|e| format!("file_unix_name: {e}"))),
                            Err(e) => items.push(Err(format!("{e}"))),
                        }
                    }
                    Ok(items)
                })
            });
            clear_case();
            let what = format!("ReadDir::next over a getdents64 answer holding records with names of {lens:?} bytes");
            match res {
                Err(p) => {
                    r.outcome("iter:panic");
                    r.violation("C10:ReadDir::next:panic", format!("{what}: panicked: {p}"), cj.clone());
                }
                Ok(Err(e)) if e == "endless" => {
                    r.outcome("iter:endless");
                    r.violation("C10:ReadDir::next:endless", format!("{what}: the iterator does not end"), cj.clone());
                }
                Ok(Err(e)) => {
                    r.outcome("iter:open-failed");
                    r.note(format!("{what}: {e}"));
                }
                Ok(Ok(items)) => {
                    // every Ok item must be, in order, one of the forged names with exactly one NUL at the end;
                    // an unrepresentable (>= 256 byte) name may only show up as an Err item or end the iteration
                    let mut next = 0usize;
                    let mut bad = false;
                    let mut errs = 0;
                    for it in &items {
                        match it {
                            Err(_) => errs += 1,
                            Ok(raw) => {
                                let body_ok = raw.last() == Some(&0) && !raw[..raw.len() - 1].contains(&0);
                                let body = if raw.last() == Some(&0) { &raw[..raw.len() - 1] } else { &raw[..] };
                                let pos = names[next.min(names.len())..].iter().position(|n| n.as_slice() == body);
                                match (body_ok, pos) {
                                    (true, Some(p)) if body.len() <= 255 => next += p + 1,
                                    _ => {
                                        bad = true;
                                        r.violation(
                                            "C10:ReadDir::next:wrong-name",
                                            format!("{what}: yields a name of {} bytes ({}) that is not the exact bytes of a forged record + one NUL", raw.len(), show_bytes(&raw[..raw.len().min(16)])),
                                            cj.clone(),
                                        );
                                    }
                                }
                            }
                        }
                    }
                    let all_short = lens.iter().all(|&l| l <= 255);
                    if all_short && (next != names.len() || errs > 0) {
                        bad = true;
                        r.violation(
                            "C10:ReadDir::next:drops-representable-name",
                            format!("{what}: only {next} of {} records were yielded ({errs} error items)", names.len()),
                            cj.clone(),
                        );
                    }
                    r.outcome(if bad {
                        "iter:VIOLATION"
                    } else if all_short {
                        "iter:all-yielded"
                    } else if errs > 0 {
                        "iter:too-long-name-reported-as-error"
                    } else {
                        "iter:too-long-name-ends-iteration"
                    });
                }
            }
        }
    }
    if r.samples.len() < 2 {
        r.sample(cj);
    }
}

pub fn rule() -> String {
    format!(
        "[forged directory records] well-formed linux_dirent64 records with names of {:?} (+1000, 4095 for the parser) bytes: (a) handed to rusl::platform::Dirent::try_from_bytes, alone and followed by a next record; \
         (b) as the answer to the real getdents64 call of Directory::read()'s iterator through the syscall seam (single record, and short/long/short batches that fit its 512-byte buffer). No panic; a returned \
         name is the exact bytes + exactly one NUL; names up to 255 bytes are all yielded; a longer name may only surface as None / an Err item / the end of the iteration.",
        NAME_LENS
    )
}

pub fn run_all(args: &Args, master: &Path) -> Report {
    let block = master.join("forged");
    let cs = cases();
    let n = cs.len();
    let items = vec![isolated("forged", move || {
        let mut r = Report::new();
        std::fs::create_dir_all(&block).expect("forged dir");
        for c in &cs {
            run_case(&block, c, &mut r);
        }
        cleanup(&block);
        r.samples.truncate(1);
        r
    })];
    let mut r = run_isolated(items, &args.out, "C10");
    r.bound("forged_record_cases", n);
    r
}

pub fn phase(args: &Args, master: &Path) -> Report {
    let mut r = run_all(args, master);
    r.rule = rule();
    r
}
