//! Part "dirhandle" of phase "readdir" (also alone as `--phase dirhandle`): histories of calls on
//! ONE `Directory` handle -- every sequence of <= 3 (thorough 4) operations from {read to the end,
//! read k entries and drop the iterator, two iterators drained alternately, remove_all} -- and a
//! compile-time probe of the lifetime of the iterator `Directory::read` returns.
//!
//! C14: "directory iteration yields every entry exactly once"; "after remove succeeds the tree is gone".

use crate::util::*;
use common::*;
use serde_json::{json, Value};
use std::collections::BTreeMap;
use std::os::unix::ffi::OsStrExt;
use std::path::Path;

pub const OPS: [&str; 5] = ["read-to-end", "read-1-entry", "read-3-entries", "two-interleaved-iterators", "remove_all"];

#[derive(Clone, Debug)]
pub struct DhCase {
    pub n: usize,
    pub ops: Vec<u8>,
}

impl DhCase {
    pub fn to_json(&self) -> Value {
        json!({"phase": "dirhandle", "op": "Directory", "entries": self.n, "history": self.ops.iter().map(|&o| OPS[o as usize]).collect::<Vec<_>>()})
    }
    pub fn from_json(v: &Value) -> Option<DhCase> {
        let mut ops = Vec::new();
        for x in v["history"].as_array()? {
            ops.push(OPS.iter().position(|o| Some(*o) == x.as_str())? as u8);
        }
        Some(DhCase { n: v["entries"].as_u64()? as usize, ops })
    }
}

pub fn cases(thorough: bool) -> Vec<DhCase> {
    let sizes: &[usize] = if thorough { &[0, 1, 2, 3, 10, 16, 17, 20, 40, 100] } else { &[0, 1, 3, 20, 40] };
    let maxl = if thorough { 4 } else { 3 };
    let mut seqs: Vec<Vec<u8>> = Vec::new();
    for_each_seq(OPS.len(), maxl, |s| {
        if !s.is_empty() {
            seqs.push(s.iter().map(|&x| x as u8).collect());
        }
    });
    let mut out = Vec::new();
    for s in &seqs {
        for &n in sizes {
            out.push(DhCase { n, ops: s.clone() });
        }
    }
    out
}

/// names (without "." and "..") std::fs sees in `d`
fn std_names(d: &Path) -> BTreeMap<Vec<u8>, u32> {
    let mut m = BTreeMap::new();
    for e in std::fs::read_dir(d).expect("observer read_dir") {
        m.insert(e.unwrap().file_name().as_bytes().to_vec(), 0u32);
    }
    m
}

/// drain up to `limit` entries of one iterator: Ok(names incl. dots) or Err(message)
fn take(it: &mut tiny_std::fs::ReadDir<'_>, limit: usize) -> Result<Vec<Vec<u8>>, String> {
    let mut v = Vec::new();
    while v.len() < limit {
        match it.next() {
            None => break,
            Some(Err(e)) => return Err(format!("iteration: {e}")),
            Some(Ok(ent)) => {
                let raw = ent.file_unix_name().map_err(|e| format!("file_unix_name: {e}"))?.as_slice().to_vec();
                v.push(raw[..raw.len().saturating_sub(1)].to_vec());
            }
        }
    }
    Ok(v)
}

fn no_dots(v: Vec<Vec<u8>>) -> Vec<Vec<u8>> {
    v.into_iter().filter(|n| n != b"." && n != b"..").collect()
}

/// compare one complete iteration with what std lists; returns (missing, duplicated, unexpected)
fn compare(got: &[Vec<u8>], want: &BTreeMap<Vec<u8>, u32>) -> (usize, usize, usize) {
    let mut c = want.clone();
    let mut unexpected = 0;
    for g in got {
        match c.get_mut(g) {
            Some(k) => *k += 1,
            None => unexpected += 1,
        }
    }
    (c.values().filter(|&&k| k == 0).count(), c.values().filter(|&&k| k > 1).count(), unexpected)
}

pub fn run_case(block: &Path, c: &DhCase, r: &mut Report) {
    r.eval();
    r.nontrivial_unique();
    let case_dir = fresh_case_dir(block);
    let cj = c.to_json();
    let d = case_dir.join("d");
    std::fs::create_dir(&d).unwrap();
    for i in 0..c.n {
        let p = d.join(format!("e{i}"));
        if i % 3 == 1 {
            std::fs::create_dir(&p).unwrap();
            std::fs::write(p.join("inner"), "x").unwrap();
        } else {
            std::fs::write(&p, "content").unwrap();
        }
    }
    std::fs::write(case_dir.join("sibling.txt"), "sibling").unwrap();
    let ud = ux(&p2b(&d));
    let hist = |k: usize| -> String { format!("{:?}", c.ops[..k].iter().map(|&o| OPS[o as usize]).collect::<Vec<_>>()) };
    set_case(&cj.to_string());
    let opened = catch(|| tiny_std::fs::Directory::open(&ud).map_err(|e| format!("{e}")));
    clear_case();
    let dir = match opened {
        Ok(Ok(d)) => d,
        other => {
            let why = match other {
                Err(p) => format!("panicked: {p}"),
                Ok(Err(e)) => e,
                Ok(Ok(_)) => unreachable!(),
            };
            r.violation("C14:readdir:iteration-error", format!("Directory::open of a directory with {} entries: {why}", c.n), cj.clone());
            cleanup(&case_dir);
            return;
        }
    };
    let mut okay = true;
    for (k, &op) in c.ops.iter().enumerate() {
        let want = std_names(&d);
        let earlier = k > 0;
        let ctx = format!("one Directory handle on a directory with {} entries, after {}: {}", want.len(), hist(k), OPS[op as usize]);
        set_case(&cj.to_string());
        match op {
            0 | 1 | 2 => {
                let limit = match op {
                    0 => usize::MAX,
                    1 => 1,
                    _ => 3,
                };
                let res = catch(|| {
                    let mut it = dir.read();
                    take(&mut it, limit)
                });
                clear_case();
                match res {
                    Err(p) => {
                        okay = false;
                        r.violation("C14:readdir:panic", format!("{ctx}: panicked: {p}"), cj.clone());
                    }
                    Ok(Err(e)) => {
                        okay = false;
                        r.violation("C14:readdir:iteration-error", format!("{ctx}: {e}"), cj.clone());
                    }
                    Ok(Ok(got)) if op == 0 => {
                        let (missing, dup, unexp) = compare(&no_dots(got), &want);
                        if missing + dup + unexp > 0 {
                            okay = false;
                            let (key, word) = if !earlier {
                                (if missing > 0 { "C14:readdir:missing-entry" } else if dup > 0 { "C14:readdir:duplicate-entry" } else { "C14:readdir:unexpected-entry" }, "")
                            } else if missing > 0 {
                                ("C14:Directory::read:reread-missing-entry", " (the handle had been iterated before; the descriptor's position is not rewound)")
                            } else {
                                ("C14:Directory::read:reread-wrong-entries", "")
                            };
                            r.violation(key, format!("{ctx}: {missing} of {} entries are never yielded, {dup} more than once, {unexp} unknown names{word}", want.len()), cj.clone());
                        }
                    }
                    Ok(Ok(got)) => {
                        // a partial read: distinct names that exist (dots allowed)
                        let mut seen = std::collections::BTreeSet::new();
                        for g in &got {
                            let known = g == b"." || g == b".." || want.contains_key(g);
                            if !known || !seen.insert(g.clone()) {
                                okay = false;
                                r.violation("C14:Directory::read:partial-wrong-entry", format!("{ctx}: yields {} (unknown or repeated)", show_bytes(g)), cj.clone());
                            }
                        }
                    }
                }
            }
            3 => {
                let res = catch(|| {
                    let mut a = dir.read();
                    let mut b = dir.read();
                    let (mut va, mut vb) = (Vec::new(), Vec::new());
                    let (mut da, mut db) = (false, false);
                    while !(da && db) {
                        if !da {
                            let x = take(&mut a, 1)?;
                            da = x.is_empty();
                            va.extend(x);
                        }
                        if !db {
                            let x = take(&mut b, 1)?;
                            db = x.is_empty();
                            vb.extend(x);
                        }
                        if va.len() + vb.len() > 10_000 {
                            return Err("endless".to_string());
                        }
                    }
                    Ok((va, vb))
                });
                clear_case();
                match res {
                    Err(p) => {
                        okay = false;
                        r.violation("C14:readdir:panic", format!("{ctx}: panicked: {p}"), cj.clone());
                    }
                    Ok(Err(e)) => {
                        okay = false;
                        r.violation("C14:readdir:iteration-error", format!("{ctx}: {e}"), cj.clone());
                    }
                    Ok(Ok((va, vb))) => {
                        let ca = compare(&no_dots(va), &want);
                        let cb = compare(&no_dots(vb), &want);
                        if ca != (0, 0, 0) || cb != (0, 0, 0) {
                            okay = false;
                            r.violation(
                                "C14:Directory::read:interleaved-iterators-split-entries",
                                format!(
                                    "{ctx}: of {} entries the first iterator misses {} and the second misses {} (duplicates {}/{}, unknown {}/{}): the two iterators share one descriptor position",
                                    want.len(), ca.0, cb.0, ca.1, cb.1, ca.2, cb.2
                                ),
                                cj.clone(),
                            );
                        }
                    }
                }
            }
            _ => {
                let before = snapshot(&case_dir);
                let res = catch(|| dir.remove_all().map_err(|e| format!("{e}")));
                clear_case();
                match res {
                    Err(p) => {
                        okay = false;
                        r.violation("C14:remove_all:panic", format!("{ctx}: panicked: {p}"), cj.clone());
                    }
                    Ok(Err(_)) => r.outcome("remove_all:err"),
                    Ok(Ok(())) => {
                        let left = std_names(&d).len();
                        if left > 0 {
                            okay = false;
                            if earlier {
                                r.violation(
                                    "C14:remove_all:ok-but-not-empty-after-read",
                                    format!("{ctx}: returned Ok(()) but {left} of {} entries are still there (the handle had been iterated before)", want.len()),
                                    cj.clone(),
                                );
                            } else {
                                r.violation("C14:remove_all:ok-but-not-empty", format!("{ctx}: returned Ok(()) but {left} entries are still there"), cj.clone());
                            }
                        }
                        let mut b2 = before.clone();
                        let mut a2 = snapshot(&case_dir);
                        b2.retain(|k, _| !k.starts_with(b"d/"));
                        a2.retain(|k, _| !k.starts_with(b"d/"));
                        if let Some(df) = snap_diff(&b2, &a2) {
                            okay = false;
                            r.violation("C14:remove_all:outside-touched", format!("{ctx}: {df}"), cj.clone());
                        }
                    }
                }
            }
        }
    }
    drop(dir);
    r.outcome(&if okay { format!("handle-history:len{}:conforming", c.ops.len()) } else { "handle-history:VIOLATION".to_string() });
    if r.samples.len() < 1 && c.ops.len() >= 2 {
        r.sample(cj);
    }
    cleanup(&case_dir);
}

// ---------------------------------------------------------------------------
// F5: may the iterator outlive the Directory it reads from?  Decided by the compiler: a three-line
// library is compiled against the tiny_std rlib this harness was linked with.

const PROBE_BAD: &str = "pub fn probe(d: tiny_std::fs::Directory) -> tiny_std::fs::ReadDir<'static> { let it = d.read(); drop(d); it }\n";
const PROBE_CTL: &str = "pub fn control(d: &tiny_std::fs::Directory) -> usize { d.read().count() }\n";

fn rustc_accepts(dir: &Path, name: &str, src: &str, deps: &Path, rlib: &Path) -> Option<(bool, String)> {
    let f = dir.join(format!("{name}.rs"));
    std::fs::write(&f, src).ok()?;
    let out = std::process::Command::new("rustc")
        .args(["--edition", "2021", "--crate-type", "lib", "--emit=metadata", "--cap-lints", "allow"])
        .arg("-L")
        .arg(format!("dependency={}", deps.display()))
        .arg("--extern")
        .arg(format!("tiny_std={}", rlib.display()))
        .arg("-o")
        .arg(dir.join(format!("lib{name}.rmeta")))
        .arg(&f)
        .output()
        .ok()?;
    let err = String::from_utf8_lossy(&out.stderr);
    let first = err.lines().find(|l| l.starts_with("error")).unwrap_or("").to_string();
    Some((out.status.success(), first))
}

pub fn lifetime_probe(master: &Path, r: &mut Report) {
    r.eval();
    r.nontrivial_unique();
    let cj = json!({"phase": "dirhandle", "op": "Directory::read", "lifetime_probe": true});
    let dir = master.join("lifetime-probe");
    let _ = std::fs::create_dir_all(&dir);
    let found = (|| {
        let exe = std::env::current_exe().ok()?;
        let deps = exe.parent()?.join("deps");
        let mut rlibs: Vec<(std::time::SystemTime, std::path::PathBuf)> = std::fs::read_dir(&deps)
            .ok()?
            .filter_map(|e| e.ok())
            .filter(|e| {
                let n = e.file_name();
                let n = n.to_string_lossy();
                n.starts_with("libtiny_std-") && n.ends_with(".rlib")
            })
            .filter_map(|e| Some((e.metadata().ok()?.modified().ok()?, e.path())))
            .collect();
        rlibs.sort();
        Some((deps, rlibs.pop()?.1))
    })();
    let verdict = found.and_then(|(deps, rlib)| {
        let ctl = rustc_accepts(&dir, "ctl", PROBE_CTL, &deps, &rlib)?;
        if !ctl.0 {
            return Some(Err(format!("the control program does not compile against {}: {}", rlib.display(), ctl.1)));
        }
        let bad = rustc_accepts(&dir, "bad", PROBE_BAD, &deps, &rlib)?;
        Some(Ok(bad))
    });
    match verdict {
        None => {
            r.outcome("lifetime-probe:not-run");
            r.note("lifetime probe not run: rustc or the tiny_std rlib next to this executable was not found");
        }
        Some(Err(why)) => {
            r.outcome("lifetime-probe:not-run");
            r.note(format!("lifetime probe not run: {why}"));
        }
        Some(Ok((true, _))) => {
            r.outcome("lifetime-probe:VIOLATION");
            r.violation(
                "C14:Directory::read:iterator-outlives-directory",
                "the compiler accepts `fn probe(d: Directory) -> ReadDir<'static> { let it = d.read(); drop(d); it }`: Directory::read<'a>(&self) -> ReadDir<'a> does not tie the iterator to the \
                 handle, so safe code can keep iterating after the Directory was dropped (its descriptor number closed and possibly reused by another open)",
                cj,
            );
        }
        Some(Ok((false, first))) => {
            r.outcome("lifetime-probe:rejected-by-compiler");
            r.note(format!("lifetime probe: keeping the iterator beyond the Directory is rejected ({first})"));
        }
    }
    let _ = std::fs::remove_dir_all(&dir);
}

pub fn rule(thorough: bool) -> String {
    format!(
        "[Directory handle histories] every sequence of 1..={} operations from {:?} on ONE tiny_std::fs::Directory opened on a fresh directory with n entries (files and sub-directories with content), \
         n in {}: every complete iteration must yield exactly the names std::fs::read_dir lists at that moment, each once (also when the handle was iterated before, and for each of two iterators drained \
         alternately); after remove_all returns Ok std::fs must see the directory empty and its surroundings unchanged. Plus one compile-time probe: a function returning the iterator after dropping the \
         Directory must be rejected by the compiler (a control function using the same API must be accepted).",
        if thorough { 4 } else { 3 },
        OPS,
        if thorough { "{0,1,2,3,10,16,17,20,40,100}" } else { "{0,1,3,20,40}" }
    )
}

pub fn run_all(args: &Args, master: &Path) -> Report {
    let cs = cases(args.thorough);
    let n = cs.len();
    let sub = master.join("dirhandle");
    std::fs::create_dir_all(&sub).expect("dirhandle dir");
    let mut r = run_blocks(args, &sub, cs, 32, "C14", run_case, 1);
    lifetime_probe(&sub, &mut r);
    r.bound("handle_history_cases", n);
    r
}

pub fn phase(args: &Args, master: &Path) -> Report {
    let mut r = run_all(args, master);
    r.rule = rule(args.thorough);
    r
}
