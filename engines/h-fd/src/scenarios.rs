//! The scenarios of C12: each is a closure run under the syscall seam that performs one
//! public operation (or a short composite) and hands back the value the caller would
//! hold together with the descriptors that value owns.  Everything in `init`,
//! `prepare`, `cleanup` runs outside the seam (std / libc / natively executed tiny-std).
//!
//! FEATURE-SET dimension: with the cargo feature `noalloc` (crate `noalloc/`, tiny-std built
//! without `alloc`) only the entry points that differ under `cfg(not(feature = "alloc"))` are
//! kept: the free function `process::spawn` (same stdio grid) and `fs::create_dir_all`.
#![cfg_attr(feature = "noalloc", allow(dead_code, unused_imports))]

use crate::child_guard;
use rusl::platform::{Fd, WindowSize};
use rusl::string::unix_str::{UnixStr, UnixString};
use rusl::unix_lit;
use std::any::Any;
use std::time::Duration;
use tiny_std::fs::{self, Directory, File, FileType, OpenOptions};
use tiny_std::linux::epoll::{EpollDriver, EpollEvent, EpollEventMask, EpollTimeout};
use tiny_std::net::{Ip, SocketAddress, TcpListener, TcpStream, TcpTryConnect, UnixListener, UnixStream};
#[cfg(not(feature = "noalloc"))]
use tiny_std::process::Command;
use tiny_std::process::{Child, Stdio};
use tiny_std::unix::fd::{AsRawFd, OwnedFd};

pub enum Res {
    Ok(String),
    None,
    Err(String),
}

pub struct Ret {
    pub res: Res,
    /// descriptors reachable from (owned by) the returned value
    pub owned: Vec<i32>,
    /// the returned value, kept alive until the harness drops it under the seam
    pub held: Option<Box<dyn Any>>,
}

pub struct Env {
    pub dir: String,
    /// descriptors whose ownership the operation is handed (Stdio::RawFd, from_raw)
    pub given: Vec<i32>,
    /// descriptors only LENT to the operation (`Stdio::RawFd`): they stay the caller's and must be open,
    /// the same file and with the same flags afterwards, whatever the operation returns
    pub lent: Vec<i32>,
    /// trouble the scenario closure itself noticed with descriptors of its own (e.g. its close() answered EBADF)
    pub complaints: Vec<String>,
    pub ustd: Option<std::os::unix::net::UnixListener>,
    pub tstd: Option<std::net::TcpListener>,
    pub port: u16,
    pub clients: Vec<Box<dyn Any>>,
    pub ul: Option<UnixListener>,
    pub tl: Option<TcpListener>,
    pub aux: Vec<i32>,
    pub termios: Option<rusl::platform::Termios>,
}

impl Env {
    pub fn new(_name: &str) -> Env {
        let dir = format!("/tmp/hfd-{}", unsafe { libc::getpid() });
        let _ = std::fs::remove_dir_all(&dir);
        std::fs::create_dir_all(&dir).expect("scratch dir");
        Env { dir, given: vec![], lent: vec![], complaints: vec![], ustd: None, tstd: None, port: 0, clients: vec![], ul: None, tl: None, aux: vec![], termios: None }
    }
    pub fn remove(&mut self) {
        self.clients.clear();
        self.ustd = None;
        self.tstd = None;
        let _ = std::fs::remove_dir_all(&self.dir);
    }
    pub fn path(&self, n: &str) -> String {
        format!("{}/{}", self.dir, n)
    }
    pub fn u(&self, n: &str) -> UnixString {
        UnixString::try_from_string(self.path(n)).unwrap()
    }
    pub fn file(&self, n: &str, content: &[u8]) {
        std::fs::write(self.path(n), content).unwrap();
    }
    pub fn rm(&self, n: &str) {
        let p = self.path(n);
        let _ = std::fs::remove_file(&p);
        let _ = std::fs::remove_dir_all(&p);
    }
}

type Hook = Box<dyn FnMut(&mut Env)>;

pub struct Scn {
    pub name: String,
    pub init: Option<Hook>,
    pub prepare: Option<Hook>,
    pub op: Box<dyn FnMut(&mut Env) -> Ret>,
    pub cleanup: Option<Hook>,
    pub fini: Option<Hook>,
    /// dropping the returned value must release what it owns (false for plain-data handles such as `TerminalHandle`)
    pub drop_releases: bool,
    /// the scenario works on the process's own stdin: not run from start states with 0..2 closed
    pub fixed_stdio: bool,
    /// 0: full enumeration; 1: quick tier stops at single deviations (pairs in the thorough tier);
    /// 2: argument-domain variant — quick tier runs the fault-free case and the drop only (single deviations in the thorough tier)
    pub light: u8,
    pub label: Option<Box<dyn Fn(&str, usize, usize) -> Option<String>>>,
}

pub(crate) fn scn(name: &str, op: impl FnMut(&mut Env) -> Ret + 'static) -> Scn {
    Scn { name: name.to_string(), init: None, prepare: None, op: Box::new(op), cleanup: None, fini: None, drop_releases: true, fixed_stdio: false, light: 0, label: None }
}
impl Scn {
    pub(crate) fn init(mut self, f: impl FnMut(&mut Env) + 'static) -> Self {
        self.init = Some(Box::new(f));
        self
    }
    pub(crate) fn prep(mut self, f: impl FnMut(&mut Env) + 'static) -> Self {
        self.prepare = Some(Box::new(f));
        self
    }
    pub(crate) fn clean(mut self, f: impl FnMut(&mut Env) + 'static) -> Self {
        self.cleanup = Some(Box::new(f));
        self
    }
    pub(crate) fn fixed_stdio(mut self) -> Self {
        self.fixed_stdio = true;
        self
    }
    pub(crate) fn light(mut self, l: u8) -> Self {
        self.light = l;
        self
    }
    pub(crate) fn plain_handle(mut self) -> Self {
        self.drop_releases = false;
        self
    }
    pub(crate) fn label(mut self, f: impl Fn(&str, usize, usize) -> Option<String> + 'static) -> Self {
        self.label = Some(Box::new(f));
        self
    }
}

pub(crate) fn mk<T: 'static, E: std::fmt::Debug>(r: Result<T, E>, fds: impl FnOnce(&T) -> Vec<i32>) -> Ret {
    match r {
        Ok(v) => {
            let owned = fds(&v);
            Ret { res: Res::Ok(format!("owning {owned:?}")), owned, held: Some(Box::new(v)) }
        }
        Err(e) => Ret { res: Res::Err(format!("{e:?}")), owned: vec![], held: None },
    }
}
pub(crate) fn mk_opt<T: 'static, E: std::fmt::Debug>(r: Result<Option<T>, E>, fds: impl FnOnce(&T) -> Vec<i32>) -> Ret {
    match r {
        Ok(Some(v)) => mk::<T, E>(Ok(v), fds),
        Ok(None) => Ret { res: Res::None, owned: vec![], held: None },
        Err(e) => Ret { res: Res::Err(format!("{e:?}")), owned: vec![], held: None },
    }
}
pub(crate) fn nofd<T>(_: &T) -> Vec<i32> {
    vec![]
}
pub(crate) fn fd_of<T: AsRawFd>(t: &T) -> Vec<i32> {
    vec![t.as_raw_fd().value()]
}
/// The descriptor inside a single-field wrapper around `OwnedFd` that offers no accessor
/// (`Directory`, `UnixListener`, `TcpListener`, `EpollDriver`).
pub(crate) fn peek<T>(t: &T) -> Vec<i32> {
    assert_eq!(std::mem::size_of::<T>(), std::mem::size_of::<OwnedFd>());
    vec![unsafe { std::ptr::read(t as *const T as *const i32) }]
}
/// `OwnedFd(N)` inside a Debug rendering
pub(crate) fn fd_from_debug(s: &str) -> Vec<i32> {
    let Some(i) = s.find("OwnedFd(") else { return vec![] };
    let rest = &s[i + 8..];
    let inner = rest.trim_start_matches("NonNegativeI32(");
    let num: String = inner.chars().take_while(|c| c.is_ascii_digit()).collect();
    num.parse().map(|n| vec![n]).unwrap_or_default()
}
pub(crate) fn child_fds(c: &Child) -> Vec<i32> {
    [&c.stdin, &c.stdout, &c.stderr].iter().filter_map(|p| p.as_ref()).map(|p| p.borrow_fd().as_raw_fd().value()).collect()
}
pub(crate) fn fdv(n: i32) -> Fd {
    Fd::try_new(n).unwrap()
}

pub(crate) const TRUE: &UnixStr = unix_lit!("/bin/true");
pub(crate) const MISSING_BIN: &UnixStr = unix_lit!("/nonexistent/hfd-no-such-binary");

pub(crate) fn devnull() -> i32 {
    unsafe { libc::open(c"/dev/null".as_ptr(), libc::O_RDWR | libc::O_CLOEXEC) }
}
pub(crate) fn close_if_open(fd: i32) {
    unsafe {
        if libc::fcntl(fd, libc::F_GETFD) >= 0 {
            libc::close(fd);
        }
    }
}

pub(crate) fn drain_std_unix(e: &mut Env) {
    e.clients.clear();
    if let Some(l) = &e.ustd {
        while l.accept().is_ok() {}
    }
}
pub(crate) fn drain_std_tcp(e: &mut Env) {
    e.clients.clear();
    if let Some(l) = &e.tstd {
        while l.accept().is_ok() {}
    }
}
pub(crate) fn drain_tiny(e: &mut Env) {
    e.clients.clear();
    if let Some(l) = e.ul.as_mut() {
        while let Ok(Some(s)) = l.try_accept() {
            drop(s);
        }
    }
    if let Some(l) = e.tl.as_mut() {
        while let Ok(Some(s)) = l.try_accept() {
            drop(s);
        }
    }
}

pub(crate) fn std_unix_listener(e: &mut Env) {
    let p = e.path("srv.sock");
    let _ = std::fs::remove_file(&p);
    let l = std::os::unix::net::UnixListener::bind(&p).unwrap();
    l.set_nonblocking(true).unwrap();
    e.ustd = Some(l);
}
pub(crate) fn std_tcp_listener(e: &mut Env) {
    let l = std::net::TcpListener::bind("127.0.0.1:0").unwrap();
    l.set_nonblocking(true).unwrap();
    e.port = l.local_addr().unwrap().port();
    e.tstd = Some(l);
}
pub(crate) fn tiny_unix_listener(e: &mut Env) {
    let p = e.u("acc.sock");
    e.ul = Some(UnixListener::bind(&p).expect("native bind"));
}
pub(crate) fn tiny_tcp_listener(e: &mut Env) {
    let l = TcpListener::bind(&SocketAddress::new(Ip::V4([127, 0, 0, 1]), 0)).expect("native tcp bind");
    let std_view = l.local_addr().expect("local_addr");
    // SocketAddress has no accessors: take the port from its Debug rendering
    let d = format!("{std_view:?}");
    let port: u16 = d.rsplit("port: ").next().unwrap().trim_end_matches(|c: char| !c.is_ascii_digit()).parse().unwrap();
    e.port = port;
    e.tl = Some(l);
}
pub(crate) fn unix_client(e: &mut Env) {
    let c = std::os::unix::net::UnixStream::connect(e.path("acc.sock")).expect("client connect");
    e.clients.push(Box::new(c));
}
pub(crate) fn tcp_client(e: &mut Env) {
    let c = std::net::TcpStream::connect(("127.0.0.1", e.port)).expect("tcp client connect");
    e.clients.push(Box::new(c));
}
pub(crate) fn wait_pending(fd: i32) {
    // the connection is queued synchronously for AF_UNIX and loopback TCP; poll anyway
    let mut p = libc::pollfd { fd, events: libc::POLLIN, revents: 0 };
    unsafe {
        libc::poll(&mut p, 1, 200);
    }
}

pub(crate) fn loopback(port: u16) -> SocketAddress {
    SocketAddress::new(Ip::V4([127, 0, 0, 1]), port)
}

pub(crate) fn spawn_label(n_stdio_pipes: usize, n_null: usize) -> impl Fn(&str, usize, usize) -> Option<String> {
    move |sc, ordinal, sub| match sc {
        "pipe2" => {
            let end = if sub == 0 { "read-end" } else { "write-end" };
            if ordinal == n_stdio_pipes {
                Some(format!("sync-pipe-{end}"))
            } else {
                Some(format!("stdio-pipe#{ordinal}-{end}"))
            }
        }
        "open" | "openat" if n_null > 0 => Some(format!("dev-null#{ordinal}")),
        _ => None,
    }
}

#[cfg(not(feature = "noalloc"))]
pub(crate) const SPAWN: &str = "Command::spawn";
#[cfg(feature = "noalloc")]
pub(crate) const SPAWN: &str = "process::spawn";

/// One spawn through the entry point of this build: `Command::spawn` (alloc) or the free
/// function `tiny_std::process::spawn` (no alloc).
pub(crate) fn spawn_call(bin: &'static UnixStr, st: [Option<Stdio>; 3], extra: bool) -> tiny_std::Result<Child> {
    #[cfg(not(feature = "noalloc"))]
    {
        let mut c = Command::new(bin).unwrap();
        if let Some(x) = st[0] {
            c.stdin(x);
        }
        if let Some(x) = st[1] {
            c.stdout(x);
        }
        if let Some(x) = st[2] {
            c.stderr(x);
        }
        if extra {
            c.cwd(unix_lit!("/tmp")).uid(unsafe { libc::getuid() }).gid(unsafe { libc::getgid() }).pgroup(0);
        }
        c.spawn()
    }
    #[cfg(feature = "noalloc")]
    {
        let no_closures: &mut [(); 0] = &mut [];
        let (cwd, uid, gid, pg) = if extra { (Some(unix_lit!("/tmp")), Some(unsafe { libc::getuid() }), Some(unsafe { libc::getgid() }), Some(0)) } else { (None, None, None, None) };
        tiny_std::process::spawn::<0, ()>(bin, [], &tiny_std::process::Environment::None, st[0], st[1], st[2], no_closures, cwd, uid, gid, pg)
    }
}

pub(crate) const MODE_NAMES: [&str; 4] = ["Inherit", "Null", "MakePipe", "RawFd"];

pub(crate) fn spawn_with(suffix: &str, modes: [Option<u8>; 3], bin: &'static UnixStr, then: u8) -> Scn {
    // mode: 0 Inherit, 1 Null, 2 MakePipe, 3 RawFd(a fresh descriptor made for this call and LENT: it stays the caller's)
    let n_pipes = modes.iter().filter(|m| **m == Some(2)).count();
    let n_null = modes.iter().filter(|m| **m == Some(1)).count();
    let n_raw = modes.iter().filter(|m| **m == Some(3)).count();
    let s = scn(&format!("{SPAWN}{suffix}"), move |e| {
        let mut next_raw = 0;
        let mut st = [None, None, None];
        for i in 0..3 {
            st[i] = modes[i].map(|m| match m {
                0 => Stdio::Inherit,
                1 => Stdio::Null,
                2 => Stdio::MakePipe,
                _ => {
                    next_raw += 1;
                    Stdio::RawFd(fdv(e.lent[next_raw - 1]))
                }
            });
        }
        let r = (|| -> tiny_std::Result<Child> {
            let mut ch = spawn_call(bin, st, false)?;
            child_guard();
            match then {
                1 => {
                    ch.wait()?;
                }
                2 => {
                    ch.try_wait()?;
                }
                _ => {}
            }
            Ok(ch)
        })();
        child_guard();
        mk(r, child_fds)
    })
    .label(spawn_label(n_pipes, n_null));
    if n_raw > 0 {
        s.prep(move |e| {
            e.lent = (0..n_raw).map(|_| devnull()).collect();
        })
        .clean(close_lent)
    } else {
        s
    }
}

/// The stdio grid {Inherit, Null, MakePipe, RawFd(fresh)}^3 (each call judged on its own).
pub(crate) fn spawn_grid() -> Vec<Scn> {
    let mut v = Vec::new();
    for a in 0..4u8 {
        for b in 0..4u8 {
            for c in 0..4u8 {
                let name = format!("[stdin={},stdout={},stderr={}]", MODE_NAMES[a as usize], MODE_NAMES[b as usize], MODE_NAMES[c as usize]);
                v.push(spawn_with(&name, [Some(a), Some(b), Some(c)], TRUE, 0).light(1));
            }
        }
    }
    v
}

/// The harness closes the descriptors it lent, after the case was judged.
pub(crate) fn close_lent(e: &mut Env) {
    for fd in e.lent.drain(..) {
        if fd > 2 {
            close_if_open(fd);
        }
    }
}

fn repeat_label(sc: &str, ordinal: usize, sub: usize) -> Option<String> {
    (sc == "pipe2").then(|| format!("sync-pipe#{ordinal}-{}", if sub == 0 { "read-end" } else { "write-end" }))
}

/// `n` spawns that all name the same lent descriptor as stdout — through ONE `Command` in the alloc build —
/// with an unrelated open() of the caller between two spawns (it would receive the number if a spawn closed it).
fn spawn_repeat(name: &str, n: usize) -> Scn {
    scn(name, move |e| {
        let raw = Stdio::RawFd(fdv(e.lent[0]));
        #[cfg(not(feature = "noalloc"))]
        let mut c = {
            let mut c = Command::new(TRUE).unwrap();
            c.stdout(raw);
            c
        };
        let mut unrelated: Vec<i32> = Vec::new();
        let mut children = Vec::new();
        let mut res: tiny_std::Result<()> = Ok(());
        for i in 0..n {
            if i > 0 {
                unrelated.push(devnull());
            }
            #[cfg(not(feature = "noalloc"))]
            let r = c.spawn();
            #[cfg(feature = "noalloc")]
            let r = spawn_call(TRUE, [None, Some(raw), None], false);
            child_guard();
            match r {
                Ok(ch) => children.push(ch),
                Err(x) => {
                    res = Err(x);
                    break;
                }
            }
        }
        for fd in unrelated {
            if unsafe { libc::close(fd) } != 0 {
                e.complaints.push(format!("the caller's own unrelated descriptor {fd}, opened between two spawns, was closed by somebody else (its close() answered EBADF)"));
            }
        }
        mk(res.map(|()| children), |cs| cs.iter().flat_map(child_fds).collect())
    })
    .prep(|e| e.lent = vec![devnull()])
    .clean(close_lent)
    .label(repeat_label)
}

/// Aliasing cases of `Stdio::RawFd`: the descriptor stays the caller's, so all of these must be clean.
pub(crate) fn spawn_alias() -> Vec<Scn> {
    let mut v = Vec::new();
    v.push(
        scn(&format!("{SPAWN}[stdout=stderr=one-RawFd]"), |e| {
            let raw = Stdio::RawFd(fdv(e.lent[0]));
            let r = spawn_call(TRUE, [None, Some(raw), Some(raw)], false);
            child_guard();
            mk(r, child_fds)
        })
        .prep(|e| e.lent = vec![devnull()])
        .clean(close_lent)
        .label(spawn_label(0, 0)),
    );
    v.push(
        scn(&format!("{SPAWN}[stdin=stdout=stderr=one-RawFd]"), |e| {
            let raw = Stdio::RawFd(fdv(e.lent[0]));
            let r = spawn_call(TRUE, [Some(raw), Some(raw), Some(raw)], false);
            child_guard();
            mk(r, child_fds)
        })
        .prep(|e| e.lent = vec![devnull()])
        .clean(close_lent)
        .label(spawn_label(0, 0)),
    );
    // the process's own standard streams named explicitly (default start state only: they must exist)
    let std_cases: [(&str, [Option<i32>; 3]); 4] = [
        ("[stderr=RawFd(1)]", [None, None, Some(1)]),
        ("[RawFd(0),RawFd(1),RawFd(2)]", [Some(0), Some(1), Some(2)]),
        ("[stdout=RawFd(2),stderr=RawFd(1)]", [None, Some(2), Some(1)]),
        ("[stdin=RawFd(2),stdout=RawFd(0),stderr=RawFd(0)]", [Some(2), Some(0), Some(0)]),
    ];
    for (suffix, fds) in std_cases {
        v.push(
            scn(&format!("{SPAWN}{suffix}"), move |_| {
                let st = [fds[0].map(|f| Stdio::RawFd(fdv(f))), fds[1].map(|f| Stdio::RawFd(fdv(f))), fds[2].map(|f| Stdio::RawFd(fdv(f)))];
                let r = spawn_call(TRUE, st, false);
                child_guard();
                mk(r, child_fds)
            })
            .prep(move |e| {
                let mut l: Vec<i32> = fds.iter().flatten().copied().collect();
                l.sort();
                l.dedup();
                e.lent = l;
            })
            .clean(close_lent)
            .fixed_stdio()
            .label(spawn_label(0, 0)),
        );
    }
    #[cfg(not(feature = "noalloc"))]
    {
        v.push(spawn_repeat("Command::spawn(RawFd)-twice-on-one-Command", 2));
        v.push(spawn_repeat("Command::spawn(RawFd)-three-times-on-one-Command", 3));
    }
    #[cfg(feature = "noalloc")]
    {
        v.push(spawn_repeat("process::spawn(RawFd)-twice-with-one-descriptor", 2));
        v.push(spawn_repeat("process::spawn(RawFd)-three-times-with-one-descriptor", 3));
    }
    // a File lends its descriptor, is used afterwards and dropped: exactly one close of that number in the whole run
    v.push(
        scn(&format!("{SPAWN}[stdout=File::as_raw_fd]+File-used-and-dropped"), |e| {
            let p = e.u("child-out.txt");
            let r = (|| -> tiny_std::Result<(Child, File)> {
                let f = OpenOptions::new().write(true).create(true).open(&p)?;
                let ch = spawn_call(TRUE, [None, Some(Stdio::RawFd(f.as_raw_fd())), None], false)?;
                child_guard();
                f.metadata()?;
                Ok((ch, f))
            })();
            child_guard();
            mk(r, |(c, f)| {
                let mut o = child_fds(c);
                o.push(f.as_raw_fd().value());
                o
            })
        })
        .prep(|e| e.rm("child-out.txt"))
        .label(|sc, ordinal, sub| match sc {
            "pipe2" => Some(format!("sync-pipe-{}", if sub == 0 { "read-end" } else { "write-end" })),
            "open" | "openat" if ordinal == 0 => Some("lent-file".to_string()),
            _ => None,
        }),
    );
    v
}

pub fn all() -> Vec<Scn> {
    let mut v: Vec<Scn> = Vec::new();

    // ------------------------------------------------------------------ fs
    v.push(scn("File::open", |e| mk(File::open(&e.u("f.txt")), fd_of)).init(|e| e.file("f.txt", b"hello world\n")));
    v.push(scn("File::open(missing)", |e| mk(File::open(&e.u("nope.txt")), fd_of)));
    v.push(
        scn("File::open+metadata+set_nonblocking", |e| {
            let p = e.u("f.txt");
            let r = (|| -> tiny_std::Result<File> {
                let f = File::open(&p)?;
                f.metadata()?;
                f.set_nonblocking()?;
                Ok(f)
            })();
            mk(r, fd_of)
        })
        .init(|e| e.file("f.txt", b"hello world\n")),
    );
    v.push(scn("OpenOptions(create)", |e| mk(OpenOptions::new().write(true).create(true).open(&e.u("c.txt")), fd_of)).prep(|e| e.rm("c.txt")));
    v.push(scn("OpenOptions(create_new)", |e| mk(OpenOptions::new().write(true).create_new(true).open(&e.u("cn.txt")), fd_of)).prep(|e| e.rm("cn.txt")));
    v.push(
        scn("OpenOptions(create_new,exists)", |e| mk(OpenOptions::new().write(true).create_new(true).open(&e.u("f.txt")), fd_of))
            .init(|e| e.file("f.txt", b"x")),
    );
    v.push(scn("OpenOptions(append)", |e| mk(OpenOptions::new().append(true).open(&e.u("f.txt")), fd_of)).init(|e| e.file("f.txt", b"x")));
    v.push(
        scn("OpenOptions(truncate)", |e| mk(OpenOptions::new().write(true).truncate(true).open(&e.u("f.txt")), fd_of))
            .prep(|e| e.file("f.txt", b"some content")),
    );
    v.push(scn("OpenOptions(no-access-mode)", |e| mk(OpenOptions::new().create(true).open(&e.u("f.txt")), fd_of)));
    v.push(
        scn("File::copy", |e| {
            let (src, dst) = (e.u("src.txt"), e.u("dst.txt"));
            let r = (|| -> tiny_std::Result<(File, File)> {
                let s = File::open(&src)?;
                let d = s.copy(&dst)?;
                Ok((s, d))
            })();
            mk(r, |(s, d)| vec![s.as_raw_fd().value(), d.as_raw_fd().value()])
        })
        .init(|e| e.file("src.txt", &vec![b'z'; 5000]))
        .prep(|e| e.rm("dst.txt")),
    );
    v.push(
        scn("fs::copy_file", |e| mk(fs::copy_file(&e.u("src.txt"), &e.u("dst.txt")), fd_of))
            .init(|e| e.file("src.txt", &vec![b'z'; 5000]))
            .prep(|e| e.rm("dst.txt")),
    );
    #[cfg(not(feature = "noalloc"))]
    v.push(scn("fs::read", |e| mk(fs::read(&e.u("f.txt")), nofd)).init(|e| e.file("f.txt", &vec![b'q'; 300])));
    #[cfg(not(feature = "noalloc"))]
    v.push(scn("fs::read_to_string", |e| mk(fs::read_to_string(&e.u("f.txt")), nofd)).init(|e| e.file("f.txt", b"text\n")));
    v.push(scn("fs::write", |e| mk(fs::write(&e.u("w.txt"), b"written"), nofd)).prep(|e| e.rm("w.txt")));
    v.push(
        scn("fs::metadata+exists", |e| {
            let r = (|| -> tiny_std::Result<(bool, bool)> {
                let m = fs::metadata(&e.u("f.txt"))?;
                let a = fs::exists(&e.u("f.txt"))?;
                let b = fs::exists(&e.u("nope"))?;
                Ok((m.is_file() && a, b))
            })();
            mk(r, nofd)
        })
        .init(|e| e.file("f.txt", b"x")),
    );
    v.push(
        scn("Directory::open+read+open_file/open_dir", |e| {
            let p = e.u("d");
            let r = (|| -> tiny_std::Result<(Directory, Vec<File>, Vec<Directory>)> {
                let d = Directory::open(&p)?;
                let (mut fs_, mut ds) = (vec![], vec![]);
                for ent in d.read() {
                    let ent = ent?;
                    if ent.is_relative_reference() {
                        continue;
                    }
                    match ent.file_type() {
                        FileType::RegularFile => fs_.push(ent.open_file()?),
                        FileType::Directory => ds.push(ent.open_dir()?),
                        _ => {}
                    }
                }
                Ok((d, fs_, ds))
            })();
            mk(r, |(d, f, ds)| {
                let mut o = peek(d);
                o.extend(f.iter().map(|x| x.as_raw_fd().value()));
                o.extend(ds.iter().flat_map(peek));
                o
            })
        })
        .init(|e| {
            std::fs::create_dir_all(e.path("d/sub")).unwrap();
            e.file("d/a.txt", b"a");
            e.file("d/b.txt", b"b");
        }),
    );
    v.push(scn("Directory::open(missing)", |e| mk(Directory::open(&e.u("no-dir")), peek)));
    v.push(
        scn("DirEntry::open_file(on-directory)", |e| {
            let p = e.u("d2");
            let r = (|| -> tiny_std::Result<(Directory, File)> {
                let d = Directory::open(&p)?;
                for ent in d.read() {
                    let ent = ent?;
                    if !ent.is_relative_reference() {
                        let f = ent.open_file()?;
                        return Ok((d, f));
                    }
                }
                Err(tiny_std::Error::Timeout)
            })();
            mk(r, |(d, f)| {
                let mut o = peek(d);
                o.push(f.as_raw_fd().value());
                o
            })
        })
        .init(|e| std::fs::create_dir_all(e.path("d2/only-a-dir")).unwrap()),
    );
    v.push(scn("fs::remove_dir_all", |e| mk(fs::remove_dir_all(&e.u("t")), nofd)).prep(|e| {
        std::fs::create_dir_all(e.path("t/s")).unwrap();
        e.file("t/f1", b"1");
        e.file("t/s/f2", b"2");
    }));
    v.push(scn("fs::create_dir_all", |e| mk(fs::create_dir_all(&e.u("x/y/z")), nofd)).prep(|e| e.rm("x")));
    v.push(scn("system_random", |_| mk(tiny_std::unix::random::system_random(&mut [0u8; 16]), nofd)));
    v.push(
        scn("File::from_raw_fd", |e| mk::<File, ()>(Ok(unsafe { File::from_raw_fd(fdv(e.given[0])) }), fd_of))
            .prep(|e| e.given = vec![devnull()])
            .clean(|e| {
                for fd in e.given.drain(..) {
                    close_if_open(fd);
                }
            }),
    );

    // ------------------------------------------------------------------ unix sockets
    for (fname, tryc) in [("UnixStream::connect", false), ("UnixStream::try_connect", true)] {
        let conn = move |p: &UnixStr| -> Ret {
            if tryc {
                mk_opt(UnixStream::try_connect(p), fd_of)
            } else {
                mk(UnixStream::connect(p), fd_of)
            }
        };
        v.push(scn(fname, move |e| conn(&e.u("srv.sock"))).init(std_unix_listener).clean(drain_std_unix));
        v.push(scn(&format!("{fname}(path>=108)"), move |e| conn(&e.u(&"a".repeat(120)))));
        v.push(scn(&format!("{fname}(non-ascii-path)"), move |e| conn(&e.u("s\u{f6}ck\u{e9}t.sock"))));
        v.push(scn(&format!("{fname}(missing)"), move |e| conn(&e.u("no-such.sock"))));
        v.push(scn(&format!("{fname}(refused)"), move |e| conn(&e.u("dead.sock"))).init(|e| {
            // a socket file nobody listens on
            drop(std::os::unix::net::UnixListener::bind(e.path("dead.sock")).unwrap());
        }));
    }
    v.push(scn("UnixListener::bind", |e| mk(UnixListener::bind(&e.u("b.sock")), peek)).prep(|e| e.rm("b.sock")));
    v.push(scn("UnixListener::bind(path>=108)", |e| mk(UnixListener::bind(&e.u(&"b".repeat(120))), peek)));
    v.push(scn("UnixListener::bind(non-ascii-path)", |e| mk(UnixListener::bind(&e.u("b\u{e4}nd.sock")), peek)));
    v.push(scn("UnixListener::bind(in-use)", |e| mk(UnixListener::bind(&e.u("srv.sock")), peek)).init(std_unix_listener));
    v.push(
        scn("UnixListener::accept", |e| mk(e.ul.as_mut().unwrap().accept(), fd_of))
            .init(tiny_unix_listener)
            .prep(unix_client)
            .clean(drain_tiny),
    );
    v.push(
        scn("UnixListener::try_accept", |e| mk_opt(e.ul.as_mut().unwrap().try_accept(), fd_of))
            .init(tiny_unix_listener)
            .prep(unix_client)
            .clean(drain_tiny),
    );
    v.push(scn("UnixListener::try_accept(nothing-pending)", |e| mk_opt(e.ul.as_mut().unwrap().try_accept(), fd_of)).init(tiny_unix_listener));
    v.push(
        scn("UnixListener::accept_with_timeout", |e| mk(e.ul.as_mut().unwrap().accept_with_timeout(Duration::from_millis(200)), fd_of))
            .init(tiny_unix_listener)
            .prep(unix_client)
            .clean(drain_tiny),
    );
    v.push(
        scn("UnixListener::accept_with_timeout(nothing-pending)", |e| {
            mk(e.ul.as_mut().unwrap().accept_with_timeout(Duration::from_millis(5)), fd_of)
        })
        .init(tiny_unix_listener),
    );

    // ------------------------------------------------------------------ tcp
    v.push(
        scn("TcpListener::bind+local_addr", |_| {
            let r = (|| -> tiny_std::Result<TcpListener> {
                let l = TcpListener::bind(&loopback(0))?;
                l.local_addr()?;
                Ok(l)
            })();
            mk(r, peek)
        }),
    );
    v.push(scn("TcpListener::bind(in-use)", |e| mk(TcpListener::bind(&loopback(e.port)), peek)).init(std_tcp_listener));
    v.push(
        scn("TcpListener::accept", |e| mk(e.tl.as_mut().unwrap().accept(), fd_of))
            .init(tiny_tcp_listener)
            .prep(|e| {
                tcp_client(e);
                wait_pending(peek(e.tl.as_ref().unwrap())[0]);
            })
            .clean(drain_tiny),
    );
    v.push(
        scn("TcpListener::try_accept", |e| mk_opt(e.tl.as_mut().unwrap().try_accept(), fd_of))
            .init(tiny_tcp_listener)
            .prep(|e| {
                tcp_client(e);
                wait_pending(peek(e.tl.as_ref().unwrap())[0]);
            })
            .clean(drain_tiny),
    );
    v.push(scn("TcpListener::try_accept(nothing-pending)", |e| mk_opt(e.tl.as_mut().unwrap().try_accept(), fd_of)).init(tiny_tcp_listener));
    v.push(
        scn("TcpListener::accept_with_timeout", |e| mk(e.tl.as_mut().unwrap().accept_with_timeout(Duration::from_millis(200)), fd_of))
            .init(tiny_tcp_listener)
            .prep(|e| {
                tcp_client(e);
                wait_pending(peek(e.tl.as_ref().unwrap())[0]);
            })
            .clean(drain_tiny),
    );
    v.push(
        scn("TcpListener::accept_with_timeout(nothing-pending)", |e| {
            mk(e.tl.as_mut().unwrap().accept_with_timeout(Duration::from_millis(5)), fd_of)
        })
        .init(tiny_tcp_listener),
    );
    v.push(scn("TcpStream::connect", |e| mk(TcpStream::connect(&loopback(e.port)), fd_of)).init(std_tcp_listener).clean(drain_std_tcp));
    v.push(
        scn("TcpStream::connect_with_timeout", |e| mk(TcpStream::connect_with_timeout(&loopback(e.port), Duration::from_millis(500)), fd_of))
            .init(std_tcp_listener)
            .clean(drain_std_tcp),
    );
    v.push(scn("TcpStream::connect(refused)", |e| mk(TcpStream::connect(&loopback(e.port)), fd_of)).init(|e| {
        // a port nobody listens on
        let l = std::net::TcpListener::bind("127.0.0.1:0").unwrap();
        e.port = l.local_addr().unwrap().port();
    }));
    v.push(
        scn("TcpStream::connect_with_timeout(dead-port)", |e| mk(TcpStream::connect_with_timeout(&loopback(e.port), Duration::from_millis(300)), fd_of)).init(|e| {
            let l = std::net::TcpListener::bind("127.0.0.1:0").unwrap();
            e.port = l.local_addr().unwrap().port();
        }),
    );
    v.push(
        // a listener whose accept queue is full drops further SYNs: the connect stays in progress and the ppoll really times out
        scn("TcpStream::connect_with_timeout(backlog-full)", |e| mk(TcpStream::connect_with_timeout(&loopback(e.port), Duration::from_millis(30)), fd_of)).init(|e| unsafe {
            let l = libc::socket(libc::AF_INET, libc::SOCK_STREAM | libc::SOCK_CLOEXEC, 0);
            let mut sa: libc::sockaddr_in = std::mem::zeroed();
            sa.sin_family = libc::AF_INET as u16;
            sa.sin_addr.s_addr = u32::from_ne_bytes([127, 0, 0, 1]);
            assert_eq!(0, libc::bind(l, &sa as *const _ as *const libc::sockaddr, std::mem::size_of::<libc::sockaddr_in>() as u32));
            assert_eq!(0, libc::listen(l, 0));
            let mut len = std::mem::size_of::<libc::sockaddr_in>() as u32;
            libc::getsockname(l, &mut sa as *mut _ as *mut libc::sockaddr, &mut len);
            e.port = u16::from_be(sa.sin_port);
            e.aux.push(l);
            for _ in 0..4 {
                let c = libc::socket(libc::AF_INET, libc::SOCK_STREAM | libc::SOCK_CLOEXEC | libc::SOCK_NONBLOCK, 0);
                libc::connect(c, &sa as *const _ as *const libc::sockaddr, std::mem::size_of::<libc::sockaddr_in>() as u32);
                e.aux.push(c);
            }
            libc::usleep(20_000);
        }),
    );
    // stream operations on a descriptor the value already owns: they create nothing, and must neither close nor lose it
    v.push(
        scn("UnixListener::accept+UnixStream::read+write", |e| {
            let l = e.ul.as_mut().unwrap();
            let r = (|| -> tiny_std::Result<UnixStream> {
                use tiny_std::io::{Read, Write};
                let mut s = l.accept()?;
                let mut b = [0u8; 16];
                s.read(&mut b)?;
                s.write(b"pong")?;
                Ok(s)
            })();
            mk(r, fd_of)
        })
        .init(tiny_unix_listener)
        .prep(|e| {
            use std::io::Write;
            let mut c = std::os::unix::net::UnixStream::connect(e.path("acc.sock")).expect("client connect");
            c.write_all(b"ping").unwrap();
            e.clients.push(Box::new(c));
        })
        .clean(drain_tiny),
    );
    v.push(
        scn("TcpListener::accept+TcpStream::read_with_timeout+write", |e| {
            let l = e.tl.as_mut().unwrap();
            let r = (|| -> tiny_std::Result<TcpStream> {
                use tiny_std::io::Write;
                let mut s = l.accept()?;
                let mut b = [0u8; 16];
                s.read_with_timeout(&mut b, Duration::from_millis(200))?;
                s.write(b"pong")?;
                Ok(s)
            })();
            mk(r, fd_of)
        })
        .init(tiny_tcp_listener)
        .prep(|e| {
            use std::io::Write;
            let mut c = std::net::TcpStream::connect(("127.0.0.1", e.port)).expect("tcp client connect");
            c.write_all(b"ping").unwrap();
            e.clients.push(Box::new(c));
            wait_pending(peek(e.tl.as_ref().unwrap())[0]);
            unsafe { libc::usleep(2000) };
        })
        .clean(drain_tiny),
    );
    v.push(
        scn("TcpListener::accept+TcpStream::read_with_timeout(nothing-sent)", |e| {
            let l = e.tl.as_mut().unwrap();
            let r = (|| -> tiny_std::Result<TcpStream> {
                let mut s = l.accept()?;
                let mut b = [0u8; 16];
                s.read_with_timeout(&mut b, Duration::from_millis(5))?;
                Ok(s)
            })();
            mk(r, fd_of)
        })
        .init(tiny_tcp_listener)
        .prep(|e| {
            tcp_client(e);
            wait_pending(peek(e.tl.as_ref().unwrap())[0]);
        })
        .clean(drain_tiny),
    );
    let try_fds = |t: &TcpTryConnect| fd_from_debug(&format!("{t:?}"));
    v.push(scn("TcpStream::try_connect", move |e| mk(TcpStream::try_connect(&loopback(e.port)), try_fds)).init(std_tcp_listener).clean(drain_std_tcp));
    v.push(
        scn("TcpStream::try_connect(refused)", move |e| mk(TcpStream::try_connect(&loopback(e.port)), try_fds)).init(|e| {
            let l = std::net::TcpListener::bind("127.0.0.1:0").unwrap();
            e.port = l.local_addr().unwrap().port();
        }),
    );
    v.push(
        scn("TcpStream::try_connect+TcpStreamInProgress::try_connect", move |e| {
            let r = (|| -> tiny_std::Result<TcpTryConnect> {
                match TcpStream::try_connect(&loopback(e.port))? {
                    TcpTryConnect::InProgress(p) => p.try_connect(),
                    c => Ok(c),
                }
            })();
            mk(r, try_fds)
        })
        .init(std_tcp_listener)
        .clean(drain_std_tcp),
    );
    v.push(
        scn("TcpStream::try_connect+TcpStreamInProgress::connect_blocking", move |e| {
            let r = (|| -> tiny_std::Result<TcpStream> {
                match TcpStream::try_connect(&loopback(e.port))? {
                    TcpTryConnect::InProgress(p) => p.connect_blocking(),
                    TcpTryConnect::Connected(c) => Ok(c),
                }
            })();
            mk(r, fd_of)
        })
        .init(std_tcp_listener)
        .clean(drain_std_tcp),
    );

    // ------------------------------------------------------------------ process
    v.push(spawn_with("(Inherit)", [None, None, None], TRUE, 0));
    v.push(spawn_with("(Null)", [Some(1), Some(1), Some(1)], TRUE, 0));
    v.push(spawn_with("(MakePipe)", [Some(2), Some(2), Some(2)], TRUE, 0));
    v.push(spawn_with("(RawFd)", [Some(3), Some(3), Some(3)], TRUE, 0));
    v.push(spawn_with("(Null,MakePipe,RawFd)", [Some(1), Some(2), Some(3)], TRUE, 0));
    v.push(spawn_with("(missing-binary)", [None, Some(2), None], MISSING_BIN, 0));
    v.push(spawn_with("(MakePipe)+Child::wait", [Some(2), Some(2), Some(2)], TRUE, 1));
    v.push(spawn_with("(Inherit)+Child::try_wait", [None, None, None], TRUE, 2));
    v.push(
        scn(&format!("{SPAWN}(cwd,uid,gid,pgroup)"), |_| {
            let r = spawn_call(TRUE, [None, None, None], true);
            child_guard();
            mk(r, child_fds)
        })
        .label(spawn_label(0, 0)),
    );
    v.extend(spawn_grid());
    v.extend(spawn_alias());

    // ------------------------------------------------------------------ epoll
    v.push(scn("EpollDriver::create", |_| mk(EpollDriver::create(true), peek)));
    v.push(
        scn("EpollDriver::create+register+modify+wait+unregister", |e| {
            let fd = fdv(e.aux[0]);
            let r = (|| -> tiny_std::Result<EpollDriver> {
                let d = EpollDriver::create(false)?;
                d.register(fd, 7, EpollEventMask::EPOLLIN)?;
                d.modify(fd, 8, EpollEventMask::EPOLLIN | EpollEventMask::EPOLLHUP)?;
                let mut buf = [EpollEvent::new(0, EpollEventMask::empty())];
                d.wait(&mut buf, EpollTimeout::NoWait)?;
                d.unregister(fd)?;
                Ok(d)
            })();
            mk(r, peek)
        })
        .init(|e| {
            let mut p = [0i32; 2];
            unsafe { libc::pipe2(p.as_mut_ptr(), libc::O_CLOEXEC) };
            e.aux = p.to_vec();
        }),
    );

    // ------------------------------------------------------------------ pty
    let pty_label = |sc: &str, ordinal: usize, _sub: usize| match (sc, ordinal) {
        ("open" | "openat", 0) => Some("master".to_string()),
        ("open" | "openat", 1) => Some("slave".to_string()),
        _ => None,
    };
    let pty_fds = |t: &tiny_std::unix::misc::openpty::TerminalHandle| vec![t.master.value(), t.slave.value()];
    v.push(scn("openpty(None,None,None)", move |_| mk(tiny_std::unix::misc::openpty::openpty(None, None, None), pty_fds)).plain_handle().label(pty_label));
    v.push(
        scn("openpty(None,termios,winsize)", move |e| {
            let ws = WindowSize::new(24, 80, 0, 0);
            mk(tiny_std::unix::misc::openpty::openpty(None, e.termios.as_ref(), Some(&ws)), pty_fds)
        })
        .init(|e| {
            // fetch a valid termios from a pty opened with libc
            unsafe {
                let m = libc::posix_openpt(libc::O_RDWR | libc::O_NOCTTY);
                assert!(m >= 0);
                libc::grantpt(m);
                libc::unlockpt(m);
                let mut name = [0 as libc::c_char; 64];
                libc::ptsname_r(m, name.as_mut_ptr(), 64);
                let s = libc::open(name.as_ptr(), libc::O_RDWR | libc::O_NOCTTY);
                assert!(s >= 0);
                e.termios = Some(rusl::termios::tcgetattr(fdv(s)).expect("tcgetattr"));
                libc::close(s);
                libc::close(m);
            }
        })
        .plain_handle()
        .label(pty_label),
    );
    v.push(
        scn("openpty(missing-name)", move |_| mk(tiny_std::unix::misc::openpty::openpty(Some(unix_lit!("/dev/pts/no-such-pty")), None, None), pty_fds))
            .plain_handle()
            .label(pty_label),
    );

    // ------------------------------------------------------------------ passwd, host name, get_pass
    let pw_label = |sc: &str, _o: usize, _s: usize| matches!(sc, "open" | "openat").then(|| "passwd-file".to_string());
    v.push(
        scn("getpwuid_r(found)", |_| {
            let mut buf = [0u8; 4096];
            mk(tiny_std::unix::passwd::getpw_r::getpwuid_r(0, &mut buf).map(|o| o.map(|p| p.name.to_string())), nofd)
        })
        .label(pw_label),
    );
    v.push(
        scn("getpwuid_r(not-found)", |_| {
            let mut buf = [0u8; 8192];
            mk(tiny_std::unix::passwd::getpw_r::getpwuid_r(4_242_424, &mut buf).map(|o| o.map(|p| p.name.to_string())), nofd)
        })
        .label(pw_label),
    );
    #[cfg(not(feature = "noalloc"))]
    v.push(scn("host_name", |_| mk(tiny_std::unix::host_name::host_name(), nofd)));
    v.push(
        scn("get_pass", |_| {
            let mut buf = [0u8; 64];
            mk(tiny_std::linux::get_pass::get_pass(&mut buf).map(|s| s.len()), nofd)
        })
        .init(|e| unsafe {
            // the shard is its own process: give it a pty as stdin and type the password into the master
            let m = libc::posix_openpt(libc::O_RDWR | libc::O_NOCTTY);
            assert!(m >= 0);
            libc::grantpt(m);
            libc::unlockpt(m);
            let mut name = [0 as libc::c_char; 64];
            libc::ptsname_r(m, name.as_mut_ptr(), 64);
            let s = libc::open(name.as_ptr(), libc::O_RDWR | libc::O_NOCTTY);
            assert!(s >= 0);
            libc::dup2(s, 0);
            libc::close(s);
            let fl = libc::fcntl(m, libc::F_GETFL);
            libc::fcntl(m, libc::F_SETFL, fl | libc::O_NONBLOCK);
            e.aux = vec![m];
        })
        .prep(|e| unsafe {
            libc::tcflush(0, libc::TCIOFLUSH);
            let mut junk = [0u8; 256];
            while libc::read(e.aux[0], junk.as_mut_ptr() as *mut _, 256) > 0 {}
            libc::write(e.aux[0], b"secret\n".as_ptr() as *const _, 7);
        })
        .fixed_stdio(),
    );

    // ------------------------------------------------------------------ io_uring
    v.push(scn("setup_io_uring", |_| {
        mk(rusl::io_uring::setup_io_uring(8, rusl::platform::IoUringParamFlags::empty(), 0, 0), |u| vec![u.fd.value()])
    }));

    v.extend(crate::recv::all());
    v.extend(crate::recv::accept_peers());
    #[cfg(not(feature = "noalloc"))]
    v.extend(crate::variants::all());
    #[cfg(feature = "noalloc")]
    {
        // the stack-buffer branch of create_dir_all: a path longer than 512 bytes is refused without an allocator
        v.push(scn("fs::create_dir_all[path>512]", |e| mk(fs::create_dir_all(&e.u(&"abcdefghi/".repeat(60))), nofd)).prep(|e| e.rm("abcdefghi")));
        v.retain(|s| s.name.starts_with("process::spawn") || s.name.starts_with("fs::create_dir_all") || s.name.starts_with("recvmsg") || s.name.contains("[peer="));
    }
    v
}
