//! Receiving descriptors: `rusl::network::recvmsg` + `MsgHdrBorrow::control_messages()`.
//! The kernel INSTALLS the descriptors of an SCM_RIGHTS message when recvmsg returns; the
//! caller only learns their numbers from the control-message iterator.  Whatever the
//! iterator does not yield stays open for ever, so: after iterating and dropping what was
//! yielded the descriptor table must be back where it started.
//!
//! Grid: 1..3 descriptors (sent by the harness with libc sendmsg over a unix socketpair)
//! x receiver {plain, SO_PASSCRED (an SCM_CREDENTIALS message precedes the SCM_RIGHTS one)}
//! x control buffer {exact CMSG_SPACE, exact CMSG_LEN, roomy, too small (MSG_CTRUNC: the kernel
//! installs only what fits)}.  Control buffers are 8-aligned.

use crate::scenarios::*;
use rusl::platform::{ControlMessageSend, IoSliceMut, MsgHdrBorrow};
use tiny_std::unix::fd::OwnedFd;

fn align8(n: usize) -> usize {
    (n + 7) & !7
}

/// size of the control buffer for `n` descriptors after `creds` bytes of preceding messages
fn ctrl_size(kind: u8, n: usize, passcred: bool) -> usize {
    let before = if passcred { align8(16 + 12) } else { 0 };
    match kind {
        0 => before + 16 + align8(4 * n), // exact, CMSG_SPACE
        1 => before + 16 + 4 * n,         // exact, CMSG_LEN (the tightest buffer that still receives everything)
        2 => 512,                         // roomy
        _ => before + 16 + 4 * (n - 1),   // too small: room for n-1 descriptors (for n = 1 only the header)
    }
}
const CTRL_NAMES: [&str; 4] = ["exact-space", "exact-len", "roomy", "too-small"];

fn send_fds(sock: i32, n: usize) {
    unsafe {
        let fds: Vec<i32> = (0..n).map(|_| devnull()).collect();
        let mut payload = [b'x'];
        let mut iov = libc::iovec { iov_base: payload.as_mut_ptr().cast(), iov_len: 1 };
        let mut ctrl = vec![0u64; 16];
        let mut m: libc::msghdr = std::mem::zeroed();
        m.msg_iov = &mut iov;
        m.msg_iovlen = 1;
        m.msg_control = ctrl.as_mut_ptr().cast();
        m.msg_controllen = libc::CMSG_SPACE((4 * n) as u32) as usize;
        let c = libc::CMSG_FIRSTHDR(&m);
        (*c).cmsg_level = libc::SOL_SOCKET;
        (*c).cmsg_type = libc::SCM_RIGHTS;
        (*c).cmsg_len = libc::CMSG_LEN((4 * n) as u32) as usize;
        std::ptr::copy_nonoverlapping(fds.as_ptr(), libc::CMSG_DATA(c).cast::<i32>(), n);
        let r = libc::sendmsg(sock, &m, 0);
        assert_eq!(r, 1, "harness sendmsg");
        for fd in fds {
            libc::close(fd);
        }
    }
}

pub fn all() -> Vec<Scn> {
    let mut v = Vec::new();
    for passcred in [false, true] {
        for n in 1..=3usize {
            for kind in 0..4u8 {
                let size = ctrl_size(kind, n, passcred);
                let name = format!(
                    "recvmsg(SCM_RIGHTS x{n}{}, ctrl-buf={}:{size})",
                    if passcred { " after SCM_CREDENTIALS" } else { "" },
                    CTRL_NAMES[kind as usize]
                );
                v.push(
                    scn(&name, move |e| {
                        let sock = fdv(e.aux[1]);
                        // buffers that outlive the borrow games of MsgHdrBorrow<'a> (a few hundred bytes per case)
                        let data: &'static mut [u8] = Box::leak(vec![0u8; 8].into_boxed_slice());
                        let io: &'static mut [IoSliceMut<'static>] = Box::leak(vec![IoSliceMut::new(data)].into_boxed_slice());
                        let words: &'static mut [u64] = Box::leak(vec![0u64; 64].into_boxed_slice());
                        let ctrl: &'static mut [u8] = unsafe { std::slice::from_raw_parts_mut(words.as_mut_ptr().cast::<u8>(), size) };
                        let hdr: &'static mut MsgHdrBorrow<'static> = Box::leak(Box::new(MsgHdrBorrow::create_recv(io, Some(ctrl))));
                        let r = rusl::network::recvmsg(sock, hdr, 0).map(|_| {
                            let hdr: &'static MsgHdrBorrow<'static> = hdr;
                            let mut got: Vec<OwnedFd> = Vec::new();
                            for (i, m) in hdr.control_messages().enumerate() {
                                if i >= 32 {
                                    break;
                                }
                                match m {
                                    ControlMessageSend::ScmRights(fds) => {
                                        for f in fds.iter().take(16) {
                                            got.push(unsafe { OwnedFd::from_raw(*f) });
                                        }
                                    }
                                }
                            }
                            got
                        });
                        mk(r, |g| {
                            use tiny_std::unix::fd::AsRawFd;
                            g.iter().map(|o| o.as_raw_fd().value()).collect()
                        })
                    })
                    .prep(move |e| unsafe {
                        let mut sv = [0i32; 2];
                        assert_eq!(0, libc::socketpair(libc::AF_UNIX, libc::SOCK_STREAM | libc::SOCK_CLOEXEC, 0, sv.as_mut_ptr()));
                        if passcred {
                            let one: i32 = 1;
                            assert_eq!(0, libc::setsockopt(sv[1], libc::SOL_SOCKET, libc::SO_PASSCRED, (&one as *const i32).cast(), 4));
                        }
                        e.aux = sv.to_vec();
                        send_fds(sv[0], n);
                    })
                    .clean(|e| {
                        for fd in e.aux.drain(..) {
                            close_if_open(fd);
                        }
                    })
                    .light(1),
                );
            }
        }
    }
    v
}

// ---------------------------------------------------------------------------
// accept: what the kernel writes into the peer-address out-parameter depends on how the CONNECTING socket is bound

const PEERS: [&str; 7] = ["unbound", "bound-short-path", "bound-107-byte-path", "bound-108-byte-path-no-NUL", "abstract", "abstract-full-108", "autobound"];

/// Connect a libc client whose own socket is bound as `kind` says; returns (fd, path to unlink).
fn peer_client(e: &Env, kind: usize) -> (i32, Option<String>) {
    unsafe {
        let c = libc::socket(libc::AF_UNIX, libc::SOCK_STREAM | libc::SOCK_CLOEXEC, 0);
        assert!(c >= 0);
        let mut sa: libc::sockaddr_un = std::mem::zeroed();
        sa.sun_family = libc::AF_UNIX as u16;
        let put = |sa: &mut libc::sockaddr_un, b: &[u8], at: usize| {
            for (i, x) in b.iter().enumerate() {
                sa.sun_path[at + i] = *x as libc::c_char;
            }
        };
        let exact = |n: usize| {
            let base = format!("{}/", e.dir);
            format!("{base}{}", "c".repeat(n - base.len()))
        };
        let pid = libc::getpid();
        let (len, unlink): (u32, Option<String>) = match kind {
            0 => (0, None),
            1 => {
                let p = e.path("cl.sock");
                put(&mut sa, p.as_bytes(), 0);
                (2 + p.len() as u32 + 1, Some(p))
            }
            2 => {
                let p = exact(107);
                put(&mut sa, p.as_bytes(), 0);
                (2 + 108, Some(p))
            }
            3 => {
                let p = exact(108);
                put(&mut sa, p.as_bytes(), 0);
                (2 + 108, Some(p))
            }
            4 => {
                let n = format!("hfd-abs-{pid}");
                put(&mut sa, n.as_bytes(), 1);
                (2 + 1 + n.len() as u32, None)
            }
            5 => {
                let n = format!("{:x<107}", format!("hfd-full-{pid}-"));
                put(&mut sa, n.as_bytes(), 1);
                (2 + 108, None)
            }
            _ => (2, None),
        };
        if let Some(p) = &unlink {
            let _ = std::fs::remove_file(p);
        }
        if len > 0 {
            assert_eq!(0, libc::bind(c, (&sa as *const libc::sockaddr_un).cast(), len), "peer bind kind {kind}");
        }
        let mut srv: libc::sockaddr_un = std::mem::zeroed();
        srv.sun_family = libc::AF_UNIX as u16;
        let sp = e.path("acc.sock");
        put(&mut srv, sp.as_bytes(), 0);
        assert_eq!(0, libc::connect(c, (&srv as *const libc::sockaddr_un).cast(), 2 + sp.len() as u32 + 1), "peer connect");
        (c, unlink)
    }
}

pub fn accept_peers() -> Vec<Scn> {
    use rusl::platform::SocketFlags;
    use std::time::Duration;
    let mut v = Vec::new();
    for (kind, pname) in PEERS.iter().enumerate() {
        for api in 0..4u8 {
            let aname = ["rusl::accept_unix", "UnixListener::accept", "UnixListener::try_accept", "UnixListener::accept_with_timeout"][api as usize];
            v.push(
                scn(&format!("{aname}[peer={pname}]"), move |e| {
                    let l = e.ul.as_mut().unwrap();
                    match api {
                        0 => mk(
                            rusl::network::accept_unix(fdv(peek(&*l)[0]), SocketFlags::SOCK_NONBLOCK | SocketFlags::SOCK_CLOEXEC).map(|(fd, _)| unsafe { OwnedFd::from_raw(fd) }),
                            |o| {
                                use tiny_std::unix::fd::AsRawFd;
                                vec![o.as_raw_fd().value()]
                            },
                        ),
                        1 => mk(l.accept(), fd_of),
                        2 => mk_opt(l.try_accept(), fd_of),
                        _ => mk(l.accept_with_timeout(Duration::from_millis(200)), fd_of),
                    }
                })
                .init(tiny_unix_listener)
                .prep(move |e| {
                    let (c, p) = peer_client(e, kind);
                    e.aux = vec![c];
                    e.complaints.clear();
                    if let Some(p) = p {
                        e.clients.push(Box::new(p));
                    }
                })
                .clean(|e| {
                    for fd in e.aux.drain(..) {
                        close_if_open(fd);
                    }
                    for c in e.clients.drain(..) {
                        if let Ok(p) = c.downcast::<String>() {
                            let _ = std::fs::remove_file(*p);
                        }
                    }
                    drain_tiny(e);
                })
                .light(1),
            );
        }
    }
    v
}
