//! ARGUMENT-DOMAIN dimension of C12: every operation of the catalogue that takes a
//! Duration / path / address / count is also run with boundary and out-of-domain values
//! of that argument.  A failure here is usually a pure computation (a conversion that
//! refuses the value) between two system calls, which no fault enumeration reaches.
//! Oracle unchanged: Ok or Err are both fine, the descriptor table after the operation
//! and the drop of its result must equal the table before.
//!
//! Values: Duration {ZERO, 1 ns, Duration::MAX (u64::MAX s), i64::MAX s, i64::MAX+1 s};
//! paths {empty, 4200 bytes, 300-byte component, inside a non-existent directory};
//! unix socket paths {empty (= abstract one-NUL name), exactly 107 bytes, 108 bytes, 4200 bytes};
//! inet addresses {0.0.0.0, port 0, 255.255.255.255, a foreign address}; counts {0, 1, huge}.
//! Valid-but-huge timeouts are only used where the awaited event is already pending.

use crate::child_guard;
use crate::scenarios::*;
use rusl::string::unix_str::UnixString;
use std::time::Duration;
use tiny_std::fs::{self, Directory, File, OpenOptions};
use tiny_std::linux::epoll::{EpollDriver, EpollEvent, EpollEventMask, EpollTimeout};
use tiny_std::net::{Ip, SocketAddress, TcpListener, TcpStream, UnixListener, UnixStream};
use tiny_std::process::Command;

fn us(s: String) -> UnixString {
    UnixString::try_from_string(s).unwrap()
}

fn durations(pending: bool) -> Vec<(&'static str, Duration)> {
    let mut v = vec![
        ("ZERO", Duration::ZERO),
        ("1ns", Duration::from_nanos(1)),
        ("Duration::MAX", Duration::MAX),
        ("i64::MAX+1s", Duration::from_secs(i64::MAX as u64 + 1)),
    ];
    if pending {
        // representable: the wait would really last that long, so only where the event is already there
        v.push(("i64::MAX-s", Duration::new(i64::MAX as u64, 999_999_999)));
    }
    v
}

/// (label, path relative to nothing — built from the scratch dir at run time)
fn paths(e: &Env) -> Vec<(&'static str, String)> {
    vec![
        ("empty", String::new()),
        ("4200-bytes", format!("{}/{}", e.dir, "pppppppp/".repeat(470))),
        ("300-byte-component", format!("{}/{}", e.dir, "c".repeat(300))),
        ("in-missing-dir", format!("{}/no-such-dir/x", e.dir)),
    ]
}
const PATH_LABELS: [&str; 4] = ["empty", "4200-bytes", "300-byte-component", "in-missing-dir"];

fn sock_paths(e: &Env) -> Vec<(&'static str, String)> {
    let exact = |n: usize| {
        let base = format!("{}/", e.dir);
        format!("{base}{}", "s".repeat(n - base.len()))
    };
    vec![("empty", String::new()), ("107-bytes", exact(107)), ("108-bytes", exact(108)), ("4200-bytes", format!("{}/{}", e.dir, "s".repeat(4200)))]
}
const SOCK_LABELS: [&str; 4] = ["empty", "107-bytes", "108-bytes", "4200-bytes"];

fn var(base: &str, what: &str, op: impl FnMut(&mut Env) -> Ret + 'static) -> Scn {
    scn(&format!("{base}[{what}]"), op).light(2)
}

fn listener_fd(e: &Env) -> i32 {
    peek(e.tl.as_ref().unwrap())[0]
}

pub fn all() -> Vec<Scn> {
    let mut v: Vec<Scn> = Vec::new();

    // ------------------------------------------------------------------ Duration
    for (l, d) in durations(true) {
        v.push(var("TcpStream::connect_with_timeout", &format!("timeout={l}"), move |e| mk(TcpStream::connect_with_timeout(&loopback(e.port), d), fd_of)).init(std_tcp_listener).clean(drain_std_tcp));
        v.push(
            var("TcpStream::connect_with_timeout(dead-port)", &format!("timeout={l}"), move |e| mk(TcpStream::connect_with_timeout(&loopback(e.port), d), fd_of)).init(|e| {
                let l = std::net::TcpListener::bind("127.0.0.1:0").unwrap();
                e.port = l.local_addr().unwrap().port();
            }),
        );
        v.push(
            var("UnixListener::accept_with_timeout", &format!("timeout={l}"), move |e| mk(e.ul.as_mut().unwrap().accept_with_timeout(d), fd_of))
                .init(tiny_unix_listener)
                .prep(unix_client)
                .clean(drain_tiny),
        );
        v.push(
            var("TcpListener::accept_with_timeout", &format!("timeout={l}"), move |e| mk(e.tl.as_mut().unwrap().accept_with_timeout(d), fd_of))
                .init(tiny_tcp_listener)
                .prep(|e| {
                    tcp_client(e);
                    wait_pending(listener_fd(e));
                })
                .clean(drain_tiny),
        );
        v.push(
            var("TcpListener::accept+TcpStream::read_with_timeout", &format!("timeout={l}"), move |e| {
                let l = e.tl.as_mut().unwrap();
                let r = (|| -> tiny_std::Result<TcpStream> {
                    let mut s = l.accept()?;
                    let mut b = [0u8; 16];
                    s.read_with_timeout(&mut b, d)?;
                    Ok(s)
                })();
                mk(r, fd_of)
            })
            .init(tiny_tcp_listener)
            .prep(|e| {
                use std::io::Write;
                let mut c = std::net::TcpStream::connect(("127.0.0.1", e.port)).expect("tcp client connect");
                c.write_all(b"ping").unwrap();
                e.clients.push(Box::new(c));
                wait_pending(listener_fd(e));
                unsafe { libc::usleep(2000) };
            })
            .clean(drain_tiny),
        );
    }
    for (l, d) in durations(false) {
        v.push(
            var("UnixListener::accept_with_timeout(nothing-pending)", &format!("timeout={l}"), move |e| mk(e.ul.as_mut().unwrap().accept_with_timeout(d), fd_of))
                .init(tiny_unix_listener),
        );
        v.push(
            var("TcpListener::accept_with_timeout(nothing-pending)", &format!("timeout={l}"), move |e| mk(e.tl.as_mut().unwrap().accept_with_timeout(d), fd_of))
                .init(tiny_tcp_listener),
        );
        v.push(
            var("TcpListener::accept+TcpStream::read_with_timeout(nothing-sent)", &format!("timeout={l}"), move |e| {
                let l = e.tl.as_mut().unwrap();
                let r = (|| -> tiny_std::Result<TcpStream> {
                    let mut s = l.accept()?;
                    let mut b = [0u8; 16];
                    s.read_with_timeout(&mut b, d)?;
                    Ok(s)
                })();
                mk(r, fd_of)
            })
            .init(tiny_tcp_listener)
            .prep(|e| {
                tcp_client(e);
                wait_pending(listener_fd(e));
            })
            .clean(drain_tiny),
        );
    }
    for (l, t) in [("NoWait", EpollTimeout::NoWait), ("0ms", EpollTimeout::WaitMillis(0)), ("1ms", EpollTimeout::WaitMillis(1)), ("i32::MAX-ms", EpollTimeout::WaitMillis(i32::MAX as u32)), ("u32::MAX-ms", EpollTimeout::WaitMillis(u32::MAX)), ("forever", EpollTimeout::WaitForever)] {
        for nbuf in [0usize, 1, 4096] {
            v.push(
                var("EpollDriver::create+register+wait", &format!("timeout={l},events={nbuf}"), move |e| {
                    let fd = fdv(e.aux[1]);
                    let r = (|| -> tiny_std::Result<EpollDriver> {
                        let d = EpollDriver::create(true)?;
                        // the write end of an empty pipe is ready at once, so even an endless wait returns
                        d.register(fd, 1, EpollEventMask::EPOLLOUT)?;
                        let mut buf = vec![EpollEvent::new(0, EpollEventMask::empty()); nbuf];
                        d.wait(&mut buf, t)?;
                        Ok(d)
                    })();
                    mk(r, peek)
                })
                .init(|e| {
                    let mut p = [0i32; 2];
                    unsafe { libc::pipe2(p.as_mut_ptr(), libc::O_CLOEXEC) };
                    e.aux = p.to_vec();
                }),
            );
        }
    }

    // ------------------------------------------------------------------ paths
    for (i, l) in PATH_LABELS.iter().enumerate() {
        let w = format!("path={l}");
        v.push(var("File::open", &w, move |e| mk(File::open(&us(paths(e)[i].1.clone())), fd_of)));
        v.push(var("OpenOptions(create)", &w, move |e| mk(OpenOptions::new().write(true).create(true).open(&us(paths(e)[i].1.clone())), fd_of)));
        v.push(var("OpenOptions(create_new)", &w, move |e| mk(OpenOptions::new().write(true).create_new(true).open(&us(paths(e)[i].1.clone())), fd_of)));
        v.push(
            var("File::copy", &format!("dest-{w}"), move |e| {
                let (src, dst) = (e.u("src.txt"), us(paths(e)[i].1.clone()));
                let r = (|| -> tiny_std::Result<(File, File)> {
                    let s = File::open(&src)?;
                    let d = s.copy(&dst)?;
                    Ok((s, d))
                })();
                mk(r, |(s, d)| {
                    use tiny_std::unix::fd::AsRawFd;
                    vec![s.as_raw_fd().value(), d.as_raw_fd().value()]
                })
            })
            .init(|e| e.file("src.txt", &vec![b'z'; 5000])),
        );
        v.push(var("fs::copy_file", &format!("src-{w}"), move |e| mk(fs::copy_file(&us(paths(e)[i].1.clone()), &e.u("dst.txt")), fd_of)).prep(|e| e.rm("dst.txt")));
        v.push(var("fs::copy_file", &format!("dest-{w}"), move |e| mk(fs::copy_file(&e.u("src.txt"), &us(paths(e)[i].1.clone())), fd_of)).init(|e| e.file("src.txt", b"content")));
        v.push(var("fs::read", &w, move |e| mk(fs::read(&us(paths(e)[i].1.clone())), nofd)));
        v.push(var("fs::read_to_string", &w, move |e| mk(fs::read_to_string(&us(paths(e)[i].1.clone())), nofd)));
        v.push(var("fs::write", &w, move |e| mk(fs::write(&us(paths(e)[i].1.clone()), b"w"), nofd)));
        v.push(var("fs::metadata", &w, move |e| mk(fs::metadata(&us(paths(e)[i].1.clone())).map(|m| m.len()), nofd)));
        v.push(var("fs::exists", &w, move |e| mk(fs::exists(&us(paths(e)[i].1.clone())), nofd)));
        v.push(var("Directory::open", &w, move |e| mk(Directory::open(&us(paths(e)[i].1.clone())), peek)));
        v.push(var("fs::remove_dir_all", &w, move |e| mk(fs::remove_dir_all(&us(paths(e)[i].1.clone())), nofd)));
        v.push(var("fs::create_dir_all", &w, move |e| mk(fs::create_dir_all(&us(paths(e)[i].1.clone())), nofd)).prep(|e| {
            e.rm("pppppppp");
            e.rm("no-such-dir");
            e.rm(&"c".repeat(300));
        }));
        v.push(
            var(&format!("{SPAWN}"), &format!("bin-{w}"), move |e| {
                let bin = us(paths(e)[i].1.clone());
                let r = (|| -> tiny_std::Result<tiny_std::process::Child> {
                    let mut c = Command::new(&bin)?;
                    c.stdout(tiny_std::process::Stdio::MakePipe);
                    c.spawn()
                })();
                child_guard();
                mk(r, child_fds)
            })
            .label(spawn_label(1, 0)),
        );
        v.push(
            var(&format!("{SPAWN}"), &format!("cwd-{w}"), move |e| {
                let cwd = us(paths(e)[i].1.clone());
                let r = (|| -> tiny_std::Result<tiny_std::process::Child> {
                    let mut c = Command::new(TRUE)?;
                    c.stdin(tiny_std::process::Stdio::Null).cwd(&cwd);
                    c.spawn()
                })();
                child_guard();
                mk(r, child_fds)
            })
            .label(spawn_label(0, 1)),
        );
        v.push(
            var("openpty", &format!("name-{w}"), move |e| {
                let name = us(paths(e)[i].1.clone());
                mk(tiny_std::unix::misc::openpty::openpty(Some(&name), None, None), |t| vec![t.master.value(), t.slave.value()])
            })
            .plain_handle()
            .label(|sc, ordinal, _| match (sc, ordinal) {
                ("open" | "openat", 0) => Some("master".to_string()),
                ("open" | "openat", 1) => Some("slave".to_string()),
                _ => None,
            }),
        );
    }
    // the 512-byte stack buffer of create_dir_all
    for n in [51usize, 52, 60] {
        v.push(var("fs::create_dir_all", &format!("path={}-bytes-nested", n * 10), move |e| mk(fs::create_dir_all(&e.u(&"abcdefghi/".repeat(n))), nofd)).prep(|e| e.rm("abcdefghi")));
    }

    // ------------------------------------------------------------------ unix socket addresses
    for (i, l) in SOCK_LABELS.iter().enumerate() {
        let w = format!("path={l}");
        v.push(var("UnixStream::connect", &w, move |e| mk(UnixStream::connect(&us(sock_paths(e)[i].1.clone())), fd_of)));
        v.push(var("UnixStream::try_connect", &w, move |e| mk_opt(UnixStream::try_connect(&us(sock_paths(e)[i].1.clone())), fd_of)));
        v.push(var("UnixListener::bind", &w, move |e| mk(UnixListener::bind(&us(sock_paths(e)[i].1.clone())), peek)).prep(move |e| {
            let p = sock_paths(e)[i].1.clone();
            if !p.is_empty() {
                let _ = std::fs::remove_file(p);
            }
        }));
    }
    // a 107-byte path somebody listens on: the longest address that can succeed
    v.push(
        var("UnixStream::connect", "path=107-bytes,listening", |e| mk(UnixStream::connect(&us(sock_paths(e)[1].1.clone())), fd_of))
            .init(|e| {
                let p = sock_paths(e)[1].1.clone();
                let l = std::os::unix::net::UnixListener::bind(&p).unwrap();
                l.set_nonblocking(true).unwrap();
                e.ustd = Some(l);
            })
            .clean(drain_std_unix),
    );

    // ------------------------------------------------------------------ inet addresses
    let addrs: [(&str, [u8; 4], Option<u16>); 5] = [
        ("0.0.0.0:listener-port", [0, 0, 0, 0], None),
        ("127.0.0.1:0", [127, 0, 0, 1], Some(0)),
        ("0.0.0.0:0", [0, 0, 0, 0], Some(0)),
        ("255.255.255.255:listener-port", [255, 255, 255, 255], None),
        ("127.0.0.1:65535", [127, 0, 0, 1], Some(65535)),
    ];
    for (l, ip, port) in addrs {
        let w = format!("addr={l}");
        let a = move |e: &Env| SocketAddress::new(Ip::V4(ip), port.unwrap_or(e.port));
        v.push(var("TcpStream::connect", &w, move |e| mk(TcpStream::connect(&a(e)), fd_of)).init(std_tcp_listener).clean(drain_std_tcp));
        v.push(
            var("TcpStream::connect_with_timeout", &w, move |e| mk(TcpStream::connect_with_timeout(&a(e), Duration::from_millis(50)), fd_of))
                .init(std_tcp_listener)
                .clean(drain_std_tcp),
        );
        v.push(var("TcpStream::try_connect", &w, move |e| mk(TcpStream::try_connect(&a(e)), |t| fd_from_debug(&format!("{t:?}")))).init(std_tcp_listener).clean(drain_std_tcp));
    }
    for (l, ip, port) in [("0.0.0.0:0", [0u8, 0, 0, 0], 0u16), ("127.0.0.1:65535", [127, 0, 0, 1], 65535), ("192.0.2.1:0 (not local)", [192, 0, 2, 1], 0), ("255.255.255.255:0", [255, 255, 255, 255], 0)] {
        v.push(var("TcpListener::bind", &format!("addr={l}"), move |_| mk(TcpListener::bind(&SocketAddress::new(Ip::V4(ip), port)), peek)));
    }

    // ------------------------------------------------------------------ counts / lengths
    for n in [0usize, 1, 65536] {
        v.push(var("system_random", &format!("len={n}"), move |_| {
            let mut b = vec![0u8; n];
            mk(tiny_std::unix::random::system_random(&mut b), nofd)
        }));
        v.push(var("fs::write", &format!("len={n}"), move |e| mk(fs::write(&e.u("w.bin"), &vec![7u8; n]), nofd)).prep(|e| e.rm("w.bin")));
        v.push(
            var("fs::read", &format!("file-len={n}"), move |e| mk(fs::read(&e.u("r.bin")), nofd)).init(move |e| e.file("r.bin", &vec![9u8; n])),
        );
        v.push(
            var("File::copy", &format!("file-len={n}"), move |e| {
                let (src, dst) = (e.u("src.bin"), e.u("dst.bin"));
                let r = (|| -> tiny_std::Result<(File, File)> {
                    let s = File::open(&src)?;
                    let d = s.copy(&dst)?;
                    Ok((s, d))
                })();
                mk(r, |(s, d)| {
                    use tiny_std::unix::fd::AsRawFd;
                    vec![s.as_raw_fd().value(), d.as_raw_fd().value()]
                })
            })
            .init(move |e| e.file("src.bin", &vec![5u8; n]))
            .prep(|e| e.rm("dst.bin")),
        );
    }
    for n in [0usize, 4096, 1 << 16] {
        // (buffers smaller than the file are left out: `getpwuid_r` is not known to terminate for them)
        v.push(
            var("getpwuid_r(found)", &format!("buf-len={n}"), move |_| {
                let mut buf = vec![0u8; n];
                mk(tiny_std::unix::passwd::getpw_r::getpwuid_r(0, &mut buf).map(|o| o.map(|p| p.name.to_string())), nofd)
            })
            .label(|sc, _, _| matches!(sc, "open" | "openat").then(|| "passwd-file".to_string())),
        );
    }
    for n in [0u32, 1, 32768, 32769, 1 << 20, u32::MAX] {
        v.push(var("setup_io_uring", &format!("entries={n}"), move |_| {
            mk(rusl::io_uring::setup_io_uring(n, rusl::platform::IoUringParamFlags::empty(), 0, 0), |u| vec![u.fd.value()])
        }));
    }
    for n in [0usize, 1, 2000] {
        v.push(
            var(&format!("{SPAWN}"), &format!("args={n}"), move |_| {
                let mut c = Command::new(TRUE).unwrap();
                for _ in 0..n {
                    c.arg(rusl::unix_lit!("x"));
                }
                c.stdout(tiny_std::process::Stdio::MakePipe);
                let r = c.spawn();
                child_guard();
                mk(r, child_fds)
            })
            .label(spawn_label(1, 0)),
        );
    }
    v
}
