//! C12 — descriptor hygiene.  Fault enumeration (engine E2) over the syscall seam on
//! the real tiny-std / rusl code.
//!
//! For every scenario (a public operation that creates descriptors, run as a closure
//! that returns "the value handed to the caller"):
//!   1. fault-free run under the seam, recording the N intercepted calls of the parent
//!      and (for spawn) the calls the forked child makes between fork and exec;
//!   2. for every index k and every alternative ANSWER of call k a re-run with call k
//!      answering that way.  Alternative answers are (a) every errno of the call's menu
//!      (DESIGN.md Appendix C; `close` really closes and then reports the error),
//!      (b) ordinary non-error answers that steer a branch: `ppoll`/`epoll_pwait` = 0 (timed
//!      out) when a timeout was passed, `connect` = EINPROGRESS/EAGAIN, `accept4` = EAGAIN,
//!      socket `read`/`write` = EAGAIN, `read`/`getdents64`/`copy_file_range` = 0, short
//!      counts, (c) OUT-PARAMETER values that steer a branch: ioctl(TIOCGPTN) index
//!      {0,255,256,1000,u32::MAX}, stat size {0,2^40,-1} and mode {file,dir}, wait4 status,
//!      getdents64 d_type = DT_UNKNOWN, io_uring_setup without FEAT_SINGLE_MMAP, the
//!      8-byte exec-failure message on spawn's sync pipe.
//!      Pairs of deviations (second one enumerated on the log of the run that already
//!      contains the first): quick tier when the first one is a non-error answer
//!      (b)/(c)/EAGAIN/EINPROGRESS/EINTR, thorough tier all pairs.
//! Oracle per run: a shadow descriptor table built from the intercepted calls,
//! cross-checked with /proc/self/fd before the operation, after it and after the
//! returned value was dropped.

#![allow(non_upper_case_globals)]

mod recv;
mod scenarios;
#[cfg(not(feature = "noalloc"))]
mod variants;

use common::*;
use scenarios::{Env, Res, Ret, Scn};
use serde_json::{json, Value};
use std::collections::{BTreeMap, BTreeSet, HashMap, HashSet};
use std::sync::atomic::{AtomicI32, AtomicU32, Ordering};
use sysx::{Call, Decision, Plan};

pub static PARENT: AtomicI32 = AtomicI32::new(0);
/// Start state of the descriptor table the operation runs from: 0 = as inherited (0,1,2 occupied),
/// 1 = descriptor 0 closed, 2 = descriptors 0,1,2 closed (the operation is then handed 0/1/2).
pub static START: AtomicI32 = AtomicI32::new(0);
static SAVED_STDIO: [AtomicI32; 3] = [AtomicI32::new(-1), AtomicI32::new(-1), AtomicI32::new(-1)];
const START_NAMES: [&str; 3] = ["default", "fd0-closed", "fd012-closed"];

fn start_name() -> &'static str {
    START_NAMES[START.load(Ordering::Relaxed) as usize]
}
fn start_closed() -> &'static [i32] {
    match START.load(Ordering::Relaxed) {
        1 => &[0],
        2 => &[0, 1, 2],
        _ => &[],
    }
}
/// Right before the operation: free the low descriptor numbers of this start state.
fn apply_start() {
    for fd in start_closed() {
        unsafe {
            libc::close(*fd);
        }
    }
}
/// After the case was analysed and repaired: occupy 0..2 again with the harness's saved stdio, so that
/// the harness's own setup/cleanup between cases never receives a low number.
fn restore_start() {
    for fd in start_closed() {
        unsafe {
            libc::dup2(SAVED_STDIO[*fd as usize].load(Ordering::Relaxed), *fd);
        }
    }
}

/// scenarios with at most this many parent-side calls get pairs of deviations
const PAIR_BOUND: usize = 16;

/// In a forked child that came back into harness code (a child-side failure makes
/// `spawn` return in the child): leave at once, before anything is touched.
pub fn child_guard() {
    unsafe {
        if libc::getpid() != PARENT.load(Ordering::Relaxed) {
            libc::_exit(0);
        }
    }
}

// ---------------------------------------------------------------------------
// errno menus (DESIGN.md Appendix C): (errnos, how many of them the quick tier uses)

fn menu(nr: i64) -> (&'static [i32], usize) {
    use libc::*;
    const OPEN: &[i32] = &[EMFILE, ENOENT, EACCES, ENOMEM];
    const NEWFD: &[i32] = &[EMFILE, ENFILE, ENOMEM];
    const ACCEPT: &[i32] = &[EMFILE, EAGAIN, ENFILE, ENOMEM, EINTR];
    const CONNECT: &[i32] = &[ECONNREFUSED, EAGAIN, ENOENT, EINPROGRESS, EINTR];
    const BIND: &[i32] = &[EADDRINUSE, EACCES];
    const LISTEN: &[i32] = &[EADDRINUSE];
    const FORK: &[i32] = &[EAGAIN, ENOMEM];
    const DUP3: &[i32] = &[EMFILE, EBUSY];
    const CHDIR: &[i32] = &[ENOENT, ENOTDIR];
    const SETID: &[i32] = &[EPERM];
    const SETPGID: &[i32] = &[EPERM, ESRCH];
    const EXECVE: &[i32] = &[ENOENT, EACCES, ENOMEM, E2BIG];
    const MMAP: &[i32] = &[ENOMEM];
    const IOCTL: &[i32] = &[ENOTTY, EIO];
    const FCNTL: &[i32] = &[EINVAL];
    const GETDENTS: &[i32] = &[EIO];
    const DIRMOD: &[i32] = &[EACCES, ENOSPC, EROFS];
    const CFR: &[i32] = &[EXDEV, EIO];
    const STAT: &[i32] = &[EACCES];
    const RW: &[i32] = &[EINTR, EIO];
    const MSG: &[i32] = &[EAGAIN, EINTR, ENOMEM];
    const POLL: &[i32] = &[EINTR, ENOMEM];
    const CLOSE: &[i32] = &[EINTR, EIO];
    const WAIT: &[i32] = &[EINTR, ECHILD];
    const EPCTL: &[i32] = &[ENOMEM, ENOSPC];
    const SOCKNAME: &[i32] = &[ENOBUFS];
    const NONE: &[i32] = &[];
    match nr {
        SYS_open | SYS_openat | SYS_openat2 | SYS_creat => (OPEN, 1),
        SYS_socket | SYS_pipe2 | SYS_pipe | SYS_epoll_create1 | SYS_epoll_create | SYS_io_uring_setup | SYS_socketpair => (NEWFD, 1),
        SYS_accept4 | SYS_accept => (ACCEPT, 2),
        SYS_connect => (CONNECT, 2),
        SYS_bind => (BIND, 1),
        SYS_listen => (LISTEN, 1),
        SYS_fork | SYS_vfork | SYS_clone => (FORK, 1),
        SYS_dup3 | SYS_dup2 | SYS_dup => (DUP3, 1),
        SYS_chdir => (CHDIR, 1),
        SYS_setuid | SYS_setgid => (SETID, 1),
        SYS_setpgid => (SETPGID, 1),
        SYS_execve => (EXECVE, 1),
        SYS_mmap | SYS_mremap => (MMAP, 1),
        SYS_ioctl => (IOCTL, 1),
        SYS_fcntl => (FCNTL, 1),
        SYS_getdents64 | SYS_getdents => (GETDENTS, 1),
        SYS_unlinkat | SYS_mkdirat | SYS_renameat | SYS_renameat2 | SYS_unlink | SYS_rmdir | SYS_mkdir | SYS_rename => (DIRMOD, 1),
        SYS_copy_file_range => (CFR, 1),
        SYS_statx | SYS_fstat | SYS_stat | SYS_lstat | SYS_newfstatat => (STAT, 1),
        SYS_read | SYS_write | SYS_readv | SYS_writev => (RW, 1),
        SYS_recvmsg | SYS_sendmsg | SYS_recvfrom | SYS_sendto => (MSG, 1),
        SYS_ppoll | SYS_poll | SYS_epoll_pwait | SYS_epoll_wait => (POLL, 1),
        SYS_close => (CLOSE, 1),
        SYS_wait4 => (WAIT, 1),
        SYS_epoll_ctl => (EPCTL, 1),
        SYS_getsockname | SYS_setsockopt | SYS_getsockopt => (SOCKNAME, 1),
        // exit never returns, munmap/uname/getpid have no failure Linux really produces here
        _ => (NONE, 0),
    }
}

fn errno_name(e: i32) -> String {
    use libc::*;
    let t: &[(i32, &str)] = &[
        (EMFILE, "EMFILE"), (ENFILE, "ENFILE"), (ENOMEM, "ENOMEM"), (ENOENT, "ENOENT"), (EACCES, "EACCES"), (EAGAIN, "EAGAIN"),
        (EINTR, "EINTR"), (EIO, "EIO"), (ECONNREFUSED, "ECONNREFUSED"), (EINPROGRESS, "EINPROGRESS"), (EADDRINUSE, "EADDRINUSE"),
        (EBUSY, "EBUSY"), (ENOTDIR, "ENOTDIR"), (EPERM, "EPERM"), (ESRCH, "ESRCH"), (E2BIG, "E2BIG"), (ENOTTY, "ENOTTY"),
        (EINVAL, "EINVAL"), (ENOSPC, "ENOSPC"), (EROFS, "EROFS"), (EXDEV, "EXDEV"), (ECHILD, "ECHILD"), (ENOBUFS, "ENOBUFS"),
    ];
    t.iter().find(|x| x.0 == e).map(|x| x.1.to_string()).unwrap_or_else(|| format!("errno{e}"))
}

// ---------------------------------------------------------------------------
// the plan: fails the chosen calls, records what pipe2/socketpair handed out, and
// lets the forked child report its calls through a shared page

#[derive(Clone, Copy, Debug, PartialEq, Eq, Hash, PartialOrd, Ord)]
pub enum OutKind {
    /// ioctl(TIOCGPTN): the pty index written through the pointer
    PtyNum,
    /// stat family: st_size / st_mode of the filled buffer
    StSize,
    StMode,
    /// wait4: the status word
    WaitStatus,
    /// accept4: the peer address length the kernel reports through its in/out pointer
    AddrLen,
    /// getdents64: d_type of every returned record
    DentsType,
    /// io_uring_setup: IORING_FEAT_SINGLE_MMAP cleared in params.features (the legacy two-mmap layout)
    UringNoSingleMmap,
}
#[derive(Clone, Copy, Debug, PartialEq, Eq, Hash, PartialOrd, Ord)]
pub enum FillKind {
    /// read(fd, buf, 8) = 8 with errno 2 + "NOEX": what the child sends when execve failed
    ExecFailedMsg,
    /// read(fd, buf, 8) = 8 with a wrong footer
    BadFooterMsg,
}
/// One alternative answer of a call.
#[derive(Clone, Copy, Debug, PartialEq, Eq, Hash, PartialOrd, Ord)]
pub enum Ans {
    /// fails with this errno (not executed; `close` is executed and then reports it)
    Errno(i32),
    /// not executed, answers this non-error value (0 = timed out / end of data, short count)
    Ret(i64),
    /// executed, then the value it wrote through its out-parameter is replaced
    Out(OutKind, i64),
    /// not executed, the harness fills the out-buffer and answers its length
    Fill(FillKind),
}
impl Ans {
    fn encode(&self) -> String {
        match self {
            Ans::Errno(e) => format!("errno:{e}"),
            Ans::Ret(v) => format!("ret:{v}"),
            Ans::Out(k, v) => format!("out:{k:?}:{v}"),
            Ans::Fill(k) => format!("fill:{k:?}"),
        }
    }
    fn decode(s: &str) -> Option<Ans> {
        let mut it = s.split(':');
        match it.next()? {
            "errno" => Some(Ans::Errno(it.next()?.parse().ok()?)),
            "ret" => Some(Ans::Ret(it.next()?.parse().ok()?)),
            "out" => {
                let k = match it.next()? {
                    "PtyNum" => OutKind::PtyNum,
                    "StSize" => OutKind::StSize,
                    "StMode" => OutKind::StMode,
                    "WaitStatus" => OutKind::WaitStatus,
                    "AddrLen" => OutKind::AddrLen,
                    "DentsType" => OutKind::DentsType,
                    "UringNoSingleMmap" => OutKind::UringNoSingleMmap,
                    _ => return None,
                };
                Some(Ans::Out(k, it.next()?.parse().ok()?))
            }
            "fill" => Some(Ans::Fill(match it.next()? {
                "ExecFailedMsg" => FillKind::ExecFailedMsg,
                "BadFooterMsg" => FillKind::BadFooterMsg,
                _ => return None,
            })),
            _ => None,
        }
    }
    /// an ordinary answer rather than a failure (quick tier enumerates pairs that start with one)
    fn soft(&self) -> bool {
        match self {
            Ans::Errno(e) => [libc::EAGAIN, libc::EINPROGRESS, libc::EINTR].contains(e),
            _ => true,
        }
    }
    /// how the deviation is named in a violation key (`...@<this>`), given the syscall's name
    fn key_name(&self, sys: &str) -> String {
        match self {
            Ans::Errno(_) => sys.to_string(),
            Ans::Ret(v) => format!("{sys}={v}"),
            Ans::Out(k, _) => format!("{sys}:{k:?}"),
            Ans::Fill(k) => format!("{sys}:{k:?}"),
        }
    }
    fn describe(&self) -> String {
        match self {
            Ans::Errno(e) => format!("failing with {}", errno_name(*e)),
            Ans::Ret(0) => "answering 0 (timed out / end of data)".to_string(),
            Ans::Ret(v) => format!("answering {v}"),
            Ans::Out(k, v) => format!("succeeding with out-parameter {k:?} = {v}"),
            Ans::Fill(k) => format!("answering 8 bytes ({k:?})"),
        }
    }
}

#[derive(Clone, Copy, Debug, PartialEq, Eq, Hash, PartialOrd, Ord)]
pub struct Fault {
    child: bool,
    k: usize,
    /// the system call the deviation was enumerated for (-1: any).  A deviation on the other side of the fork can
    /// change what call #k is; the answer is only given to the call it was meant for.
    nr: i64,
    ans: Ans,
}

fn stat_buf(nr: i64, args: &[u64; 6]) -> u64 {
    if nr == libc::SYS_newfstatat {
        args[2]
    } else {
        args[1]
    }
}

/// Every alternative answer of one parent-side call.
fn deviations(c: &CallInfo) -> Vec<Ans> {
    use libc::*;
    let mut v: Vec<Ans> = menu(c.nr).0.iter().map(|e| Ans::Errno(*e)).collect();
    let a = &c.args;
    match c.nr {
        SYS_ppoll => {
            if a[2] != 0 {
                v.push(Ans::Ret(0));
            }
        }
        SYS_epoll_pwait | SYS_epoll_wait => {
            if a[3] as i32 != -1 {
                v.push(Ans::Ret(0));
            }
        }
        SYS_read => {
            v.push(Ans::Ret(0));
            if c.sock {
                v.push(Ans::Errno(EAGAIN));
            }
            if a[2] == 8 {
                v.push(Ans::Fill(FillKind::ExecFailedMsg));
                v.push(Ans::Fill(FillKind::BadFooterMsg));
                v.push(Ans::Ret(4));
            }
        }
        SYS_write => {
            if c.sock {
                v.push(Ans::Errno(EAGAIN));
            }
        }
        SYS_ioctl => {
            if a[1] == TIOCGPTN {
                for x in [0i64, 255, 256, 1000, u32::MAX as i64] {
                    v.push(Ans::Out(OutKind::PtyNum, x));
                }
            }
        }
        SYS_newfstatat | SYS_fstat | SYS_stat | SYS_lstat => {
            for x in [0i64, 1 << 40, -1] {
                v.push(Ans::Out(OutKind::StSize, x));
            }
            for x in [(S_IFREG | 0o644) as i64, (S_IFDIR | 0o755) as i64] {
                v.push(Ans::Out(OutKind::StMode, x));
            }
        }
        SYS_wait4 => {
            if a[1] != 0 {
                for x in [0i64, 256, 9] {
                    v.push(Ans::Out(OutKind::WaitStatus, x));
                }
            }
        }
        SYS_accept4 | SYS_accept => {
            if a[1] != 0 && a[2] != 0 {
                for x in [0i64, 2, 110, 111, 112, 4096] {
                    v.push(Ans::Out(OutKind::AddrLen, x));
                }
            }
        }
        SYS_getdents64 => {
            v.push(Ans::Ret(0));
            v.push(Ans::Out(OutKind::DentsType, DT_UNKNOWN as i64));
        }
        SYS_io_uring_setup => v.push(Ans::Out(OutKind::UringNoSingleMmap, 0)),
        SYS_copy_file_range => {
            v.push(Ans::Ret(0));
            v.push(Ans::Ret(1));
        }
        _ => {}
    }
    v
}

const CHILD_CAP: usize = 96;
#[repr(C)]
#[derive(Clone, Copy)]
struct ChildRec {
    idx: u32,
    nr: i32,
    ret: i64,
}
#[repr(C)]
struct Shared {
    n: AtomicU32,
    recs: [ChildRec; CHILD_CAP],
}

fn alloc_shared() -> *mut Shared {
    unsafe {
        let p = libc::mmap(
            std::ptr::null_mut(),
            std::mem::size_of::<Shared>(),
            libc::PROT_READ | libc::PROT_WRITE,
            libc::MAP_SHARED | libc::MAP_ANONYMOUS,
            -1,
            0,
        );
        assert!(p != libc::MAP_FAILED);
        p as *mut Shared
    }
}

struct FdPlan {
    parent: i32,
    faults: Vec<Fault>,
    hit: Vec<bool>,
    /// every `close` really closes and then reports this errno (drop phase)
    close_err: Option<i32>,
    pairs: HashMap<usize, [i32; 2]>,
    /// descriptors the kernel installed through SCM_RIGHTS control messages of a successful recvmsg (read from the control buffer the kernel filled)
    received: HashMap<usize, Vec<i32>>,
    /// parent-side read/write calls whose descriptor is a socket
    sock: HashSet<usize>,
    shared: *mut Shared,
}

impl Plan for FdPlan {
    fn decide(&mut self, idx: usize, nr: i64, args: &[u64; 6]) -> Decision {
        let child = unsafe { libc::getpid() } != self.parent;
        if child && !self.shared.is_null() {
            // recorded before the call is answered: a successful execve never comes back
            unsafe {
                let sh = &mut *self.shared;
                let n = sh.n.fetch_add(1, Ordering::SeqCst) as usize;
                if n < CHILD_CAP {
                    sh.recs[n] = ChildRec { idx: idx as u32, nr: nr as i32, ret: 0 };
                }
            }
        }
        for (i, f) in self.faults.iter().enumerate() {
            if f.child == child && f.k == idx && (f.nr < 0 || f.nr == nr) {
                self.hit[i] = true;
                return match f.ans {
                    Ans::Errno(e) if nr == libc::SYS_close => Decision::PassThenForce(-(e as i64)),
                    Ans::Errno(e) => Decision::Force(-(e as i64)),
                    Ans::Ret(v) => Decision::Force(v),
                    Ans::Out(..) => Decision::Pass, // patched in `after`
                    Ans::Fill(kind) => {
                        let msg: [u8; 8] = match kind {
                            FillKind::ExecFailedMsg => [0, 0, 0, 2, b'N', b'O', b'E', b'X'],
                            FillKind::BadFooterMsg => [0, 0, 0, 2, b'n', b'o', b'p', b'e'],
                        };
                        if args[1] != 0 && args[2] >= 8 {
                            unsafe { std::ptr::copy_nonoverlapping(msg.as_ptr(), args[1] as *mut u8, 8) };
                        }
                        Decision::Force(8)
                    }
                };
            }
        }
        if !child && (nr == libc::SYS_read || nr == libc::SYS_write) {
            unsafe {
                let mut st: libc::stat = std::mem::zeroed();
                if libc::fstat(args[0] as i32, &mut st) == 0 && (st.st_mode & libc::S_IFMT) == libc::S_IFSOCK {
                    self.sock.insert(idx);
                }
            }
        }
        if nr == libc::SYS_close && !child {
            if let Some(e) = self.close_err {
                return Decision::PassThenForce(-(e as i64));
            }
        }
        Decision::Pass
    }
    fn after(&mut self, idx: usize, c: &Call) {
        if c.pid != self.parent {
            return;
        }
        for f in &self.faults {
            if f.child || f.k != idx || !(f.nr < 0 || f.nr == c.nr) {
                continue;
            }
            let Ans::Out(kind, v) = f.ans else { continue };
            let Some(real) = c.real else { continue };
            if real < 0 {
                continue;
            }
            unsafe {
                match kind {
                    OutKind::PtyNum => {
                        if c.args[2] != 0 {
                            (c.args[2] as *mut u32).write_unaligned(v as u32);
                        }
                    }
                    OutKind::StSize => {
                        let b = stat_buf(c.nr, &c.args);
                        if b != 0 {
                            ((b + 48) as *mut i64).write_unaligned(v);
                        }
                    }
                    OutKind::StMode => {
                        let b = stat_buf(c.nr, &c.args);
                        if b != 0 {
                            ((b + 24) as *mut u32).write_unaligned(v as u32);
                        }
                    }
                    OutKind::AddrLen => {
                        if c.args[2] != 0 {
                            (c.args[2] as *mut u32).write_unaligned(v as u32);
                        }
                    }
                    OutKind::WaitStatus => {
                        if c.args[1] != 0 && real > 0 {
                            (c.args[1] as *mut i32).write_unaligned(v as i32);
                        }
                    }
                    OutKind::DentsType => {
                        let (base, n) = (c.args[1], real as u64);
                        let mut off = 0u64;
                        while off + 19 <= n {
                            let reclen = ((base + off + 16) as *const u16).read_unaligned() as u64;
                            ((base + off + 18) as *mut u8).write(v as u8);
                            if reclen == 0 {
                                break;
                            }
                            off += reclen;
                        }
                    }
                    OutKind::UringNoSingleMmap => {
                        if c.args[1] != 0 {
                            let p = (c.args[1] + 20) as *mut u32;
                            p.write_unaligned(p.read_unaligned() & !1);
                        }
                    }
                }
            }
        }
        if c.nr == libc::SYS_recvmsg && c.real.map(|r| r >= 0).unwrap_or(false) && c.args[1] != 0 {
            let fds = unsafe { scm_rights_installed(c.args[1] as *const libc::msghdr) };
            if !fds.is_empty() {
                self.received.insert(idx, fds);
            }
        }
        if c.real == Some(0) && (c.nr == libc::SYS_pipe2 || c.nr == libc::SYS_pipe || c.nr == libc::SYS_socketpair) {
            let p = if c.nr == libc::SYS_socketpair { c.args[3] } else { c.args[0] } as *const i32;
            if !p.is_null() {
                let v = unsafe { [p.read_unaligned(), p.add(1).read_unaligned()] };
                self.pairs.insert(idx, v);
            }
        }
    }
}

/// The descriptors the kernel installed for the SCM_RIGHTS messages of a received msghdr — a reference walk over the
/// control buffer as the kernel leaves it (msg_controllen = bytes used; a truncated last message may end unaligned).
unsafe fn scm_rights_installed(m: *const libc::msghdr) -> Vec<i32> {
    let mut out = Vec::new();
    let base = (*m).msg_control as usize;
    let end = base + (*m).msg_controllen as usize;
    if base == 0 {
        return out;
    }
    let mut p = base;
    while p + 16 <= end {
        let len = (p as *const usize).read_unaligned();
        let level = ((p + 8) as *const i32).read_unaligned();
        let ty = ((p + 12) as *const i32).read_unaligned();
        if len < 16 {
            break;
        }
        if level == libc::SOL_SOCKET && ty == libc::SCM_RIGHTS {
            let data_end = (p + len).min(end);
            let mut q = p + 16;
            while q + 4 <= data_end {
                out.push((q as *const i32).read_unaligned());
                q += 4;
            }
        }
        p += (len + 7) & !7;
    }
    out
}

// ---------------------------------------------------------------------------
// shadow descriptor / mapping table

#[derive(Clone, Debug, PartialEq)]
enum Origin {
    Pre,
    Given,
    New { sc: &'static str, ordinal: usize, sub: usize },
}

#[derive(Default)]
struct Shadow {
    open: BTreeMap<i32, Origin>,
    closed_in_run: BTreeSet<i32>,
    created: HashMap<&'static str, usize>,
    maps: Vec<(u64, u64)>,
    stray_munmaps: usize,
    /// (kind, description)
    viol: Vec<(&'static str, String)>,
}

fn creator(nr: i64) -> bool {
    use libc::*;
    matches!(
        nr,
        SYS_open | SYS_openat | SYS_openat2 | SYS_creat | SYS_socket | SYS_accept | SYS_accept4 | SYS_epoll_create | SYS_epoll_create1
            | SYS_io_uring_setup | SYS_dup | SYS_eventfd | SYS_eventfd2 | SYS_timerfd_create | SYS_memfd_create | SYS_inotify_init1
            | SYS_signalfd4 | SYS_pidfd_open | SYS_userfaultfd
    )
}

impl Shadow {
    fn new(before: &BTreeMap<i32, String>, given: &[i32]) -> Shadow {
        let mut s = Shadow::default();
        for fd in before.keys() {
            s.open.insert(*fd, if given.contains(fd) { Origin::Given } else { Origin::Pre });
        }
        s
    }
    fn add(&mut self, fd: i32, sc: &'static str, sub: usize, pair_ordinal: Option<usize>) -> usize {
        let ordinal = match pair_ordinal {
            Some(o) => o,
            None => {
                let c = self.created.entry(sc).or_insert(0);
                *c += 1;
                *c - 1
            }
        };
        self.open.insert(fd, Origin::New { sc, ordinal, sub });
        self.closed_in_run.remove(&fd);
        ordinal
    }
    fn apply(&mut self, idx: usize, c: &Call, pairs: &HashMap<usize, [i32; 2]>, received: &HashMap<usize, Vec<i32>>, phase: &str) {
        let Some(real) = c.real else { return }; // forced: never happened
        let nr = c.nr;
        let name = sysx::name(nr);
        if creator(nr) {
            if real >= 0 {
                self.add(real as i32, name, 0, None);
            }
        } else if nr == libc::SYS_pipe2 || nr == libc::SYS_pipe || nr == libc::SYS_socketpair {
            if real == 0 {
                if let Some(p) = pairs.get(&idx) {
                    let o = self.add(p[0], name, 0, None);
                    self.add(p[1], name, 1, Some(o));
                }
            }
        } else if nr == libc::SYS_recvmsg {
            if let Some(fds) = received.get(&idx) {
                let mut ord = None;
                for (i, fd) in fds.iter().enumerate() {
                    ord = Some(self.add(*fd, name, i, ord));
                }
            }
        } else if nr == libc::SYS_dup3 || nr == libc::SYS_dup2 {
            if real >= 0 {
                self.add(c.args[1] as i32, name, 0, None);
            }
        } else if nr == libc::SYS_fcntl {
            let cmd = c.args[1] as i32;
            if real >= 0 && (cmd == libc::F_DUPFD || cmd == libc::F_DUPFD_CLOEXEC) {
                self.add(real as i32, "fcntl-dupfd", 0, None);
            }
        } else if nr == libc::SYS_close {
            let fd = c.args[0] as i32;
            match self.open.remove(&fd) {
                Some(Origin::Pre) => {
                    self.viol.push(("closes-foreign-fd", format!("{phase}: call #{idx} close({fd}) closes a descriptor that was open before the operation and was not handed to it (kernel answered {real})")));
                }
                Some(_) => {
                    self.closed_in_run.insert(fd);
                }
                None => {
                    let how = if self.closed_in_run.contains(&fd) { "which this run already closed" } else { "which is not open" };
                    self.viol.push(("double-close", format!("{phase}: call #{idx} close({fd}) on a descriptor number {how} (kernel answered {real})")));
                }
            }
        } else if nr == libc::SYS_mmap {
            if !(-4095..0).contains(&real) {
                self.maps.push((real as u64, c.args[1]));
            }
        } else if nr == libc::SYS_munmap {
            let key = (c.args[0], c.args[1]);
            match self.maps.iter().position(|m| *m == key) {
                Some(p) => {
                    self.maps.remove(p);
                }
                None => self.stray_munmaps += 1,
            }
        }
    }
}

fn generic_label(sc: &str, ordinal: usize, sub: usize, total: usize) -> String {
    let base = match sc {
        "socket" => "socket",
        "accept4" | "accept" => "accepted-socket",
        "epoll_create1" | "epoll_create" => "epoll-fd",
        "io_uring_setup" => "ring-fd",
        "recvmsg" => "received-not-handed-over",
        "pipe2" | "pipe" => {
            if sub == 0 {
                "pipe-read-end"
            } else {
                "pipe-write-end"
            }
        }
        "open" | "openat" | "openat2" => "file",
        o => o,
    };
    if total > 1 {
        format!("{base}#{ordinal}")
    } else {
        base.to_string()
    }
}

// ---------------------------------------------------------------------------
// one case

#[derive(Clone, Copy, Debug)]
pub struct CallInfo {
    nr: i64,
    args: [u64; 6],
    /// read/write on a socket
    sock: bool,
}

#[derive(Default, Clone)]
struct CaseOut {
    class: String,
    /// the parent's calls during the operation
    parent_calls: Vec<CallInfo>,
    /// (index in the child's numbering, syscall number) of the forked child's calls
    child_calls: Vec<(usize, i64)>,
    fork_idx: Option<usize>,
    leaked: BTreeSet<String>,
    fault_names: Vec<String>,
    totals: HashMap<&'static str, usize>,
}

struct Ctx<'a> {
    shared: *mut Shared,
    /// labels leaked by the fault-free run (the same defect is not re-keyed per failing call)
    base_leaks: Option<&'a BTreeSet<String>>,
    base_totals: Option<&'a HashMap<&'static str, usize>>,
    /// what each single deviation leaked (to blame the right call of a pair)
    single_leaks: Option<&'a HashMap<Fault, BTreeSet<String>>>,
    /// the same by (failing syscall, answer): an earlier tolerated deviation can shift the index of the second one
    single_leaks_by_name: Option<&'a HashMap<(String, Ans), BTreeSet<String>>>,
    verbose: bool,
}

/// (device, inode, status flags, descriptor flags) of an open descriptor
fn fd_ident(fd: i32) -> Option<(u64, u64, i32, i32)> {
    unsafe {
        let mut st: libc::stat = std::mem::zeroed();
        if libc::fstat(fd, &mut st) != 0 {
            return None;
        }
        Some((st.st_dev as u64, st.st_ino as u64, libc::fcntl(fd, libc::F_GETFL), libc::fcntl(fd, libc::F_GETFD)))
    }
}

fn fd_map() -> BTreeMap<i32, String> {
    sysx::fd_table().into_iter().collect()
}

fn case_json(name: &str, faults: &[Fault], drop_close: Option<i32>) -> Value {
    json!({
        "op": name,
        "scenario": name,
        "k": faults.iter().map(|f| f.k).collect::<Vec<_>>(),
        "errno": faults.iter().map(|f| if let Ans::Errno(e) = f.ans { json!(e) } else { Value::Null }).collect::<Vec<_>>(),
        "answer": faults.iter().map(|f| f.ans.encode()).collect::<Vec<_>>(),
        "child": faults.iter().map(|f| f.child).collect::<Vec<_>>(),
        "nr": faults.iter().map(|f| f.nr).collect::<Vec<_>>(),
        "drop_close_errno": drop_close,
        "start": start_name(),
    })
}

fn reap(pid: i32) {
    unsafe {
        let mut st = 0;
        for i in 0..400 {
            let r = libc::waitpid(pid, &mut st, libc::WNOHANG);
            if r != 0 {
                return; // reaped now, or already reaped by the code under test (ECHILD)
            }
            if i == 200 {
                libc::kill(pid, libc::SIGKILL);
            }
            libc::usleep(500);
        }
        libc::kill(pid, libc::SIGKILL);
        libc::waitpid(pid, &mut st, 0);
    }
}

fn run_case(s: &mut Scn, env: &mut Env, faults: &[Fault], drop_close: Option<i32>, r: &mut Report, cx: &Ctx) -> CaseOut {
    let name = s.name.clone();
    let cj = case_json(&name, faults, drop_close);
    if let Some(p) = s.prepare.as_mut() {
        p(env);
    }
    r.eval();
    r.nontrivial_unique();
    set_case(&cj.to_string());
    unsafe {
        libc::alarm(30);
        (*cx.shared).n.store(0, Ordering::SeqCst);
    }
    let parent = PARENT.load(Ordering::Relaxed);
    let given = env.given.clone();
    let lent = env.lent.clone();
    env.complaints.clear();
    apply_start();
    let lent_before: Vec<Option<(u64, u64, i32, i32)>> = lent.iter().map(|fd| fd_ident(*fd)).collect();
    let before = fd_map();
    let mut plan = FdPlan { parent, faults: faults.to_vec(), hit: vec![false; faults.len()], close_err: None, pairs: HashMap::new(), received: HashMap::new(), sock: HashSet::new(), shared: cx.shared };
    // ---- phase A: the operation
    let (res, log_a) = sysx::run(&mut plan, || {
        let x = catch(|| {
            let x = (s.op)(env);
            child_guard();
            x
        });
        child_guard();
        x
    });
    child_guard();
    let after_a = fd_map();
    let pairs_a = std::mem::take(&mut plan.pairs);
    let received_a = std::mem::take(&mut plan.received);
    let sock_idx = std::mem::take(&mut plan.sock);
    let hit = plan.hit.clone();
    let mut sh = Shadow::new(&before, &given);
    for (i, c) in log_a.iter().enumerate() {
        sh.apply(i, c, &pairs_a, &received_a, "operation");
    }
    let low_fd_handed_out = log_a.iter().enumerate().any(|(i, c)| {
        let Some(real) = c.real else { return false };
        (creator(c.nr) && (0..=2).contains(&real)) || (real == 0 && pairs_a.get(&i).map(|p| p[0] <= 2 || p[1] <= 2).unwrap_or(false))
    });
    let (ret, panic_msg) = match res {
        Ok(ret) => (ret, None),
        Err(p) => (Ret { res: Res::Err(format!("panic: {p}")), owned: vec![], held: None }, Some(p)),
    };
    let Ret { res, owned, held } = ret;
    let is_err = matches!(res, Res::Err(_));
    let any_hit = hit.iter().any(|h| *h);
    // ---- analysis after the operation
    let totals: HashMap<&'static str, usize> = sh.created.clone();
    let label = |sc: &'static str, ordinal: usize, sub: usize| -> String {
        if let Some(l) = s.label.as_ref().and_then(|f| f(sc, ordinal, sub)) {
            return l;
        }
        let total = cx.base_totals.and_then(|t| t.get(sc).copied()).unwrap_or(0).max(totals.get(sc).copied().unwrap_or(0));
        generic_label(sc, ordinal, sub, total)
    };
    let fork_idx = log_a.iter().position(|c| c.nr == libc::SYS_fork && c.real.map(|x| x > 0).unwrap_or(false));
    let fault_desc = |kinds: &[(usize, i64)]| -> String {
        faults
            .iter()
            .map(|f| {
                let nr = if f.child { kinds.iter().find(|c| c.0 == f.k).map(|c| c.1) } else { log_a.get(f.k).map(|c| c.nr) };
                format!("{}call #{} ({}) {}", if f.child { "child-side " } else { "" }, f.k, nr.map(sysx::name).unwrap_or("?"), f.ans.describe())
            })
            .collect::<Vec<_>>()
            .join(" and ")
    };
    // the syscall blamed in `fd-left-open-on-failure:<which>@<failing>`: the first deviation that was reached
    let res_txt = match &res {
        Res::Ok(d) => format!("Ok({d})"),
        Res::None => "Ok(None)".to_string(),
        Res::Err(e) => format!("Err({e})"),
    };

    // cross-check shadow table against /proc/self/fd
    let shadow_set: BTreeSet<i32> = sh.open.keys().copied().collect();
    let actual_set: BTreeSet<i32> = after_a.keys().copied().collect();
    let mut unknown_new: Vec<i32> = Vec::new();
    if shadow_set != actual_set {
        for fd in actual_set.difference(&shadow_set) {
            unknown_new.push(*fd);
            sh.open.insert(*fd, Origin::New { sc: "unlogged", ordinal: 0, sub: 0 });
        }
        let gone: Vec<i32> = shadow_set.difference(&actual_set).copied().collect();
        for fd in &gone {
            sh.open.remove(fd);
        }
        r.note(format!("{name}: shadow table and /proc/self/fd disagree after the operation (only in /proc: {unknown_new:?}, only in shadow: {gone:?}) case {cj}"));
        r.cap(format!("{name}: shadow/proc mismatch"));
    }

    // ---- phase B: drop the returned value under the seam
    let mut plan_b = FdPlan { parent, faults: vec![], hit: vec![], close_err: drop_close, pairs: HashMap::new(), received: HashMap::new(), sock: HashSet::new(), shared: std::ptr::null_mut() };
    let (dres, log_b) = sysx::run(&mut plan_b, || catch(move || drop(held)));
    let after_b = fd_map();

    // child log (the child is reaped first so that it has finished writing)
    for c in &log_a {
        if c.nr == libc::SYS_fork {
            if let Some(pid) = c.real {
                if pid > 0 {
                    reap(pid as i32);
                }
            }
        }
    }
    let child_calls: Vec<(usize, i64)> = unsafe {
        let shp = &*cx.shared;
        let n = (shp.n.load(Ordering::SeqCst) as usize).min(CHILD_CAP);
        (0..n).map(|i| (shp.recs[i].idx as usize, shp.recs[i].nr as i64)).collect()
    };
    let fdesc = fault_desc(&child_calls);
    // the call blamed in `...-on-failure:<which>@<failing>`
    let fault_name = |f: &Fault| -> String {
        if f.child {
            format!("child-{}", child_calls.iter().find(|c| c.0 == f.k).map(|c| sysx::name(c.1)).unwrap_or("?"))
        } else {
            f.ans.key_name(log_a.get(f.k).map(|c| sysx::name(c.nr)).unwrap_or("?"))
        }
    };
    let blame = |which: &str| -> String {
        if faults.len() == 1 {
            return fault_name(&faults[0]);
        }
        // a pair: the deviation that leaks this descriptor on its own, else both
        if let Some(sl) = cx.single_leaks {
            for f in faults {
                if sl.get(f).map(|l| l.contains(which)).unwrap_or(false) {
                    return fault_name(f);
                }
            }
        }
        if let Some(sl) = cx.single_leaks_by_name {
            for f in faults {
                if sl.get(&(fault_name(f), f.ans)).map(|l| l.contains(which)).unwrap_or(false) {
                    return fault_name(f);
                }
            }
        }
        faults.iter().map(&fault_name).collect::<Vec<_>>().join("+")
    };
    let ctxt = if faults.is_empty() { "fault-free run".to_string() } else { fdesc.clone() };

    let mut out = CaseOut { totals: totals.clone(), fork_idx, ..Default::default() };
    out.parent_calls = log_a.iter().enumerate().map(|(i, c)| CallInfo { nr: c.nr, args: c.args, sock: sock_idx.contains(&i) }).collect();
    out.child_calls = child_calls.clone();
    out.fault_names = faults.iter().map(&fault_name).collect();

    if let Some(p) = &panic_msg {
        r.violation(&format!("C12:{name}:panic"), format!("{name} panicked ({ctxt}): {p}"), cj.clone());
    }
    // (b)/(c) from the call log of the operation
    for (kind, d) in std::mem::take(&mut sh.viol) {
        r.violation(&format!("C12:{name}:{kind}"), format!("{name}, {ctxt}; result {res_txt}: {d}"), cj.clone());
    }
    // (a) what is open now and was not before must be exactly what the caller got
    let mut leaked_fds: Vec<i32> = Vec::new();
    for (fd, o) in sh.open.iter() {
        if let Origin::New { sc, ordinal, sub } = o {
            if owned.contains(fd) {
                continue;
            }
            leaked_fds.push(*fd);
            let which = label(sc, *ordinal, *sub);
            out.leaked.insert(which.clone());
            let target = after_a.get(fd).cloned().unwrap_or_default();
            let in_base = cx.base_leaks.map(|b| b.contains(&which)).unwrap_or(false);
            let key = if faults.is_empty() || in_base {
                format!("C12:{name}:fd-left-open:{which}")
            } else {
                format!("C12:{name}:fd-left-open-on-failure:{which}@{}", blame(&which))
            };
            r.violation(
                &key,
                format!(
                    "{name}, {ctxt}: returned {res_txt}; descriptor {fd} -> {target} (created by {sc}, creation #{ordinal}{}) is still open and is not reachable from the returned value{}",
                    if *sc == "pipe2" { if *sub == 0 { ", read end" } else { ", write end" } } else { "" },
                    if owned.is_empty() { String::new() } else { format!(" (which owns {owned:?})") }
                ),
                cj.clone(),
            );
        }
    }
    for fd in &owned {
        match sh.open.get(fd) {
            Some(Origin::New { .. }) | Some(Origin::Given) => {}
            Some(Origin::Pre) => r.violation(
                &format!("C12:{name}:returns-foreign-fd"),
                format!("{name}, {ctxt}: the returned value owns descriptor {fd}, which was open before the operation and not handed to it"),
                cj.clone(),
            ),
            None => r.violation(
                &format!("C12:{name}:returned-fd-not-open"),
                format!("{name}, {ctxt}: returned {res_txt} owning descriptor {fd}, which is not open"),
                cj.clone(),
            ),
        }
    }
    // descriptors lent as Stdio::RawFd stay the caller's: open, the same file, the same flags — Ok or Err
    for (fd, was) in lent.iter().zip(lent_before.iter()) {
        let now = fd_ident(*fd);
        match (was, &now) {
            (Some(_), None) => r.violation(
                &format!("C12:{name}:closes-foreign-fd"),
                format!("{name}, {ctxt}: returned {res_txt}; descriptor {fd} was only lent to the operation (Stdio::RawFd) and is closed afterwards"),
                cj.clone(),
            ),
            (Some(a), Some(b)) if (a.0, a.1) != (b.0, b.1) => r.violation(
                &format!("C12:{name}:closes-foreign-fd"),
                format!("{name}, {ctxt}: returned {res_txt}; descriptor {fd}, only lent to the operation (Stdio::RawFd), no longer refers to the same file afterwards (it was closed and the number re-used)"),
                cj.clone(),
            ),
            (Some(a), Some(b)) if a != b => r.violation(
                &format!("C12:{name}:alters-foreign-fd"),
                format!("{name}, {ctxt}: returned {res_txt}; descriptor {fd}, only lent to the operation (Stdio::RawFd), changed its flags in the parent: (status flags, descriptor flags) {:#o},{} -> {:#o},{}", a.2, a.3, b.2, b.3),
                cj.clone(),
            ),
            _ => {}
        }
    }
    for c in env.complaints.drain(..) {
        r.violation(&format!("C12:{name}:closes-foreign-fd"), format!("{name}, {ctxt}: returned {res_txt}; {c}"), cj.clone());
    }
    // mappings (setup_io_uring): on failure nothing may stay mapped
    if is_err && !sh.maps.is_empty() {
        r.violation(
            &format!("C12:{name}:mapping-leaked"),
            format!("{name}, {ctxt}: returned {res_txt} but {} mapping(s) created by the operation are still mapped: {}", sh.maps.len(), sh.maps.iter().map(|m| format!("addr {:#x} len {}", m.0, m.1)).collect::<Vec<_>>().join(", ")),
            cj.clone(),
        );
        for (a, l) in sh.maps.drain(..) {
            unsafe {
                libc::munmap(a as *mut _, l as usize);
            }
        }
    }

    // ---- analysis of the drop
    let pairs_b = HashMap::new();
    for (i, c) in log_b.iter().enumerate() {
        sh.apply(i, c, &pairs_b, &HashMap::new(), "drop of the returned value");
    }
    if let Err(p) = dres {
        r.violation(&format!("C12:{name}:panic"), format!("dropping the value returned by {name} panicked ({ctxt}): {p}"), cj.clone());
    }
    for (kind, d) in std::mem::take(&mut sh.viol) {
        r.violation(&format!("C12:{name}:{kind}"), format!("{name}, {ctxt}; result {res_txt}: {d}"), cj.clone());
    }
    if s.drop_releases {
        for fd in &owned {
            if let Some(Origin::New { sc, .. }) = sh.open.get(fd) {
                r.violation(
                    &format!("C12:{name}:drop-leaves-fd"),
                    format!("{name}, {ctxt}: descriptor {fd} (created by {sc}) is owned by the returned value and is still open after the value was dropped"),
                    cj.clone(),
                );
            }
        }
        if !sh.maps.is_empty() {
            r.violation(
                &format!("C12:{name}:mapping-leaked"),
                format!("{name}, {ctxt}: {} mapping(s) still mapped after the returned value was dropped: {}", sh.maps.len(), sh.maps.iter().map(|m| format!("addr {:#x} len {}", m.0, m.1)).collect::<Vec<_>>().join(", ")),
                cj.clone(),
            );
        }
    }
    if sh.stray_munmaps > 0 {
        r.note(format!("{name}: {} munmap call(s) on a range that the shadow mapping table does not hold (C18's subject: drop unmaps the shared ring twice)", sh.stray_munmaps));
    }
    let shadow_set: BTreeSet<i32> = sh.open.keys().copied().collect();
    let actual_set: BTreeSet<i32> = after_b.keys().copied().collect();
    if shadow_set != actual_set {
        r.note(format!("{name}: shadow table and /proc/self/fd disagree after the drop: shadow {shadow_set:?} proc {actual_set:?} case {cj}"));
        r.cap(format!("{name}: shadow/proc mismatch"));
    }
    // (d) + repair: everything that is open now and was not before goes away
    for (fd, o) in sh.open.iter() {
        if matches!(o, Origin::New { .. }) {
            unsafe {
                libc::close(*fd);
            }
        }
    }
    for fd in actual_set.difference(&shadow_set) {
        if !before.contains_key(fd) {
            unsafe {
                libc::close(*fd);
            }
        }
    }
    for (a, l) in sh.maps.drain(..) {
        unsafe {
            libc::munmap(a as *mut _, l as usize);
        }
    }
    unsafe {
        libc::alarm(0);
    }
    clear_case();
    restore_start();
    if let Some(c) = s.cleanup.as_mut() {
        c(env);
    }

    out.class = match (&res, faults.is_empty(), any_hit || faults.iter().any(|f| f.child)) {
        _ if panic_msg.is_some() => "panic",
        (Res::Ok(_), true, _) => "ok",
        (Res::None, true, _) => "ok-none",
        (Res::Err(_), true, _) => "err-natural",
        (Res::Err(_), false, true) => "err-injected",
        (Res::Ok(_), false, true) => "ok-despite-fault",
        (Res::None, false, true) => "none-after-fault",
        (_, false, false) => "fault-not-reached",
    }
    .to_string();
    let sfx = if START.load(Ordering::Relaxed) == 0 { String::new() } else { format!("@{}", start_name()) };
    r.outcome(&format!("{}{sfx}", out.class));
    if !leaked_fds.is_empty() {
        r.outcome(&format!("leak-observed{sfx}"));
    }
    if !sfx.is_empty() && low_fd_handed_out {
        // the operation really was handed one of the freed numbers 0..2
        r.outcome(&format!("op-got-low-fd{sfx}"));
    }
    if cx.verbose {
        println!("case {cj}");
        println!("  before: {:?}", before.keys().collect::<Vec<_>>());
        for (i, c) in log_a.iter().enumerate() {
            println!("  op   #{i:<2} {:<16} args[0..3]={:x?} -> {} {}", sysx::name(c.nr), &c.args[..3], c.ret, match c.real { None => "(forced, not executed)".to_string(), Some(x) if x != c.ret => format!("(kernel really answered {x})"), _ => String::new() });
        }
        for (k, nr) in &child_calls {
            println!("  child #{k:<2} {}", sysx::name(*nr));
        }
        println!("  result: {res_txt}; owned descriptors {owned:?}");
        println!("  after operation: {:?}", after_a);
        for (i, c) in log_b.iter().enumerate() {
            println!("  drop #{i:<2} {:<16} args[0]={} -> {}", sysx::name(c.nr), c.args[0], c.ret);
        }
        println!("  after drop: {:?}", after_b.keys().collect::<Vec<_>>());
        println!("  class: {}", out.class);
    }
    out
}

// ---------------------------------------------------------------------------
// enumeration per scenario

fn points(o: &CaseOut) -> Vec<Fault> {
    let mut v = Vec::new();
    for (k, c) in o.parent_calls.iter().enumerate() {
        for a in deviations(c) {
            v.push(Fault { child: false, k, nr: c.nr, ans: a });
        }
    }
    for (k, nr) in &o.child_calls {
        if *nr == libc::SYS_fork {
            continue;
        }
        for e in menu(*nr).0 {
            v.push(Fault { child: true, k: *k, nr: *nr, ans: Ans::Errno(*e) });
        }
    }
    v.dedup();
    v
}

extern "C" fn on_alarm(_: libc::c_int) {
    // a case that does not finish: let the crash handler attribute it
    unsafe { libc::abort() }
}

fn shard_setup(start: i32) {
    PARENT.store(unsafe { libc::getpid() }, Ordering::SeqCst);
    START.store(start, Ordering::SeqCst);
    unsafe {
        libc::signal(libc::SIGALRM, on_alarm as *const () as usize);
        libc::signal(libc::SIGPIPE, libc::SIG_IGN);
        if start != 0 {
            // the shard's own stdio moves above 100; 0..2 stay occupied (placeholders) except while an operation runs
            for fd in 0..3 {
                if libc::fcntl(fd, libc::F_GETFD) < 0 {
                    let n = libc::open(c"/dev/null".as_ptr(), libc::O_RDWR);
                    if n != fd {
                        libc::dup2(n, fd);
                        libc::close(n);
                    }
                }
                let saved = libc::fcntl(fd, libc::F_DUPFD_CLOEXEC, 100);
                assert!(saved >= 100, "saving stdio above 100");
                SAVED_STDIO[fd as usize].store(saved, Ordering::SeqCst);
            }
        }
    }
}

fn run_scenario(mut s: Scn, thorough: bool, start: i32) -> Report {
    shard_setup(start);
    let mut r = Report::new();
    let mut env = Env::new(&s.name);
    if let Some(i) = s.init.as_mut() {
        i(&mut env);
    }
    let shared = alloc_shared();
    let name = s.name.clone();
    let cx0 = Ctx { shared, base_leaks: None, base_totals: None, single_leaks: None, single_leaks_by_name: None, verbose: false };
    let base = run_case(&mut s, &mut env, &[], None, &mut r, &cx0);
    let base_leaks = base.leaked.clone();
    let base_totals = base.totals.clone();
    let cx = Ctx { shared, base_leaks: Some(&base_leaks), base_totals: Some(&base_totals), single_leaks: None, single_leaks_by_name: None, verbose: false };
    let n = base.parent_calls.len();
    if start == 0 {
        r.sample(json!({"scenario": name, "fault_free_calls": base.parent_calls.iter().map(|c| sysx::name(c.nr)).collect::<Vec<_>>(),
            "child_calls": base.child_calls.iter().map(|c| sysx::name(c.1)).collect::<Vec<_>>(), "class": base.class}));
    }
    r.bound(&format!("calls[{name}]"), json!({"parent": n, "child": base.child_calls.iter().filter(|c| c.1 != libc::SYS_fork).count()}));
    for nr in base.parent_calls.iter().map(|c| &c.nr).chain(base.child_calls.iter().map(|c| &c.1)) {
        if menu(*nr).0.is_empty() && !matches!(*nr, libc::SYS_exit | libc::SYS_exit_group | libc::SYS_munmap | libc::SYS_uname | libc::SYS_fork | libc::SYS_lseek) {
            r.note(format!("{name}: no errno menu for {} — call not failed", sysx::name(*nr)));
        }
    }
    // drop with every close reporting an error after really closing
    run_case(&mut s, &mut env, &[], Some(libc::EIO), &mut r, &cx);
    let mut seen: HashSet<Vec<Fault>> = HashSet::new();
    let light = s.light;
    // argument-domain variants: quick tier stops after the fault-free case and the drop
    let mut singles = if light == 2 && !thorough { Vec::new() } else { points(&base) };
    // a scenario with thousands of calls (removing a tree 2 000 levels deep) times every answer of every call is
    // quadratic: fail every call in the first and the last 64 positions only, and say so
    const SINGLE_WINDOW: usize = 64;
    if n > 8 * SINGLE_WINDOW && !singles.is_empty() {
        let before = singles.len();
        singles.retain(|f| f.child || f.k < SINGLE_WINDOW || f.k + SINGLE_WINDOW >= n);
        r.cap(format!("{name}: {n} parent-side calls; single deviations enumerated for the first and last {SINGLE_WINDOW} call positions only ({} of {before})", singles.len()));
    }
    // other start states: fault-free + every single deviation in the quick tier, everything in the thorough tier
    let do_pairs = n <= PAIR_BOUND && (start == 0 || thorough) && match light {
        0 => true,
        1 => thorough,
        _ => false,
    };
    let mut single_out: Vec<(Fault, CaseOut)> = Vec::new();
    let mut single_leaks: HashMap<Fault, BTreeSet<String>> = HashMap::new();
    let mut single_by_name: HashMap<(String, Ans), BTreeSet<String>> = HashMap::new();
    for f1 in &singles {
        let fs = vec![*f1];
        if !seen.insert(fs.clone()) {
            continue;
        }
        let o1 = run_case(&mut s, &mut env, &fs, None, &mut r, &cx);
        single_leaks.insert(*f1, o1.leaked.clone());
        single_by_name.entry((o1.fault_names[0].clone(), f1.ans)).or_default().extend(o1.leaked.iter().cloned());
        single_out.push((*f1, o1));
    }
    if do_pairs {
        let cx2 = Ctx { shared, base_leaks: Some(&base_leaks), base_totals: Some(&base_totals), single_leaks: Some(&single_leaks), single_leaks_by_name: Some(&single_by_name), verbose: false };
        for (f1, o1) in &single_out {
            // quick tier: only pairs that start with an ordinary (non-error) answer
            if !thorough && !f1.ans.soft() {
                continue;
            }
            for f2 in points(o1) {
                // strictly later than the first deviation on the same side; on the other side only what runs after the fork
                let later = if f2.child == f1.child {
                    f2.k > f1.k
                } else if f2.child {
                    true
                } else {
                    o1.fork_idx.map(|fi| f2.k > fi).unwrap_or(false)
                };
                if !later {
                    continue;
                }
                let mut fs2 = vec![*f1, f2];
                fs2.sort();
                if !seen.insert(fs2.clone()) {
                    continue;
                }
                run_case(&mut s, &mut env, &fs2, None, &mut r, &cx2);
            }
        }
    }
    if let Some(f) = s.fini.as_mut() {
        f(&mut env);
    }
    env.remove();
    r.notes.sort();
    r.notes.dedup();
    r
}

fn c12(args: &Args) -> Report {
    let thorough = args.thorough;
    let mut items = Vec::new();
    let names: Vec<String> = scenarios::all().iter().map(|s| s.name.clone()).collect();
    for start in 0..3i32 {
        for s in scenarios::all() {
            if start != 0 && s.fixed_stdio {
                continue; // the scenario is about the process's own stdin
            }
            if start != 0 && s.light == 2 && !thorough {
                continue; // argument-domain variants: other start states in the thorough tier
            }
            let nm = if start == 0 { s.name.clone() } else { format!("{}@{}", s.name, START_NAMES[start as usize]) };
            items.push(isolated(nm, move || run_scenario(s, thorough, start)));
        }
    }
    let mut r = run_isolated(items, &args.out, "C12");
    r.rule = format!(
        "{} scenarios (public operations of fs/net/process/epoll/openpty/passwd/random/get_pass/io_uring that create descriptors, incl. invalid-argument variants), one forked shard each; \
         per scenario: the fault-free run, one run whose drop sees every close report EIO, and one run per (call index k of the fault-free log, parent side and forked-child side) x (alternative answer of that call: every errno of its menu; \
         non-error answers that steer a branch — ppoll/epoll_pwait = 0 when a timeout was passed, connect = EINPROGRESS/EAGAIN, accept4 = EAGAIN, socket read/write = EAGAIN, read/getdents64/copy_file_range = 0, short counts; \
         out-parameter values — ioctl(TIOCGPTN) index 0/255/256/1000/u32::MAX, stat size 0/2^40/-1 and mode file/dir, wait4 status 0/256/9, getdents64 d_type=DT_UNKNOWN, io_uring_setup without FEAT_SINGLE_MMAP, spawn's 8-byte sync-pipe message); \
         pairs of deviations for scenarios with <= 16 parent calls, the second one enumerated on the log of the run containing the first (quick: pairs whose first member is a non-error answer incl. EAGAIN/EINPROGRESS/EINTR; thorough: all pairs). \
         close is executed and then reports the error. \
         ARGUMENT DOMAIN: every operation taking a Duration / path / socket address / count is also run (scenarios named op[arg=value]) with boundary and out-of-domain values \
         (Duration ZERO, 1ns, Duration::MAX, i64::MAX s, i64::MAX+1 s; paths empty, 4200 bytes, 300-byte component, in a missing directory, 510..600-byte nested; unix socket paths empty, 107, 108, 4200 bytes; \
         inet addresses 0.0.0.0, port 0, 65535, broadcast, non-local; counts 0, 1, huge) — quick: fault-free case + drop, thorough: also every single deviation and the other start states. \
         STDIO GRID: spawn with every (stdin,stdout,stderr) in {{Inherit,Null,MakePipe,RawFd(fresh)}}^3 (quick: up to single deviations); a descriptor named by Stdio::RawFd is only LENT: after spawn returns (Ok or Err, every deviation) \
         it must be open in the parent, the same file, with the same status and descriptor flags (closing it = closes-foreign-fd); aliasing cases: one RawFd for two/three streams, RawFd(0..2) in several permutations, \
         one Command (no-alloc: one descriptor) spawned twice and three times with an unrelated open() of the caller in between, a File lending as_raw_fd() that is used and dropped afterwards (exactly one close). \
         FEATURE SET: this report is from the build `{}`; the crate h-fd/noalloc builds the same sources against tiny-std without `alloc` and runs the entry points that differ there (the free function process::spawn, create_dir_all's stack buffer). \
         START STATES: the whole catalogue is run from three descriptor tables — as inherited (0,1,2 occupied), descriptor 0 closed, descriptors 0,1,2 closed \
         (the shard's own stdio is parked above 100 and the low numbers are freed only while the operation and the drop of its result run, so the operation is handed 0/1/2); \
         for the two extra start states the quick tier runs the fault-free case, the close-reports-EIO drop and every single deviation, the thorough tier also the pairs. \
         Each (scenario, start state, deviation set) is generated once. Oracle: shadow descriptor table from the call log, cross-checked with /proc/self/fd before / after the operation / after dropping the returned value.",
        names.len(),
        if cfg!(feature = "noalloc") { "tiny-std default-features=false (no alloc)" } else { "tiny-std default features (alloc)" }
    );
    r.bound("scenarios", names.len());
    r.bound("start_states", json!(START_NAMES));
    r.bound("feature_set", if cfg!(feature = "noalloc") { "no-alloc" } else { "alloc" });
    r.bound("pairs_for_calls_le", PAIR_BOUND);
    r.bound("tier", if thorough { "thorough" } else { "quick" });
    r
}

fn replay(v: &Value) -> Report {
    let name = v["scenario"].as_str().or(v["op"].as_str()).unwrap_or("").to_string();
    let Some(mut s) = scenarios::all().into_iter().find(|s| s.name == name) else {
        println!("unknown scenario {name:?}; known: {:?}", scenarios::all().iter().map(|s| s.name.clone()).collect::<Vec<_>>());
        std::process::exit(2);
    };
    let ks: Vec<usize> = v["k"].as_array().map(|a| a.iter().filter_map(|x| x.as_u64().map(|x| x as usize)).collect()).unwrap_or_default();
    let es: Vec<i32> = v["errno"].as_array().map(|a| a.iter().map(|x| x.as_i64().map(|x| x as i32).unwrap_or(libc::EIO)).collect()).unwrap_or_default();
    let cs: Vec<bool> = v["child"].as_array().map(|a| a.iter().map(|x| x.as_bool().unwrap_or(false)).collect()).unwrap_or_default();
    let nrs: Vec<i64> = v["nr"].as_array().map(|a| a.iter().map(|x| x.as_i64().unwrap_or(-1)).collect()).unwrap_or_default();
    let answers: Vec<Option<Ans>> = v["answer"].as_array().map(|a| a.iter().map(|x| x.as_str().and_then(Ans::decode)).collect()).unwrap_or_default();
    let faults: Vec<Fault> = ks
        .iter()
        .enumerate()
        .map(|(i, k)| Fault {
            nr: nrs.get(i).copied().unwrap_or(-1),
            child: cs.get(i).copied().unwrap_or(false),
            k: *k,
            ans: answers.get(i).copied().flatten().unwrap_or_else(|| Ans::Errno(es.get(i).copied().unwrap_or(libc::EIO))),
        })
        .collect();
    let drop_close = v["drop_close_errno"].as_i64().map(|x| x as i32);
    let start = v["start"].as_str().and_then(|n| START_NAMES.iter().position(|x| *x == n)).unwrap_or(0) as i32;
    shard_setup(start);
    let mut env = Env::new(&s.name);
    if let Some(i) = s.init.as_mut() {
        i(&mut env);
    }
    let shared = alloc_shared();
    let mut scratch = Report::new();
    let cx0 = Ctx { shared, base_leaks: None, base_totals: None, single_leaks: None, single_leaks_by_name: None, verbose: faults.is_empty() && drop_close.is_none() };
    let base = run_case(&mut s, &mut env, &[], None, &mut scratch, &cx0);
    let mut r = Report::new();
    if faults.is_empty() && drop_close.is_none() {
        r = scratch;
    } else {
        // for a pair: what each deviation leaks on its own decides which call the key blames
        let mut single_leaks: HashMap<Fault, BTreeSet<String>> = HashMap::new();
        let mut by_name: HashMap<(String, Ans), BTreeSet<String>> = HashMap::new();
        if faults.len() > 1 {
            let cxs = Ctx { shared, base_leaks: Some(&base.leaked), base_totals: Some(&base.totals), single_leaks: None, single_leaks_by_name: None, verbose: false };
            for f in &faults {
                let o = run_case(&mut s, &mut env, &[*f], None, &mut scratch, &cxs);
                single_leaks.insert(*f, o.leaked.clone());
                by_name.entry((o.fault_names[0].clone(), f.ans)).or_default().extend(o.leaked.iter().cloned());
            }
        }
        let cx = Ctx { shared, base_leaks: Some(&base.leaked), base_totals: Some(&base.totals), single_leaks: Some(&single_leaks), single_leaks_by_name: Some(&by_name), verbose: true };
        run_case(&mut s, &mut env, &faults, drop_close, &mut r, &cx);
    }
    if let Some(f) = s.fini.as_mut() {
        f(&mut env);
    }
    env.remove();
    for v in r.violations.values() {
        println!("VIOLATED {}: {}", v.key, v.desc);
    }
    if r.violations.is_empty() {
        println!("no violation in this case");
    }
    r
}

fn main() {
    let args = parse_args();
    install_panic_hook();
    if let Some(p) = &args.replay {
        let v = read_replay(p);
        let r = replay(&v);
        std::process::exit(if r.violations.is_empty() { 0 } else { 1 });
    }
    if args.rest.iter().any(|a| a == "--list") {
        for s in scenarios::all() {
            println!("{}", s.name);
        }
        return;
    }
    let phase = args.phase.clone().unwrap_or_else(|| "c12".into());
    let r = match phase.as_str() {
        "c12" | "c12-noalloc" => c12(&args),
        _ => panic!("unknown phase"),
    };
    r.write(&args.out);
}
