//! Stand-in for `rusl` (seam S1): the real crate re-exported, with
//! `futex::{futex_wait, futex_wake}` answered by the explorer's futex model.
//! The real wrappers in /repo/rusl/src/futex.rs are bound separately by the
//! environment-model conformance step of C01 (they are executed against the kernel).
#![no_std]

pub use real_rusl::*;

pub mod futex {
    use vshim_core::sync::atomic::AtomicU32;
    use real_rusl::platform::{FutexFlags, TimeSpec};
    use real_rusl::Error;

    /// Same signature as `rusl::futex::futex_wait`.
    #[inline]
    pub fn futex_wait(uaddr: &AtomicU32, val: u32, _flags: FutexFlags, timeout: Option<TimeSpec>) -> Result<(), Error> {
        // a wait that was given a timeout may legally end with ETIMEDOUT (explored as a deviation)
        match ilv::futex_wait_timed(uaddr.as_ptr(), val, timeout.is_some()) {
            0 => Ok(()),
            neg => Err(mk_err("`FUTEX` (wait) syscall failed", -neg)),
        }
    }

    /// Same signature as `rusl::futex::futex_wake`.
    #[inline]
    pub fn futex_wake(uaddr: &AtomicU32, num_waiters: i32) -> Result<usize, Error> {
        Ok(ilv::futex_wake(uaddr.as_ptr(), num_waiters))
    }

    fn mk_err(msg: &'static str, code: i32) -> Error {
        Error { msg, code: Some(real_rusl::error::Errno::new(code)) }
    }
}
