//! C07, in-process part: environment lookup and argument iteration over every
//! small environment block / argv, through hook H2 (`verif_set_env`), against the
//! reference "first entry whose bytes before the first '=' equal the key".

use common::*;
use serde_json::json;
use tiny_std::env::{self, VarError};
use tiny_std::UnixStr;

/// kernel-style block: NUL-terminated strings + NULL-terminated pointer array
struct Block {
    _strings: Vec<Vec<u8>>,
    ptrs: Vec<*const u8>,
}
fn block(entries: &[&[u8]]) -> Block {
    let strings: Vec<Vec<u8>> = entries
        .iter()
        .map(|e| {
            let mut v = e.to_vec();
            v.push(0);
            v
        })
        .collect();
    let mut ptrs: Vec<*const u8> = strings.iter().map(|s| s.as_ptr()).collect();
    ptrs.push(std::ptr::null());
    Block { _strings: strings, ptrs }
}

fn ref_lookup<'a>(entries: &[&'a [u8]], key: &[u8]) -> Option<&'a [u8]> {
    for e in entries {
        if let Some(p) = e.iter().position(|&b| b == b'=') {
            if &e[..p] == key {
                return Some(&e[p + 1..]);
            }
        }
    }
    None
}

fn check_lookup(entries: &[&[u8]], key: &[u8], r: &mut Report) {
    // keys: non-empty, NUL-free; a key containing '=' can never equal a name
    let want = ref_lookup(entries, key);
    let shown: Vec<String> = entries.iter().map(|e| show_bytes(e)).collect();
    let mut keyz = key.to_vec();
    keyz.push(0);
    let ukey = UnixStr::try_from_bytes(&keyz).unwrap();
    // var_unix
    r.eval();
    r.nontrivial_unique();
    let case = json!({"op": "var_unix", "env": shown, "key": show_bytes(key)});
    set_case(&case.to_string());
    let got = catch(|| env::var_unix(ukey).ok().map(|u| u.as_slice()[..u.len() - 1].to_vec()));
    clear_case();
    match got {
        Err(p) => r.violation("C07:var_unix:panic", format!("var_unix({}) with env {shown:?} panicked: {p}", show_bytes(key)), case),
        Ok(g) => {
            r.outcome(match (&g, &want) {
                (Some(_), Some(_)) => "found",
                (None, None) => "missing",
                (Some(_), None) => "found-but-should-be-missing",
                (None, Some(_)) => "missing-but-present",
            });
            if g.as_deref() != want {
                let kind = match (&g, &want) {
                    (Some(_), None) => "answers-for-a-different-name",
                    (None, Some(_)) => "misses-present-name",
                    _ => "wrong-value",
                };
                r.violation(
                    &format!("C07:var_unix:{kind}"),
                    format!("var_unix({}) with env {shown:?} = {:?}, expected {:?}", show_bytes(key), g.as_deref().map(show_bytes), want.map(show_bytes)),
                    case,
                );
            }
        }
    }
    // var (str key, str value)
    if let Ok(skey) = std::str::from_utf8(key) {
        r.eval();
        r.nontrivial_unique();
        let case = json!({"op": "var", "env": shown, "key": show_bytes(key)});
        set_case(&case.to_string());
        let got = catch(|| match env::var(skey) {
            Ok(v) => Ok(v.as_bytes().to_vec()),
            Err(VarError::Missing) => Err(false),
            Err(VarError::NotUnicode(_)) => Err(true),
        });
        clear_case();
        match got {
            Err(p) => r.violation("C07:var:panic", format!("var({}) with env {shown:?} panicked: {p}", show_bytes(key)), case),
            Ok(g) => {
                let expect: Result<Vec<u8>, bool> = match want {
                    None => Err(false),
                    Some(v) => {
                        if std::str::from_utf8(v).is_ok() {
                            Ok(v.to_vec())
                        } else {
                            Err(true)
                        }
                    }
                };
                if let Err(true) = expect {
                    r.outcome("var:not-unicode");
                }
                if g != expect {
                    let kind = match (&g, &expect) {
                        (Ok(_), Err(false)) | (Err(true), Err(false)) => "answers-for-a-different-name",
                        (Err(false), _) => "misses-present-name",
                        _ => "wrong-value",
                    };
                    r.violation(
                        &format!("C07:var:{kind}"),
                        format!("var({}) with env {shown:?} = {:?}, expected {:?} (Err(false)=Missing, Err(true)=NotUnicode)", show_bytes(key), g, expect),
                        case,
                    );
                }
            }
        }
    }
}

fn lookup_sweep(entry_pool: &[Vec<u8>], keys: &[Vec<u8>], max_entries: usize, shard: usize, nshards: usize, r: &mut Report) {
    // blocks of 0..=max_entries entries; sharded by the first entry
    let n = entry_pool.len();
    let mut idx: Vec<usize>;
    for len in 0..=max_entries {
        if len == 0 {
            if shard == 0 {
                let b = block(&[]);
                unsafe { env::verif_set_env(0, std::ptr::null(), b.ptrs.as_ptr()) };
                for k in keys {
                    check_lookup(&[], k, r);
                }
            }
            continue;
        }
        idx = vec![0; len];
        'outer: loop {
            if idx[0] % nshards == shard {
                let entries: Vec<&[u8]> = idx.iter().map(|&i| entry_pool[i].as_slice()).collect();
                let b = block(&entries);
                unsafe { env::verif_set_env(0, std::ptr::null(), b.ptrs.as_ptr()) };
                for k in keys {
                    check_lookup(&entries, k, r);
                }
            }
            let mut p = len;
            loop {
                if p == 0 {
                    break 'outer;
                }
                p -= 1;
                idx[p] += 1;
                if idx[p] < n {
                    break;
                }
                idx[p] = 0;
            }
        }
    }
    unsafe { env::verif_set_env(0, std::ptr::null(), std::ptr::null()) };
}

fn args_sweep(r: &mut Report) {
    let long = vec![b'x'; 300];
    let pool: Vec<Vec<u8>> = vec![b"".to_vec(), b"a".to_vec(), vec![0xff], long, "é".as_bytes().to_vec()];
    for_each_seq(pool.len(), 3, |s| {
        let argv: Vec<&[u8]> = s.iter().map(|&i| pool[i].as_slice()).collect();
        let b = block(&argv);
        let e = block(&[b"K=V"]);
        unsafe { env::verif_set_env(argv.len() as u64, b.ptrs.as_ptr(), e.ptrs.as_ptr()) };
        r.eval();
        r.nontrivial_unique();
        let shown: Vec<String> = argv.iter().map(|a| show_bytes(a)).collect();
        let case = json!({"op": "args_os", "argv": shown});
        let got = catch(|| {
            let it = env::args_os();
            let l = it.len();
            (l, it.map(|u| u.as_slice()[..u.len() - 1].to_vec()).collect::<Vec<_>>())
        });
        match got {
            Err(p) => r.violation("C07:args_os:panic", format!("args_os with argv {shown:?} panicked: {p}"), case),
            Ok((l, v)) => {
                let want: Vec<Vec<u8>> = argv.iter().map(|a| a.to_vec()).collect();
                r.outcome(&format!("argc={}", argv.len()));
                if v != want || l != argv.len() {
                    r.violation("C07:args_os:differs", format!("args_os with argv {shown:?} yielded {:?} (len() = {l})", v.iter().map(|x| show_bytes(x)).collect::<Vec<_>>()), case);
                }
            }
        }
        r.eval();
        let case = json!({"op": "args", "argv": shown});
        let got = catch(|| env::args().map(|a| a.ok().map(|s| s.as_bytes().to_vec())).collect::<Vec<_>>());
        match got {
            Err(p) => r.violation("C07:args:panic", format!("args with argv {shown:?} panicked: {p}"), case),
            Ok(v) => {
                let want: Vec<Option<Vec<u8>>> = argv.iter().map(|a| std::str::from_utf8(a).ok().map(|_| a.to_vec())).collect();
                if v != want {
                    r.violation("C07:args:differs", format!("args with argv {shown:?} yielded {v:?}, expected {want:?} (None = not UTF-8)"), case);
                }
            }
        }
    });
    unsafe { env::verif_set_env(0, std::ptr::null(), std::ptr::null()) };
}

fn main() {
    let args = parse_args();
    install_panic_hook();
    if let Some(p) = &args.replay {
        let v = read_replay(p);
        let mut r = Report::new();
        if let Some(envv) = v.get("env") {
            let entries: Vec<Vec<u8>> = envv.as_array().unwrap().iter().map(|e| parse_shown(e.as_str().unwrap())).collect();
            let er: Vec<&[u8]> = entries.iter().map(|e| e.as_slice()).collect();
            let b = block(&er);
            unsafe { env::verif_set_env(0, std::ptr::null(), b.ptrs.as_ptr()) };
            check_lookup(&er, &parse_shown(v["key"].as_str().unwrap()), &mut r);
        } else {
            args_sweep(&mut r);
        }
        for x in r.violations.values() {
            println!("VIOLATED {}: {}", x.key, x.desc);
        }
        std::process::exit(if r.violations.is_empty() { 0 } else { 1 });
    }
    // entries: every string of length <= L over {A,B,'='} (thorough adds 0xFF), keys: every non-empty string <= 3
    let (alpha, elen, max_entries): (&[u8], usize, usize) = if args.thorough { (&[b'A', b'B', b'=', 0xff], 4, 3) } else { (&[b'A', b'B', b'='], 4, 2) };
    let mut pool = all_strings(alpha, elen);
    if !args.thorough {
        // a small extra family with non-UTF-8 values in the quick tier
        for e in [&b"A=\xff"[..], b"AB=\xff\xff", b"A=B\xff", b"\xff=A", b"B=\xffA"] {
            pool.push(e.to_vec());
        }
    }
    // keys: non-empty names over {A,B}.  Keys containing '=' are not judged: POSIX names cannot contain
    // '=', and what a lookup of such a key should answer is not fixed by the property (glibc's getenv
    // and this code both compare the raw bytes).
    let keys: Vec<Vec<u8>> = all_strings(&[b'A', b'B'], 3).into_iter().filter(|k| !k.is_empty()).collect();
    let nsh = 16usize;
    let mut items = Vec::new();
    for sh in 0..nsh {
        let pool = pool.clone();
        let keys = keys.clone();
        items.push(isolated(format!("lookup-{sh}"), move || {
            let mut r = Report::new();
            lookup_sweep(&pool, &keys, max_entries, sh, nsh, &mut r);
            if sh == 0 {
                r.sample(json!({"op": "var_unix", "env": ["AB=A", "A=B"], "key": "A"}));
                r.sample(json!({"op": "var", "env": ["A", "=A", "A=="], "key": "A"}));
            }
            r
        }));
    }
    {
        // key-length ladder: keys of EVERY length 1..=max (fixed stack buffers / length fields in the lookup path),
        // present, absent, and absent-but-a-prefix-of-it present / it-a-prefix-of-a-present-name
        let kmax = if args.thorough { 5000 } else { 700 };
        items.push(isolated("key-length-ladder", move || {
            let mut r = Report::new();
            for len in 1..=kmax {
                let key: Vec<u8> = (0..len).map(|i| b"ABCDEFGHIJKLMNOPQRSTUVWXYZ"[i % 26]).collect();
                let mk = |name: &[u8], val: &[u8]| {
                    let mut e = name.to_vec();
                    e.push(b'=');
                    e.extend_from_slice(val);
                    e
                };
                let mut longer = key.clone();
                longer.push(b'Z');
                let shorter = key[..len - 1].to_vec();
                let blocks: Vec<Vec<Vec<u8>>> = vec![
                    vec![mk(&key, b"exact")],
                    vec![mk(&longer, b"longer"), mk(&key, b"exact")],
                    vec![mk(&shorter, b"shorter"), mk(&key, b"exact")],
                    vec![mk(&longer, b"longer")],
                    vec![mk(&shorter, b"shorter")],
                    vec![mk(&shorter, b"shorter"), mk(&longer, b"longer")],
                ];
                for b in &blocks {
                    let er: Vec<&[u8]> = b.iter().map(|e| e.as_slice()).collect();
                    let blk = block(&er);
                    unsafe { env::verif_set_env(0, std::ptr::null(), blk.ptrs.as_ptr()) };
                    check_lookup(&er, &key, &mut r);
                }
            }
            unsafe { env::verif_set_env(0, std::ptr::null(), std::ptr::null()) };
            r
        }));
    }
    items.push(isolated("args", move || {
        let mut r = Report::new();
        args_sweep(&mut r);
        r.sample(json!({"op": "args_os", "argv": ["", "\\xff", "a"]}));
        r
    }));
    let mut r = run_isolated(items, &args.out, "C07");
    r.rule = format!(
        "every environment block of <= {max_entries} entries, each entry any string of length <= {elen} over the alphabet {:?} (duplicates, names that are prefixes of the key or of each other, \
         empty values, values containing '=', entries without '='), x every non-empty key of length <= 3 over {{A,B}}, for var_unix and var; every argv of <= 3 strings from \
         {{empty, a, 0xFF, e-acute, 300 bytes}} for args_os/args; a key-length ladder: a key of every length 1..=700 (thorough 5000) against blocks holding \
         the exact name, a one-byte-longer name, a one-byte-shorter name and their combinations. Each case generated once.",
        show_bytes(alpha)
    );
    r.bound("max_entries", max_entries);
    r.bound("entry_len", elen);
    r.write(&args.out);
}
