//! Application side of the model phase: the real tiny-std stream/listener code is driven
//! through one scenario against the model kernel, and the oracles of C16 are evaluated.

use crate::model::*;
use common::catch;
use serde_json::{json, Value};
use std::time::Duration;
use tiny_std::io::{Read, Write};
use tiny_std::net::{Ip, SocketAddress, TcpListener, TcpStream, TcpTryConnect, UnixListener, UnixStream};
use tiny_std::unix::fd::AsRawFd;
use tiny_std::Error;

#[derive(Clone, Copy, PartialEq, Eq, Debug)]
pub enum Scen {
    Write,
    Read,
    ReadTimeout,
    Accept,
    TryAccept,
    AcceptTimeout,
    Connect,
    TryConnect,
    ConnectTimeout,
    InProgTry,
    InProgBlocking,
    /// a stream obtained through `obtain` is used through `use_` while the peer stays silent
    Chain,
}

/// every way of obtaining a stream ...
pub const OBTAINS: &[&str] = &["accept", "try_accept", "accept_with_timeout", "connect", "try_connect", "connect_with_timeout", "connect_blocking"];
/// ... followed by every way of using it (peer connected but silent)
pub const USES: &[&str] = &["read_with_timeout", "read", "write", "drop"];

pub const SCENS: &[(Scen, &str)] = &[
    (Scen::Write, "write"),
    (Scen::Read, "read"),
    (Scen::ReadTimeout, "read_with_timeout"),
    (Scen::Accept, "accept"),
    (Scen::TryAccept, "try_accept"),
    (Scen::AcceptTimeout, "accept_with_timeout"),
    (Scen::Connect, "connect"),
    (Scen::TryConnect, "try_connect"),
    (Scen::ConnectTimeout, "connect_with_timeout"),
    (Scen::InProgTry, "inprogress.try_connect"),
    (Scen::InProgBlocking, "inprogress.connect_blocking"),
    (Scen::Chain, "chain"),
];

#[derive(Clone, Copy, PartialEq, Eq, Debug)]
pub enum PeerMode {
    /// listening / will connect / will write
    Ready,
    /// starts listening at an enumerated point
    Late,
    /// never listens / never connects / never writes
    Absent,
    /// TCP: the SYN is never answered
    Blackhole,
    /// unix: listening, but the accept queue is full until the peer accepts (an enumerated peer action)
    BacklogFull,
    /// a third process shares the application's descriptor and wins the race after a wake-up (outside the
    /// statement's "two ends": recorded as an outcome class only)
    Thief,
}

pub const PEERS: &[(PeerMode, &str)] =
    &[(PeerMode::Ready, "ready"), (PeerMode::Late, "late"), (PeerMode::Absent, "absent"), (PeerMode::Blackhole, "blackhole"), (PeerMode::BacklogFull, "backlog-full"), (PeerMode::Thief, "third-party")];

/// `mode`: Write: 0 = `write_all(payload)`, c>0 = loop of `write(&rest[..c])`.
/// Read: 0 = `read_to_end`, 1 = `read_exact(len)` (peer keeps the connection open), b>=2: loop of `read(&mut buf[..b-1])` until EOF.
#[derive(Clone, Debug)]
pub struct Case {
    pub scen: Scen,
    pub fam: Fam,
    pub len: usize,
    pub cap: usize,
    pub mode: usize,
    pub timeout: Option<u64>,
    pub peer: PeerMode,
    /// Chain only: index into OBTAINS / USES
    pub obtain: usize,
    pub use_: usize,
    /// write scenarios: inbound bytes queued on the writing socket that the application never reads (0 or 4)
    pub rx: usize,
    /// chain/drop: a fork + exec of a long-lived child happens between obtaining the stream and dropping it
    pub child: bool,
}

impl Case {
    pub fn to_json(&self) -> Value {
        json!({
            "scen": SCENS.iter().find(|s| s.0 == self.scen).map(|s| s.1),
            "fam": if self.fam == Fam::Unix { "unix" } else { "tcp" },
            "len": self.len, "cap": self.cap, "mode": self.mode,
            "timeout_ns": self.timeout,
            "rx_pending": self.rx,
            "exec_child": self.child,
            "peer": PEERS.iter().find(|s| s.0 == self.peer).map(|s| s.1),
            "obtain": if self.scen == Scen::Chain { OBTAINS.get(self.obtain) } else { None },
            "use": if self.scen == Scen::Chain { USES.get(self.use_) } else { None },
        })
    }
    pub fn from_json(v: &Value) -> Option<Case> {
        Some(Case {
            scen: SCENS.iter().find(|s| Some(s.1) == v["scen"].as_str())?.0,
            fam: if v["fam"].as_str()? == "unix" { Fam::Unix } else { Fam::Tcp },
            len: v["len"].as_u64()? as usize,
            cap: v["cap"].as_u64()? as usize,
            mode: v["mode"].as_u64()? as usize,
            timeout: v["timeout_ns"].as_u64(),
            peer: PEERS.iter().find(|s| Some(s.1) == v["peer"].as_str())?.0,
            obtain: OBTAINS.iter().position(|s| Some(*s) == v["obtain"].as_str()).unwrap_or(0),
            use_: USES.iter().position(|s| Some(*s) == v["use"].as_str()).unwrap_or(0),
            rx: v["rx_pending"].as_u64().unwrap_or(0) as usize,
            child: v["exec_child"].as_bool().unwrap_or(false),
        })
    }
    /// `<Type>::<op>` of the operation under test
    pub fn op(&self) -> String {
        let f = if self.fam == Fam::Unix { "Unix" } else { "Tcp" };
        match self.scen {
            Scen::Write => format!("{f}Stream::write"),
            Scen::Read => format!("{f}Stream::read"),
            Scen::ReadTimeout => format!("{f}Stream::read_with_timeout"),
            Scen::Accept => format!("{f}Listener::accept"),
            Scen::TryAccept => format!("{f}Listener::try_accept"),
            Scen::AcceptTimeout => format!("{f}Listener::accept_with_timeout"),
            Scen::Connect => format!("{f}Stream::connect"),
            Scen::TryConnect => format!("{f}Stream::try_connect"),
            Scen::ConnectTimeout => format!("{f}Stream::connect_with_timeout"),
            Scen::InProgTry => "TcpStreamInProgress::try_connect".into(),
            Scen::InProgBlocking => "TcpStreamInProgress::connect_blocking".into(),
            Scen::Chain => format!("{f}Stream::{}", USES[self.use_.min(USES.len() - 1)]),
        }
    }
}

pub fn payload(len: usize) -> Vec<u8> {
    (0..len).map(|i| b'a' + (i % 26) as u8).collect()
}

enum AnyStream {
    U(UnixStream),
    T(TcpStream),
}
impl Read for AnyStream {
    fn read(&mut self, buf: &mut [u8]) -> tiny_std::Result<usize> {
        match self {
            AnyStream::U(s) => s.read(buf),
            AnyStream::T(s) => s.read(buf),
        }
    }
}
impl Write for AnyStream {
    fn write(&mut self, buf: &[u8]) -> tiny_std::Result<usize> {
        match self {
            AnyStream::U(s) => s.write(buf),
            AnyStream::T(s) => s.write(buf),
        }
    }
    fn flush(&mut self) -> tiny_std::Result<()> {
        match self {
            AnyStream::U(s) => s.flush(),
            AnyStream::T(s) => s.flush(),
        }
    }
}
impl AnyStream {
    fn fd(&self) -> i32 {
        match self {
            AnyStream::U(s) => s.as_raw_fd().value(),
            AnyStream::T(s) => s.as_raw_fd().value(),
        }
    }
}

enum AnyListener {
    U(UnixListener),
    T(TcpListener),
}

#[derive(Default)]
pub struct AppOut {
    pub viol: Vec<(String, String)>,
    pub result: String,
    /// bytes the write calls reported as accepted (None: unknown, a `write_all` failed)
    pub sent: Option<Vec<u8>>,
    /// bytes the read calls delivered
    pub got: Option<Vec<u8>>,
    /// the reads ran to EOF / to the requested count without an error
    pub got_complete: bool,
    pub machinery: Option<String>,
    /// counters at the end of the measured part
    pub waited: bool,
    pub eintr: bool,
    pub short: bool,
    pub timeout_fired: bool,
    /// a UnixStream came back in blocking mode: not observable through tiny-std's API (no timed or try operation on it)
    pub unix_blocking_fd: bool,
}

#[derive(Clone, Copy, PartialEq, Eq)]
enum ErrK {
    Timeout,
    Os(i32),
    Other,
}
fn errk(e: &Error) -> ErrK {
    match e {
        Error::Timeout => ErrK::Timeout,
        Error::Os { code, .. } => ErrK::Os(code.raw()),
        Error::Uncategorized(_) => ErrK::Other,
    }
}

fn sock_path() -> &'static tiny_std::UnixStr {
    tiny_std::unix_lit!("/model-kernel/sock")
}
fn inet_addr() -> SocketAddress {
    SocketAddress::new(Ip::V4([127, 0, 0, 1]), 4242)
}

/// An error out of a variant that must wait for the peer (optionally with a limit).
unsafe fn judge_wait_err(op: &str, e: &Error, limit: Option<(u64, u64)>, wp: *mut World, out: &mut AppOut) -> String {
    match errk(e) {
        ErrK::Timeout => {
            match limit {
                Some((t0, l)) => {
                    let now = (*wp).clock;
                    if now < t0.saturating_add(l) {
                        out.viol.push((
                            format!("C16:{op}:timeout-early"),
                            format!("{op} reported Timeout at virtual time {now} ns, started {t0} ns with limit {l} ns (only {} ns elapsed)", now - t0),
                        ));
                    }
                }
                None => out.viol.push((
                    format!("C16:{op}:returned-before-peer-acted"),
                    format!("{op} has no time limit but reported Timeout before the peer acted"),
                )),
            }
            "timeout".into()
        }
        ErrK::Os(libc::EINTR) => "eintr-surfaced".into(),
        ErrK::Os(c) if c == libc::EAGAIN && (*wp).peer.stolen => {
            // needs a third party on the same descriptor; the statement speaks of two ends: not judged
            "lost-race-to-third-party:EAGAIN-surfaced(not judged)".into()
        }
        ErrK::Os(c) if c == libc::EAGAIN || c == libc::EINPROGRESS || c == libc::EALREADY => {
            out.viol.push((
                format!("C16:{op}:returned-before-peer-acted"),
                format!("{op} must wait for the peer but returned the would-block error {} while the operation was still pending", errno_name(c)),
            ));
            format!("err-{}", errno_name(c))
        }
        ErrK::Os(libc::ECONNREFUSED) => "refused".into(),
        ErrK::Os(c) => format!("err-{}", errno_name(c)),
        ErrK::Other => match limit {
            Some((_, l)) if l == u64::MAX => "err-limit-above-i64-seconds(operation not attempted; not judged)".into(),
            _ => "err-uncategorized".into(),
        },
    }
}

/// u64::MAX stands for Duration::MAX (more than i64::MAX seconds)
fn dur(ns: u64) -> Duration {
    if ns == u64::MAX {
        Duration::MAX
    } else {
        Duration::from_nanos(ns)
    }
}

unsafe fn setup_stream(fam: Fam, wp: *mut World) -> Result<AnyStream, String> {
    (*wp).peer.listening = true;
    match fam {
        Fam::Unix => UnixStream::connect(sock_path()).map(AnyStream::U).map_err(|e| format!("{e}")),
        Fam::Tcp => TcpStream::connect(&inet_addr()).map(AnyStream::T).map_err(|e| format!("{e}")),
    }
}

unsafe fn snapshot(wp: *mut World, out: &mut AppOut) {
    let w = &*wp;
    out.waited = w.ppolls > 0;
    out.eintr = w.eintrs > 0;
    out.short = w.short_counts > 0;
    out.timeout_fired = w.timeouts_fired > 0;
}

unsafe fn reset_counters(wp: *mut World) {
    let w = &mut *wp;
    w.ppolls = 0;
    w.blocking_ppolls = 0;
    w.eintrs = 0;
    w.short_counts = 0;
    w.timeouts_fired = 0;
    w.eagains = 0;
    w.ealready = 0;
    w.refused = 0;
    w.accept_fds = 0;
    w.kernel_sleeps = 0;
}

/// The stream handed out by accept/connect really is the model's connection: the peer
/// sends the connection's identification byte and the application must read exactly it.
unsafe fn hello_check(op: &str, s: &mut AnyStream, wp: *mut World, out: &mut AppOut) {
    let fd = s.fd();
    let ci = match (*wp).sock_of(fd) {
        Some(Sock::Stream(ci)) if (*wp).conns[*ci].state == CState::Established => *ci,
        other => {
            out.viol.push((
                format!("C16:{op}:returned-before-peer-acted"),
                format!("{op} reported success with descriptor {fd}, which the kernel never connected (model state: {other:?})"),
            ));
            return;
        }
    };
    let hello = (*wp).conns[ci].hello;
    (*wp).peer.data_conn = Some(ci);
    (*wp).peer.to_write = vec![hello];
    (*wp).peer.written = 0;
    (*wp).peer.close_after = false;
    let mut b = [0u8; 1];
    match s.read_exact(&mut b) {
        Ok(()) if b[0] == hello => {}
        Ok(()) => out.viol.push((
            format!("C16:{op}:bytes-reordered"),
            format!("first byte read from the new stream is {:#x}, the peer sent {hello:#x}", b[0]),
        )),
        Err(e) => out.viol.push((format!("C16:{op}:bytes-lost"), format!("reading the peer's first byte from the new stream failed: {e}"))),
    }
}

/// The descriptor behind a freshly obtained listener/stream must be in the mode the rest of
/// tiny-std relies on (non-blocking): the timed and try operations only work on such a descriptor.
unsafe fn mode_check(made_by: &str, what: &str, fd: i32, observable: bool, wp: *mut World, out: &mut AppOut) {
    if (*wp).nonblock_of(fd) == Some(false) {
        if observable {
            out.viol.push((
                format!("C16:{made_by}:returns-blocking-descriptor"),
                format!(
                    "{made_by} handed out a {what} whose descriptor {fd} is in BLOCKING mode (created without SOCK_NONBLOCK): \
                     the timed / try operations on it sleep inside the kernel call instead of reaching ppoll"
                ),
            ));
        } else {
            out.unix_blocking_fd = true;
        }
    }
}

unsafe fn bind_listener(fam: Fam, wp: *mut World, out: &mut AppOut) -> Option<AnyListener> {
    let l = match fam {
        Fam::Unix => match UnixListener::bind(sock_path()) {
            Ok(l) => AnyListener::U(l),
            Err(e) => {
                out.machinery = Some(format!("setup bind failed: {e}"));
                return None;
            }
        },
        Fam::Tcp => match TcpListener::bind(&inet_addr()) {
            Ok(l) => {
                if l.local_addr().is_err() {
                    out.machinery = Some("local_addr failed".into());
                }
                AnyListener::T(l)
            }
            Err(e) => {
                out.machinery = Some(format!("setup bind failed: {e}"));
                return None;
            }
        },
    };
    if let Some(fd) = (*wp).listener_fd() {
        let f = if fam == Fam::Unix { "Unix" } else { "Tcp" };
        // observable for both families: try_accept / accept_with_timeout exist on both listeners
        mode_check(&format!("{f}Listener::bind"), "listener", fd, true, wp, out);
    }
    Some(l)
}

unsafe fn stream_mode_check(made_by: &str, s: &AnyStream, wp: *mut World, out: &mut AppOut) {
    // TcpStream has read_with_timeout; UnixStream has no timed or try operation
    mode_check(made_by, "stream", s.fd(), matches!(s, AnyStream::T(_)), wp, out);
}

unsafe fn try_slept(op: &str, wp: *mut World, out: &mut AppOut) {
    if (*wp).kernel_sleeps > 0 {
        out.viol.push((
            format!("C16:{op}:try-variant-blocks"),
            format!("{op} slept in the kernel inside a system call on a blocking-mode descriptor until the peer acted"),
        ));
    }
}

pub unsafe fn app(case: &Case, wp: *mut World) -> AppOut {
    let mut out = AppOut::default();
    let op = case.op();
    (*wp).set_op("set-up", true);
    match case.scen {
        Scen::Write => {
            let mut s = match setup_stream(case.fam, wp) {
                Ok(s) => s,
                Err(e) => {
                    out.machinery = Some(format!("setup connect failed: {e}"));
                    return out;
                }
            };
            (*wp).peer.reads = true;
            (*wp).prefill_rx(s.fd(), case.rx);
            reset_counters(wp);
            (*wp).set_op(&op, true);
            (*wp).set_phase(Phase::Measured);
            let pl = payload(case.len);
            let mut sent: Vec<u8> = Vec::new();
            out.result = "ok".into();
            if case.mode == 0 {
                match s.write_all(&pl) {
                    Ok(()) => {
                        sent = pl.clone();
                        out.sent = Some(sent);
                    }
                    Err(e) => {
                        out.result = judge_wait_err(&op, &e, None, wp, &mut out);
                        out.sent = None;
                    }
                }
            } else {
                let c = case.mode;
                let mut off = 0usize;
                let mut eintrs = 0;
                if pl.is_empty() {
                    // a zero-length write must report 0
                    match s.write(&[]) {
                        Ok(0) => {}
                        Ok(n) => out.viol.push((format!("C16:{op}:bytes-duplicated"), format!("write(&[]) reported {n} bytes written"))),
                        Err(e) => out.result = judge_wait_err(&op, &e, None, wp, &mut out),
                    }
                }
                while off < pl.len() {
                    let end = (off + c).min(pl.len());
                    match s.write(&pl[off..end]) {
                        Ok(0) => {
                            out.viol.push((
                                format!("C16:{op}:returned-before-peer-acted"),
                                format!("write of {} byte(s) returned Ok(0) instead of waiting for room", end - off),
                            ));
                            out.result = "zero".into();
                            break;
                        }
                        Ok(n) if n > end - off => {
                            out.viol.push((
                                format!("C16:{op}:bytes-lost"),
                                format!("write of {} byte(s) reported {n} bytes written", end - off),
                            ));
                            sent.extend_from_slice(&pl[off..end]);
                            out.result = "overcount".into();
                            break;
                        }
                        Ok(n) => {
                            sent.extend_from_slice(&pl[off..off + n]);
                            off += n;
                        }
                        Err(e) if errk(&e) == ErrK::Os(libc::EINTR) && eintrs < 8 => eintrs += 1,
                        Err(e) => {
                            out.result = judge_wait_err(&op, &e, None, wp, &mut out);
                            break;
                        }
                    }
                }
                out.sent = Some(sent);
            }
            snapshot(wp, &mut out);
            (*wp).set_op("epilogue", true);
            (*wp).set_phase(Phase::Epilogue);
            drop(s);
        }
        Scen::Read | Scen::ReadTimeout => {
            let mut s = match setup_stream(case.fam, wp) {
                Ok(s) => s,
                Err(e) => {
                    out.machinery = Some(format!("setup connect failed: {e}"));
                    return out;
                }
            };
            let with_to = case.scen == Scen::ReadTimeout;
            (*wp).peer.thief = case.peer == PeerMode::Thief;
            if matches!(case.peer, PeerMode::Ready | PeerMode::Thief) {
                (*wp).peer.to_write = payload(case.len);
                (*wp).peer.close_after = case.mode != 1;
            }
            (*wp).peer.written = 0;
            reset_counters(wp);
            (*wp).set_op(&op, true);
            (*wp).set_phase(Phase::Measured);
            out.result = "ok".into();
            let mut got: Vec<u8> = Vec::new();
            match (case.mode, with_to) {
                (0, false) => match s.read_to_end(&mut got) {
                    Ok(n) => {
                        if n != got.len() {
                            out.viol.push((format!("C16:{op}:bytes-lost"), format!("read_to_end returned {n} but appended {} bytes", got.len())));
                        }
                        out.got_complete = true;
                        out.result = "eof".into();
                    }
                    Err(e) => out.result = judge_wait_err(&op, &e, None, wp, &mut out),
                },
                (1, false) => {
                    let mut b = vec![0u8; case.len];
                    match s.read_exact(&mut b) {
                        Ok(()) => {
                            got = b;
                            out.got_complete = true;
                        }
                        Err(e) => {
                            out.result = judge_wait_err(&op, &e, None, wp, &mut out);
                            // what was delivered is not observable after a failed read_exact
                            out.got = None;
                            snapshot(wp, &mut out);
                            (*wp).set_phase(Phase::Epilogue);
                            drop(s);
                            return out;
                        }
                    }
                }
                (m, _) => {
                    let bs = m.max(2) - 1;
                    let mut buf = vec![0u8; bs];
                    let mut eintrs = 0;
                    loop {
                        let t0 = (*wp).clock;
                        let r = match (&mut s, case.timeout) {
                            (AnyStream::T(t), Some(to)) if with_to => t.read_with_timeout(&mut buf, dur(to)),
                            (s, _) => s.read(&mut buf),
                        };
                        match r {
                            Ok(0) => {
                                let (closed, empty) = match (*wp).sock_of(s.fd()) {
                                    Some(Sock::Stream(ci)) => ((*wp).conns[*ci].peer_closed, (*wp).conns[*ci].p2a.is_empty()),
                                    _ => (false, false),
                                };
                                if !closed {
                                    out.viol.push((
                                        format!("C16:{op}:returned-before-peer-acted"),
                                        format!("read into a {bs}-byte buffer returned Ok(0) although the peer has neither written nor closed"),
                                    ));
                                    out.result = "zero".into();
                                } else {
                                    out.got_complete = empty;
                                    out.result = "eof".into();
                                }
                                break;
                            }
                            Ok(n) if n > bs => {
                                out.viol.push((format!("C16:{op}:bytes-duplicated"), format!("read into a {bs}-byte buffer reported {n} bytes")));
                                break;
                            }
                            Ok(n) => got.extend_from_slice(&buf[..n]),
                            Err(e) if errk(&e) == ErrK::Os(libc::EINTR) && eintrs < 8 => eintrs += 1,
                            Err(e) => {
                                let lim = if with_to { case.timeout.map(|l| (t0, l)) } else { None };
                                out.result = judge_wait_err(&op, &e, lim, wp, &mut out);
                                break;
                            }
                        }
                    }
                }
            }
            out.got = Some(got);
            snapshot(wp, &mut out);
            (*wp).set_op("epilogue", true);
            (*wp).set_phase(Phase::Epilogue);
            drop(s);
        }
        Scen::Accept | Scen::TryAccept | Scen::AcceptTimeout => {
            let Some(mut l) = bind_listener(case.fam, wp, &mut out) else { return out };
            (*wp).peer.connects_left = matches!(case.peer, PeerMode::Ready | PeerMode::Thief) as u32;
            (*wp).peer.thief = case.peer == PeerMode::Thief;
            reset_counters(wp);
            (*wp).set_op(&op, true);
            (*wp).set_phase(Phase::Measured);
            let t0 = (*wp).clock;
            let to = dur(case.timeout.unwrap_or(0));
            let res: Result<Option<AnyStream>, Error> = match (&mut l, case.scen) {
                (AnyListener::U(l), Scen::Accept) => l.accept().map(|s| Some(AnyStream::U(s))),
                (AnyListener::U(l), Scen::TryAccept) => l.try_accept().map(|o| o.map(AnyStream::U)),
                (AnyListener::U(l), _) => l.accept_with_timeout(to).map(|s| Some(AnyStream::U(s))),
                (AnyListener::T(l), Scen::Accept) => l.accept().map(|s| Some(AnyStream::T(s))),
                (AnyListener::T(l), Scen::TryAccept) => l.try_accept().map(|o| o.map(AnyStream::T)),
                (AnyListener::T(l), _) => l.accept_with_timeout(to).map(|s| Some(AnyStream::T(s))),
            };
            snapshot(wp, &mut out);
            if case.scen == Scen::TryAccept && (*wp).blocking_ppolls > 0 {
                out.viol.push((format!("C16:{op}:try-variant-blocks"), format!("{op} called ppoll with a blocking time-out {} time(s)", (*wp).blocking_ppolls)));
            }
            if case.scen == Scen::TryAccept {
                try_slept(&op, wp, &mut out);
            }
            (*wp).set_op("epilogue", true);
            (*wp).set_phase(Phase::Epilogue);
            match res {
                Ok(Some(mut s)) => {
                    out.result = "ok".into();
                    stream_mode_check(&op, &s, wp, &mut out);
                    if (*wp).accept_fds == 0 {
                        out.viol.push((
                            format!("C16:{op}:returned-before-peer-acted"),
                            format!("{op} reported a connection although accept4 never delivered one"),
                        ));
                    } else {
                        hello_check(&op, &mut s, wp, &mut out);
                    }
                    drop(s);
                }
                Ok(None) => out.result = if (*wp).accept_fds > 0 { "none-although-delivered".into() } else { "none".into() },
                Err(e) => {
                    let lim = if case.scen == Scen::AcceptTimeout { case.timeout.map(|l| (t0, l)) } else { None };
                    out.result = if case.scen == Scen::TryAccept {
                        format!("err-{:?}", matches!(errk(&e), ErrK::Os(_)))
                    } else {
                        judge_wait_err(&op, &e, lim, wp, &mut out)
                    };
                }
            }
            drop(l);
        }
        Scen::Connect | Scen::TryConnect | Scen::ConnectTimeout | Scen::InProgTry | Scen::InProgBlocking => {
            match case.peer {
                PeerMode::Ready => (*wp).peer.listening = true,
                PeerMode::Late => (*wp).peer.will_listen = true,
                PeerMode::Absent => {}
                PeerMode::Blackhole => (*wp).peer.blackhole = true,
                PeerMode::BacklogFull => {
                    (*wp).peer.listening = true;
                    (*wp).peer.backlog_full = true;
                }
                PeerMode::Thief => (*wp).peer.listening = true,
            }
            reset_counters(wp);
            (*wp).set_op(&op, true);
            (*wp).set_phase(Phase::Measured);
            let t0 = (*wp).clock;
            let to = dur(case.timeout.unwrap_or(0));
            // which operation created the socket of the stream that comes back
            let made_by = if case.fam == Fam::Tcp && matches!(case.scen, Scen::TryConnect | Scen::InProgTry | Scen::InProgBlocking) {
                "TcpStream::try_connect".to_string()
            } else {
                op.clone()
            };
            // Ok(Some(stream)) connected, Ok(None) "not now", Err
            let mut first_op = op.clone();
            let res: Result<Option<AnyStream>, Error> = match (case.fam, case.scen) {
                (Fam::Unix, Scen::Connect) => UnixStream::connect(sock_path()).map(|s| Some(AnyStream::U(s))),
                (Fam::Unix, _) => UnixStream::try_connect(sock_path()).map(|o| o.map(AnyStream::U)),
                (Fam::Tcp, Scen::Connect) => TcpStream::connect(&inet_addr()).map(|s| Some(AnyStream::T(s))),
                (Fam::Tcp, Scen::ConnectTimeout) => TcpStream::connect_with_timeout(&inet_addr(), to).map(|s| Some(AnyStream::T(s))),
                (Fam::Tcp, _) => {
                    first_op = "TcpStream::try_connect".into();
                    (*wp).set_op(&first_op, true);
                    let first = TcpStream::try_connect(&inet_addr());
                    try_slept(&first_op, wp, &mut out);
                    (*wp).kernel_sleeps = 0;
                    (*wp).set_op(&op, true);
                    match first {
                        Ok(TcpTryConnect::Connected(s)) => Ok(Some(AnyStream::T(s))),
                        Ok(TcpTryConnect::InProgress(p)) => {
                            if (*wp).blocking_ppolls > 0 {
                                out.viol.push((
                                    format!("C16:{first_op}:try-variant-blocks"),
                                    format!("{first_op} called ppoll with a blocking time-out"),
                                ));
                            }
                            match case.scen {
                                Scen::InProgTry => {
                                    let r = p.try_connect();
                                    match r {
                                        Ok(TcpTryConnect::Connected(s)) => Ok(Some(AnyStream::T(s))),
                                        Ok(TcpTryConnect::InProgress(p2)) => {
                                            drop(p2);
                                            Ok(None)
                                        }
                                        Err(e) => Err(e),
                                    }
                                }
                                Scen::InProgBlocking => p.connect_blocking().map(|s| Some(AnyStream::T(s))),
                                _ => {
                                    drop(p);
                                    Ok(None)
                                }
                            }
                        }
                        Err(e) => Err(e),
                    }
                }
            };
            snapshot(wp, &mut out);
            let is_try = matches!(case.scen, Scen::TryConnect | Scen::InProgTry);
            if is_try && (*wp).blocking_ppolls > 0 {
                out.viol.push((format!("C16:{op}:try-variant-blocks"), format!("{op} called ppoll with a blocking time-out {} time(s)", (*wp).blocking_ppolls)));
            }
            if is_try {
                try_slept(&op, wp, &mut out);
            }
            (*wp).set_op("epilogue", true);
            (*wp).set_phase(Phase::Epilogue);
            match res {
                Ok(Some(mut s)) => {
                    out.result = "ok".into();
                    stream_mode_check(&made_by, &s, wp, &mut out);
                    hello_check(&op, &mut s, wp, &mut out);
                    drop(s);
                }
                Ok(None) => out.result = "not-now".into(),
                Err(e) => {
                    if is_try {
                        out.result = match errk(&e) {
                            ErrK::Os(c) => format!("err-{}", errno_name(c)),
                            ErrK::Timeout => {
                                out.viol.push((format!("C16:{op}:try-variant-blocks"), format!("{op} reported Timeout")));
                                "timeout".into()
                            }
                            ErrK::Other => "err-uncategorized".into(),
                        };
                    } else {
                        let lim = if case.scen == Scen::ConnectTimeout { case.timeout.map(|l| (t0, l)) } else { None };
                        out.result = judge_wait_err(&op, &e, lim, wp, &mut out);
                        if case.peer == PeerMode::BacklogFull {
                            for v in out.viol.iter_mut() {
                                if v.0.ends_with(":returned-before-peer-acted") {
                                    v.0 = format!("C16:{op}:fails-with-would-block-while-peer-has-not-accepted-yet");
                                    v.1 = format!(
                                        "{op} is the blocking variant: the listener's accept queue is full, the non-blocking connect answers EAGAIN, ppoll(POLLOUT) on the \
                                         unconnected socket is ready at once, the single retry answers EAGAIN again and that is returned — although the peer accepts later \
                                         (the call must complete when the peer acts)"
                                    );
                                }
                            }
                        }
                    }
                }
            }
        }
        Scen::Chain => {
            let f = if case.fam == Fam::Unix { "Unix" } else { "Tcp" };
            let to15 = Duration::from_millis(1500);
            let mut keep: Option<AnyListener> = None;
            // ---- obtain the stream (outside the enumeration: default answers, the peer acts when the application waits)
            let (made_by, res): (String, Result<Option<AnyStream>, Error>) = match case.obtain {
                0..=2 => {
                    let Some(mut l) = bind_listener(case.fam, wp, &mut out) else { return out };
                    (*wp).peer.connects_left = 1;
                    if case.obtain == 1 {
                        (*wp).peer_now(PAct::Connect);
                    }
                    let name = format!("{f}Listener::{}", OBTAINS[case.obtain]);
                    (*wp).set_op(&name, true);
                    let r = match (&mut l, case.obtain) {
                        (AnyListener::U(l), 0) => l.accept().map(|s| Some(AnyStream::U(s))),
                        (AnyListener::U(l), 1) => l.try_accept().map(|o| o.map(AnyStream::U)),
                        (AnyListener::U(l), _) => l.accept_with_timeout(to15).map(|s| Some(AnyStream::U(s))),
                        (AnyListener::T(l), 0) => l.accept().map(|s| Some(AnyStream::T(s))),
                        (AnyListener::T(l), 1) => l.try_accept().map(|o| o.map(AnyStream::T)),
                        (AnyListener::T(l), _) => l.accept_with_timeout(to15).map(|s| Some(AnyStream::T(s))),
                    };
                    keep = Some(l);
                    (name, r)
                }
                _ => {
                    (*wp).peer.listening = true;
                    let name = format!("{f}Stream::{}", if case.obtain == 6 { "try_connect" } else { OBTAINS[case.obtain.min(5)] });
                    (*wp).set_op(&name, true);
                    let r = match (case.fam, case.obtain) {
                        (Fam::Unix, 3) => UnixStream::connect(sock_path()).map(|s| Some(AnyStream::U(s))),
                        (Fam::Unix, _) => UnixStream::try_connect(sock_path()).map(|o| o.map(AnyStream::U)),
                        (Fam::Tcp, 3) => TcpStream::connect(&inet_addr()).map(|s| Some(AnyStream::T(s))),
                        (Fam::Tcp, 5) => TcpStream::connect_with_timeout(&inet_addr(), to15).map(|s| Some(AnyStream::T(s))),
                        (Fam::Tcp, ob) => match TcpStream::try_connect(&inet_addr()) {
                            Ok(TcpTryConnect::Connected(s)) => Ok(Some(AnyStream::T(s))),
                            Ok(TcpTryConnect::InProgress(p)) => {
                                if ob == 4 {
                                    // the handshake completes, then the try variant finishes the connection
                                    if let Some(ci) = (*wp).peer.data_conn {
                                        (*wp).peer_now(PAct::Handshake(ci));
                                    }
                                    (*wp).set_op("TcpStreamInProgress::try_connect", true);
                                    match p.try_connect() {
                                        Ok(TcpTryConnect::Connected(s)) => Ok(Some(AnyStream::T(s))),
                                        Ok(TcpTryConnect::InProgress(_)) => Ok(None),
                                        Err(e) => Err(e),
                                    }
                                } else {
                                    (*wp).set_op("TcpStreamInProgress::connect_blocking", true);
                                    p.connect_blocking().map(|s| Some(AnyStream::T(s)))
                                }
                            }
                            Err(e) => Err(e),
                        },
                    };
                    (name, r)
                }
            };
            let mut s = match res {
                Ok(Some(s)) => s,
                other => {
                    // with a willing peer every obtaining variant must deliver a stream
                    if (*wp).stuck.is_none() {
                        out.machinery = Some(format!("chain: {made_by} did not deliver a stream: {:?}", other.map(|o| o.is_some())));
                    }
                    out.result = "no-stream".into();
                    return out;
                }
            };
            stream_mode_check(&made_by, &s, wp, &mut out);
            if case.use_ == 3 {
                // ---- close order: the application drops the stream, the peer's blocking read must then complete with
                //      end-of-stream ("blocking read completes when the peer acts", every order of close between the two
                //      ends) — also when the process fork+exec'd a long-lived child in between
                let fd = s.fd();
                let ci = match (*wp).sock_of(fd) {
                    Some(Sock::Stream(ci)) => *ci,
                    _ => {
                        out.machinery = Some("chain/drop: no model connection behind the stream".into());
                        return out;
                    }
                };
                let cloexec = (*wp).cloexec_of(fd).unwrap_or(true);
                let leaked = if case.child { (*wp).fork_exec() } else { Vec::new() };
                (*wp).set_op(&op, true);
                (*wp).set_phase(Phase::Measured);
                drop(s);
                (*wp).set_phase(Phase::Epilogue);
                if !(*wp).peer_sees_eof(ci) {
                    out.viol.push((
                        format!("C16:{made_by}:peer-sees-no-eof-after-drop"),
                        format!(
                            "{made_by} handed out a stream whose descriptor {fd} has no close-on-exec flag; the process fork+exec'd a child, which inherited it \
                             (leaked descriptors {leaked:?}); dropping the stream closes only the parent's copy, so the peer's blocking read never sees end-of-stream \
                             (a blocking read must complete when the other end closes)"
                        ),
                    ));
                    out.result = "no-eof(exec'd child holds the connection)".into();
                } else {
                    out.result = if case.child { "eof-after-drop(child holds nothing)".into() } else { "eof-after-drop".into() };
                }
                if !cloexec && !case.child {
                    out.result.push_str("+stream-fd-without-cloexec");
                }
                if leaked.iter().any(|&l| l != fd) {
                    // a listener copy in the child does not change what the statement speaks about
                    out.result.push_str("+other-fd-leaked(not judged)");
                }
                drop(keep);
                return out;
            }
            // ---- use it; the peer is connected and silent
            (*wp).peer.connects_left = 0;
            (*wp).peer.to_write.clear();
            (*wp).peer.written = 0;
            (*wp).peer.close_after = false;
            (*wp).peer.reads = false;
            reset_counters(wp);
            (*wp).set_phase(Phase::Measured);
            let mut buf = [0u8; 2];
            match case.use_ {
                0 => {
                    let t = case.timeout.unwrap_or(0);
                    (*wp).set_op(&op, true);
                    let t0 = (*wp).clock;
                    let r = match &mut s {
                        AnyStream::T(ts) => ts.read_with_timeout(&mut buf, dur(t)),
                        AnyStream::U(us) => us.read(&mut buf),
                    };
                    match r {
                        Ok(n) => {
                            out.viol.push((
                                format!("C16:{op}:returned-before-peer-acted"),
                                format!("{op} on a stream from {made_by} returned Ok({n}) although the peer has neither written nor closed"),
                            ));
                            out.result = "fabricated".into();
                        }
                        Err(e) => out.result = judge_wait_err(&op, &e, Some((t0, t)), wp, &mut out),
                    }
                }
                1 => {
                    // no limit and a silent peer: waiting for ever is the correct behaviour
                    (*wp).set_op(&op, false);
                    match s.read(&mut buf) {
                        Ok(n) => {
                            out.viol.push((
                                format!("C16:{op}:returned-before-peer-acted"),
                                format!("{op} on a stream from {made_by} returned Ok({n}) although the peer has neither written nor closed"),
                            ));
                            out.result = "fabricated".into();
                        }
                        Err(e) => out.result = judge_wait_err(&op, &e, None, wp, &mut out),
                    }
                }
                _ => {
                    // more than the buffer holds and a peer that never reads: must wait for ever
                    (*wp).set_op(&op, false);
                    (*wp).prefill_rx(s.fd(), case.rx);
                    let pl = payload(case.len);
                    match s.write_all(&pl) {
                        Ok(()) => {
                            out.sent = Some(pl);
                            out.result = "ok".into();
                        }
                        Err(e) => out.result = judge_wait_err(&op, &e, None, wp, &mut out),
                    }
                }
            }
            snapshot(wp, &mut out);
            (*wp).set_op("epilogue", true);
            (*wp).set_phase(Phase::Epilogue);
            drop(s);
            drop(keep);
        }
    }
    out
}

fn is_subseq(small: &[u8], big: &[u8]) -> bool {
    let mut it = big.iter();
    small.iter().all(|x| it.any(|y| y == x))
}

/// what the stream comparison found, if anything
pub fn classify_stream(want: &[u8], got: &[u8]) -> Option<&'static str> {
    if want == got {
        return None;
    }
    if got.len() < want.len() && is_subseq(got, want) {
        return Some("bytes-lost");
    }
    if got.len() > want.len() && is_subseq(want, got) {
        return Some("bytes-duplicated");
    }
    let mut a = want.to_vec();
    let mut b = got.to_vec();
    a.sort_unstable();
    b.sort_unstable();
    if a == b {
        return Some("bytes-reordered");
    }
    if got.len() > want.len() {
        Some("bytes-duplicated")
    } else if got.len() < want.len() {
        Some("bytes-lost")
    } else {
        Some("bytes-reordered")
    }
}

pub struct Exec {
    pub trace: Vec<Pt>,
    pub viol: Vec<(String, String)>,
    pub outcome: String,
    pub events: Vec<Ev>,
    pub machinery: Option<String>,
    pub ncalls: usize,
}

/// One execution of `case` under the choice list `prefix` (defaults afterwards).
pub fn run_exec(case: &Case, prefix: &[u8], menu: Menu) -> Exec {
    let mut w = Box::new(World::new(case.fam, case.cap, prefix.to_vec(), menu));
    let wp: *mut World = &mut *w;
    let mut plan = PlanRef(wp);
    let (res, _log) = sysx::run(&mut plan, || catch(|| unsafe { app(case, wp) }));
    let op = case.op();
    let mut viol: Vec<(String, String)> = Vec::new();
    let mut machinery = None;
    let mut outcome;
    w.finish();
    match res {
        Err(p) => {
            viol.push((format!("C16:{op}:panic"), format!("{op} panicked: {p}")));
            outcome = "panic".to_string();
        }
        Ok(mut out) => {
            machinery = out.machinery.take();
            viol.append(&mut out.viol);
            outcome = out.result.clone();
            let pl = payload(case.len);
            if case.scen == Scen::Write || (case.scen == Scen::Chain && case.use_ == 2) {
                let got = &w.peer.received;
                match &out.sent {
                    Some(sent) => {
                        if let Some(kind) = classify_stream(sent, got) {
                            viol.push((
                                format!("C16:{op}:{kind}"),
                                format!(
                                    "the write calls reported {:?} as written, the peer received {:?}",
                                    common::show_bytes(sent),
                                    common::show_bytes(got)
                                ),
                            ));
                        }
                    }
                    None => {
                        if !pl.starts_with(got) {
                            viol.push((
                                format!("C16:{op}:bytes-reordered"),
                                format!("peer received {:?}, not a prefix of the payload {:?}", common::show_bytes(got), common::show_bytes(&pl)),
                            ));
                        }
                    }
                }
            }
            if matches!(case.scen, Scen::Read | Scen::ReadTimeout) {
                if let Some(got) = &out.got {
                    let written = &w.peer.to_write[..w.peer.written.min(w.peer.to_write.len())];
                    if out.got_complete {
                        let want: &[u8] = if matches!(case.peer, PeerMode::Ready | PeerMode::Thief) { &pl } else { &[] };
                        if let Some(kind) = classify_stream(want, got) {
                            viol.push((
                                format!("C16:{op}:{kind}"),
                                format!("the peer wrote {:?}, the reads delivered {:?}", common::show_bytes(want), common::show_bytes(got)),
                            ));
                        }
                    } else if !written.starts_with(got) {
                        let kind = classify_stream(written, got).unwrap_or("bytes-reordered");
                        viol.push((
                            format!("C16:{op}:{kind}"),
                            format!("the peer wrote {:?} so far, the reads delivered {:?}", common::show_bytes(written), common::show_bytes(got)),
                        ));
                    }
                }
            }
            if out.waited {
                outcome.push_str("+wait");
            }
            if out.eintr {
                outcome.push_str("+eintr");
            }
            if out.short {
                outcome.push_str("+short");
            }
            if out.timeout_fired && !outcome.starts_with("timeout") {
                outcome.push_str("+to");
            }
            if out.unix_blocking_fd {
                outcome.push_str("+unix-blocking-fd(unobservable)");
            }
            if w.kernel_sleeps > 0 {
                outcome.push_str("+kernel-sleep");
            }
        }
    }
    if let Some((rop, given, left, limit)) = w.restarted.clone() {
        viol.push((
            format!("C16:{rop}:timeout-restarted-after-EINTR"),
            format!(
                "{rop}: the wait has a limit of {limit} ns; after ppoll was interrupted (EINTR) with {left} ns left — the kernel wrote that back through the time-out pointer — \
                 the retry asked for {given} ns: the model time waited in one operation exceeds its limit, under repeated signals the call never reports Timeout"
            ),
        ));
    }
    if let Some((wop, ev, need)) = w.wrong_events.clone() {
        let nm = |e: i16| {
            let mut v = Vec::new();
            if e & libc::POLLIN != 0 {
                v.push("POLLIN");
            }
            if e & libc::POLLOUT != 0 {
                v.push("POLLOUT");
            }
            if e & !(libc::POLLIN | libc::POLLOUT) != 0 {
                v.push("other");
            }
            format!("{} ({e:#x})", v.join("|"))
        };
        viol.push((
            format!("C16:{wop}:waits-for-wrong-events"),
            format!(
                "{wop}: after a would-block answer the operation needs {} but its ppoll asks for {} — readiness in the other direction ends the wait although the operation still cannot proceed",
                nm(need),
                nm(ev)
            ),
        ));
    }
    if let Some(st) = w.stuck.clone() {
        let call = sysx::name(st.nr);
        if !st.must_return {
            // no limit, silent peer: waiting for ever is what the property asks for
            outcome = format!("blocked-awaiting-peer(ok):{}", if st.in_kernel { "in-kernel" } else { "in-ppoll" });
        } else if st.in_kernel {
            viol.push((
                format!("C16:{}:blocks-in-kernel", st.op),
                format!(
                    "{} sleeps for ever inside {call}() on a descriptor in BLOCKING mode: nothing the peer will still do wakes it, so it can never \
                     report Timeout / return (sock.rs only reaches ppoll after an EAGAIN, which a blocking descriptor never gives)",
                    st.op
                ),
            ));
            outcome = "blocks-in-kernel".into();
        } else {
            viol.push((
                format!("C16:{}:livelock", st.op),
                format!("{} blocks forever: it waits in ppoll for readiness that no peer action can produce any more", st.op),
            ));
            outcome = "blocked-forever".into();
        }
    }
    if w.horizon_hit {
        viol.push((format!("C16:{op}:livelock"), format!("{op} issued more than {HORIZON} system calls without finishing")));
        outcome = "livelock".into();
    }
    if !w.unexpected.is_empty() && machinery.is_none() {
        machinery = Some(format!("system calls outside the model: {:?}", w.unexpected.iter().map(|n| sysx::name(*n)).collect::<Vec<_>>()));
    }
    if w.ch.mismatch && machinery.is_none() {
        machinery = Some("choice list does not fit the execution (non-determinism)".into());
    }
    let outcome = format!("{}:{outcome}", op.split("::").nth(1).unwrap_or("?"));
    Exec { trace: std::mem::take(&mut w.ch.trace), viol, outcome, events: std::mem::take(&mut w.ev), machinery, ncalls: w.ncalls }
}
