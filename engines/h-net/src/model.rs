//! The in-process MODEL KERNEL (a `sysx::Plan`): a tiny socket world answered from
//! harness state.  Per connection two bounded FIFOs, a scripted peer whose actions are
//! interleaved with the application's calls at enumerated points, and a virtual clock
//! that only `ppoll` advances.  Every intercepted call is an *answer point*; an
//! execution is identified by the list of choices taken at its choice points.
//!
//! Only answers Linux gives for a single-owner stream are produced; after readiness
//! was reported through `ppoll` the next operation on that descriptor makes progress.

use std::collections::VecDeque;
use sysx::Decision;

pub const FD_BASE: i32 = 1000;
/// call-count horizon of one execution (an execution of the unchanged code needs < 60 calls)
pub const HORIZON: usize = 300;

#[derive(Clone, Copy, PartialEq, Eq, Debug)]
pub enum Fam {
    Unix,
    Tcp,
}

#[derive(Clone, Copy, PartialEq, Eq, Debug)]
pub enum CState {
    SynSent,
    Established,
    Refused,
}

pub struct Conn {
    pub a2p: VecDeque<u8>,
    pub p2a: VecDeque<u8>,
    pub app_closed: bool,
    /// a copy of the application's descriptor survived an exec in a child process (it had no close-on-exec flag)
    pub child_holds: bool,
    pub peer_closed: bool,
    pub state: CState,
    pub hello: u8,
}

#[derive(Clone, Debug, PartialEq, Eq)]
pub enum Sock {
    Fresh { eagain_given: bool },
    Bound,
    Listener { pending: VecDeque<usize> },
    Connecting(usize),
    Stream(usize),
    Closed,
}

#[derive(Clone, Copy, PartialEq, Eq, Debug)]
pub enum Phase {
    /// default answers, peer only acts when the application blocks; no choice points
    Setup,
    Measured,
    Epilogue,
}

#[derive(Clone, Copy, Debug, PartialEq, Eq)]
pub enum PAct {
    Listen,
    Handshake(usize),
    Connect,
    /// the peer accepts one of the connections queued ahead of the application's: room in its accept queue
    AcceptOne,
    Write(usize),
    Close,
    Read(usize),
}

#[derive(Default)]
pub struct Peer {
    pub listening: bool,
    pub will_listen: bool,
    /// TCP: SYNs are never answered
    pub blackhole: bool,
    /// unix: the listener's accept queue is full (non-blocking connect answers EAGAIN) until the peer accepts one
    pub backlog_full: bool,
    /// a third process shares the application's descriptor and wins the race after a wake-up, once
    pub thief: bool,
    pub stolen: bool,
    pub connects_left: u32,
    pub to_write: Vec<u8>,
    pub written: usize,
    pub close_after: bool,
    pub reads: bool,
    pub received: Vec<u8>,
    pub data_conn: Option<usize>,
}

/// Which deviating answer kinds are on the menu (a kind the conformance pass did not
/// reproduce on the real kernel is switched off for the run).
#[derive(Clone, Copy, Debug)]
pub struct Menu {
    pub short_read: bool,
    pub short_write: bool,
    pub ppoll_eintr: bool,
    pub ppoll_timeout: bool,
    pub eintr_writeback: bool,
    pub unix_connect_eagain: bool,
    pub tcp_einprogress: bool,
    pub tcp_ealready: bool,
    pub tcp_refused: bool,
    /// blocking-mode descriptors put the caller to sleep (witnessed); off: every descriptor is treated as non-blocking
    pub blocking_sleeps: bool,
}

impl Menu {
    pub fn all() -> Self {
        Menu {
            short_read: true,
            short_write: true,
            ppoll_eintr: true,
            ppoll_timeout: true,
            eintr_writeback: true,
            unix_connect_eagain: true,
            tcp_einprogress: true,
            tcp_ealready: true,
            tcp_refused: true,
            blocking_sleeps: true,
        }
    }
}

#[derive(Clone, Copy, Debug)]
pub struct Pt {
    pub chosen: u8,
    pub n: u8,
    /// bit i set: option i costs one deviation
    pub mask: u64,
}

pub struct Chooser {
    pub prefix: Vec<u8>,
    pub trace: Vec<Pt>,
    pub mismatch: bool,
}

impl Chooser {
    #[inline]
    fn choose(&mut self, n: usize, mask: u64) -> usize {
        if n <= 1 {
            return 0;
        }
        let n = n.min(60);
        let i = self.trace.len();
        let mut c = if i < self.prefix.len() { self.prefix[i] as usize } else { 0 };
        if c >= n {
            self.mismatch = true;
            c = 0;
        }
        self.trace.push(Pt { chosen: c as u8, n: n as u8, mask: mask & !1 });
        c
    }
}

#[derive(Clone, Copy, Debug)]
pub enum Ev {
    Call { nr: i64, fd: i32, a: i64, ret: i64 },
    Peer(PAct),
    Clock(u64),
    Phase(Phase),
    Note(&'static str),
}

#[derive(Clone, Debug)]
pub struct Stuck {
    pub in_kernel: bool,
    pub nr: i64,
    pub op: String,
    pub must_return: bool,
}

pub struct World {
    pub fam: Fam,
    pub cap: usize,
    pub clock: u64,
    pub socks: Vec<Sock>,
    pub conns: Vec<Conn>,
    pub peer: Peer,
    pub ch: Chooser,
    pub phase: Phase,
    pub menu: Menu,
    pub ncalls: usize,
    pub horizon_hit: bool,
    /// O_NONBLOCK per model descriptor (from socket()/accept4() flags, fcntl F_SETFL)
    pub nb: Vec<bool>,
    /// FD_CLOEXEC per model descriptor (socket()/accept4() flags, fcntl F_SETFD)
    pub cloexec: Vec<bool>,
    /// per descriptor: the readiness (POLLIN / POLLOUT) the last would-block answer makes the caller wait for, 0 = none
    pub need: Vec<i16>,
    /// per descriptor: the last ppoll reported it ready and no call has used that yet
    pub ready: Vec<bool>,
    /// a ppoll whose requested events are not what the blocked operation needs: (operation, requested, needed)
    pub wrong_events: Option<(String, i16, i16)>,
    /// the time limit of the wait in progress (time-out of its first ppoll) and the model time already waited in it
    pub wait_limit: Option<u64>,
    pub waited: u64,
    /// a later ppoll of the same wait was issued with more time than was left: (operation, given, left, limit)
    pub restarted: Option<(String, u64, u64, u64)>,
    /// the application is stuck for ever: in a blocking-mode call sleeping in the kernel, or in a ppoll without time-out
    pub stuck: Option<Stuck>,
    /// once stuck the execution is wound down: every further call answers EBADF
    pub halted: bool,
    /// blocking-mode calls that had to sleep in the kernel until the peer acted
    pub kernel_sleeps: u32,
    /// which tiny-std operation the application is executing, and whether its oracle says it must return
    pub cur_op: String,
    pub cur_must_return: bool,
    pub ppolls: u32,
    pub blocking_ppolls: u32,
    pub eagains: u32,
    pub eintrs: u32,
    pub timeouts_fired: u32,
    pub short_counts: u32,
    pub ealready: u32,
    pub refused: u32,
    pub accept_fds: u32,
    pub ev: Vec<Ev>,
    pub unexpected: Vec<i64>,
    wrote_here: bool,
    read_here: bool,
    scratch: Vec<PAct>,
}

const POLLIN: i16 = libc::POLLIN;
const POLLOUT: i16 = libc::POLLOUT;
const POLLERR: i16 = libc::POLLERR;
const POLLHUP: i16 = libc::POLLHUP;

#[inline]
fn neg(e: i32) -> i64 {
    -(e as i64)
}

impl World {
    pub fn new(fam: Fam, cap: usize, prefix: Vec<u8>, menu: Menu) -> World {
        World {
            fam,
            cap,
            clock: 1_000_000_000,
            socks: Vec::with_capacity(4),
            conns: Vec::with_capacity(2),
            peer: Peer::default(),
            ch: Chooser { prefix, trace: Vec::with_capacity(32), mismatch: false },
            phase: Phase::Setup,
            menu,
            ncalls: 0,
            horizon_hit: false,
            nb: Vec::with_capacity(4),
            cloexec: Vec::with_capacity(4),
            need: Vec::with_capacity(4),
            ready: Vec::with_capacity(4),
            wrong_events: None,
            wait_limit: None,
            waited: 0,
            restarted: None,
            stuck: None,
            halted: false,
            kernel_sleeps: 0,
            cur_op: String::new(),
            cur_must_return: true,
            ppolls: 0,
            blocking_ppolls: 0,
            eagains: 0,
            eintrs: 0,
            timeouts_fired: 0,
            short_counts: 0,
            ealready: 0,
            refused: 0,
            accept_fds: 0,
            ev: Vec::with_capacity(48),
            unexpected: Vec::new(),
            wrote_here: false,
            read_here: false,
            scratch: Vec::with_capacity(24),
        }
    }

    pub fn set_phase(&mut self, p: Phase) {
        self.phase = p;
        self.ev.push(Ev::Phase(p));
    }

    #[inline]
    fn choose(&mut self, n: usize, mask: u64) -> usize {
        if self.phase != Phase::Measured {
            return 0;
        }
        self.ch.choose(n, mask)
    }

    fn sock_idx(&self, fd: i32) -> Option<usize> {
        if fd >= FD_BASE && ((fd - FD_BASE) as usize) < self.socks.len() {
            Some((fd - FD_BASE) as usize)
        } else {
            None
        }
    }

    /// O_NONBLOCK state of a model descriptor
    pub fn nonblock_of(&self, fd: i32) -> Option<bool> {
        self.sock_idx(fd).map(|i| self.nb[i])
    }

    /// the peer acts now (used by scenario set-up, outside the enumeration)
    pub fn peer_now(&mut self, a: PAct) {
        self.do_peer(a);
    }

    /// the call on descriptor `i` answered "would block": the readiness its caller has to wait for
    fn note_need(&mut self, i: usize, ret: i64, ev: i16) {
        // any call other than ppoll ends the wait in progress
        self.wait_limit = None;
        self.waited = 0;
        if i < self.ready.len() {
            self.ready[i] = false;
        }
        let blocked = ret == neg(libc::EAGAIN) || ret == neg(libc::EINPROGRESS) || ret == neg(libc::EALREADY);
        if i < self.need.len() {
            self.need[i] = if blocked { ev } else { 0 };
        }
    }

    pub fn cloexec_of(&self, fd: i32) -> Option<bool> {
        self.sock_idx(fd).map(|i| self.cloexec[i])
    }

    /// Model `fork` + `exec` of a child that outlives the application's streams: the child gets a copy of
    /// every open descriptor, exec closes exactly the copies that carry close-on-exec; the others stay
    /// open in the child.  Returns the descriptors that leaked.
    pub fn fork_exec(&mut self) -> Vec<i32> {
        let mut leaked = Vec::new();
        for i in 0..self.socks.len() {
            if self.socks[i] == Sock::Closed || self.cloexec[i] {
                continue;
            }
            leaked.push(FD_BASE + i as i32);
            if let Sock::Stream(ci) | Sock::Connecting(ci) = self.socks[i] {
                self.conns[ci].child_holds = true;
            }
        }
        self.ev.push(Ev::Note("fork + exec of a long-lived child: it keeps every descriptor without close-on-exec"));
        leaked
    }

    /// the peer's read reports end-of-stream: every reference to the application's end is closed
    pub fn peer_sees_eof(&self, ci: usize) -> bool {
        self.conns[ci].app_closed && !self.conns[ci].child_holds
    }

    /// inbound bytes the application has not read (a greeting the peer sent earlier)
    pub fn prefill_rx(&mut self, fd: i32, n: usize) {
        if let Some(Sock::Stream(ci)) = self.sock_of(fd).cloned() {
            for k in 0..n {
                self.conns[ci].p2a.push_back(b'0' + k as u8);
            }
        }
    }

    pub fn set_op(&mut self, op: &str, must_return: bool) {
        self.cur_op.clear();
        self.cur_op.push_str(op);
        self.cur_must_return = must_return;
    }

    fn get_stuck(&mut self, in_kernel: bool, nr: i64) {
        self.stuck = Some(Stuck { in_kernel, nr, op: self.cur_op.clone(), must_return: self.cur_must_return });
        self.halted = true;
        self.ev.push(Ev::Note(if in_kernel {
            "blocking-mode descriptor: the call sleeps in the kernel and nothing the peer will do wakes it"
        } else {
            "application waits in ppoll for readiness that can never come"
        }));
    }

    /// A call on a blocking-mode descriptor cannot make progress: the kernel puts the caller to
    /// sleep; the peer performs one of its remaining actions (free choice).  false: nothing left
    /// that could wake it — the call sleeps for ever.
    fn kernel_wait(&mut self, nr: i64) -> bool {
        self.wrote_here = false;
        self.read_here = false;
        self.peer_actions();
        let n = self.scratch.len();
        if n == 0 {
            self.get_stuck(true, nr);
            return false;
        }
        let c = self.choose(n, 0);
        let a = self.scratch[c];
        self.do_peer(a);
        true
    }

    pub fn sock_of(&self, fd: i32) -> Option<&Sock> {
        self.sock_idx(fd).map(|i| &self.socks[i])
    }

    fn new_sock(&mut self, s: Sock, nonblock: bool, cloexec: bool) -> i32 {
        self.cloexec.push(cloexec);
        self.socks.push(s);
        self.nb.push(nonblock || !self.menu.blocking_sleeps);
        self.need.push(0);
        self.ready.push(false);
        FD_BASE + (self.socks.len() as i32 - 1)
    }

    fn new_conn(&mut self, state: CState) -> usize {
        let id = self.conns.len();
        self.conns.push(Conn {
            a2p: VecDeque::with_capacity(self.cap),
            p2a: VecDeque::with_capacity(self.cap),
            app_closed: false,
            child_holds: false,
            peer_closed: false,
            state,
            hello: b'A' + id as u8,
        });
        self.peer.data_conn = Some(id);
        id
    }

    pub fn listener_fd(&self) -> Option<i32> {
        self.app_listener().map(|i| FD_BASE + i as i32)
    }

    fn app_listener(&self) -> Option<usize> {
        self.socks.iter().position(|s| matches!(s, Sock::Listener { .. }))
    }

    // ------------------------------------------------------------------ peer

    fn peer_actions(&mut self) {
        let mut out = std::mem::take(&mut self.scratch);
        out.clear();
        let p = &self.peer;
        if p.will_listen && !p.listening {
            out.push(PAct::Listen);
        }
        if p.listening && p.backlog_full {
            out.push(PAct::AcceptOne);
        }
        if p.listening && !p.blackhole {
            if let Some(i) = self.conns.iter().position(|c| c.state == CState::SynSent) {
                out.push(PAct::Handshake(i));
            }
        }
        if p.connects_left > 0 && self.app_listener().is_some() {
            out.push(PAct::Connect);
        }
        if let Some(ci) = p.data_conn {
            let c = &self.conns[ci];
            if c.state == CState::Established && !c.peer_closed {
                let rem = p.to_write.len() - p.written;
                if rem > 0 {
                    if !self.wrote_here {
                        let free = self.cap - c.p2a.len();
                        for k in 1..=rem.min(free) {
                            out.push(PAct::Write(k));
                        }
                    }
                } else if p.close_after {
                    out.push(PAct::Close);
                }
                if p.reads && !self.read_here {
                    for k in 1..=c.a2p.len() {
                        out.push(PAct::Read(k));
                    }
                }
            }
        }
        self.scratch = out;
    }

    fn do_peer(&mut self, a: PAct) {
        self.ev.push(Ev::Peer(a));
        match a {
            PAct::Listen => self.peer.listening = true,
            PAct::AcceptOne => self.peer.backlog_full = false,
            PAct::Handshake(i) => self.conns[i].state = CState::Established,
            PAct::Connect => {
                if let Some(li) = self.app_listener() {
                    let id = self.new_conn(CState::Established);
                    if let Sock::Listener { pending } = &mut self.socks[li] {
                        pending.push_back(id);
                    }
                    self.peer.connects_left -= 1;
                }
            }
            PAct::Write(k) => {
                if let Some(ci) = self.peer.data_conn {
                    for _ in 0..k {
                        let b = self.peer.to_write[self.peer.written];
                        self.conns[ci].p2a.push_back(b);
                        self.peer.written += 1;
                    }
                    self.wrote_here = true;
                }
            }
            PAct::Close => {
                if let Some(ci) = self.peer.data_conn {
                    self.conns[ci].peer_closed = true;
                }
            }
            PAct::Read(k) => {
                if let Some(ci) = self.peer.data_conn {
                    for _ in 0..k {
                        if let Some(b) = self.conns[ci].a2p.pop_front() {
                            self.peer.received.push(b);
                        }
                    }
                    self.read_here = true;
                }
            }
        }
    }

    /// Peer-step interleaving before an application call: any number of peer actions
    /// (each a free choice; option 0 = the peer does nothing now).  Consecutive writes
    /// (reads) at one point are merged into one action of the summed size: the
    /// application cannot observe the intermediate states.
    fn interleave(&mut self) {
        self.wrote_here = false;
        self.read_here = false;
        if self.phase != Phase::Measured {
            return;
        }
        loop {
            self.peer_actions();
            let n = self.scratch.len();
            if n == 0 {
                break;
            }
            let c = self.choose(n + 1, 0);
            if c == 0 {
                break;
            }
            let a = self.scratch[c - 1];
            self.do_peer(a);
        }
    }

    /// After the application is done: the peer drains whatever is still queued for it.
    pub fn finish(&mut self) {
        if let Some(ci) = self.peer.data_conn {
            while let Some(b) = self.conns[ci].a2p.pop_front() {
                self.peer.received.push(b);
            }
        }
    }

    // ------------------------------------------------------------------ readiness

    fn revents(&self, fd: i32, events: i16) -> i16 {
        let Some(i) = self.sock_idx(fd) else { return libc::POLLNVAL };
        let mut r: i16 = 0;
        match &self.socks[i] {
            Sock::Listener { pending } => {
                if !pending.is_empty() {
                    r |= POLLIN;
                }
            }
            Sock::Stream(ci) => {
                let c = &self.conns[*ci];
                if !c.p2a.is_empty() || c.peer_closed {
                    r |= POLLIN;
                }
                if c.a2p.len() < self.cap {
                    r |= POLLOUT;
                }
                if c.peer_closed {
                    r |= POLLHUP;
                }
            }
            Sock::Connecting(ci) => match self.conns[*ci].state {
                CState::SynSent => {}
                CState::Established => r |= POLLOUT,
                CState::Refused => r |= POLLIN | POLLOUT | POLLERR | POLLHUP,
            },
            // an unconnected unix stream socket polls writable + hung up (witnessed in conformance)
            Sock::Fresh { .. } | Sock::Bound => r |= POLLOUT | POLLHUP,
            Sock::Closed => return libc::POLLNVAL,
        }
        r & (events | POLLERR | POLLHUP)
    }

    // ------------------------------------------------------------------ syscalls

    pub fn sys(&mut self, nr: i64, a: &[u64; 6]) -> Decision {
        self.ncalls += 1;
        if self.ncalls > HORIZON {
            self.horizon_hit = true;
            if self.ncalls > 40 * HORIZON {
                // the code under test ignores every error: stop the shard, the case is attributed
                unsafe { libc::abort() };
            }
            return Decision::Force(neg(libc::EBADF));
        }
        let fd = a[0] as i32;
        if self.halted {
            let r = if nr == libc::SYS_close {
                if let Some(i) = self.sock_idx(fd) {
                    self.socks[i] = Sock::Closed;
                }
                0
            } else {
                neg(libc::EBADF)
            };
            return Decision::Force(r);
        }
        let ret: i64 = match nr {
            libc::SYS_socket => {
                let nonblock = a[1] & libc::SOCK_NONBLOCK as u64 != 0;
                let cloexec = a[1] & libc::SOCK_CLOEXEC as u64 != 0;
                let fd = self.new_sock(Sock::Fresh { eagain_given: false }, nonblock, cloexec);
                self.ev.push(Ev::Call { nr, fd, a: a[0] as i64, ret: fd as i64 });
                return Decision::Force(fd as i64);
            }
            libc::SYS_bind => match self.sock_idx(fd) {
                Some(i) => {
                    self.socks[i] = Sock::Bound;
                    0
                }
                None => return self.foreign(nr),
            },
            libc::SYS_listen => match self.sock_idx(fd) {
                Some(i) => {
                    if !matches!(self.socks[i], Sock::Listener { .. }) {
                        self.socks[i] = Sock::Listener { pending: VecDeque::new() };
                    }
                    0
                }
                None => return self.foreign(nr),
            },
            libc::SYS_fcntl => match self.sock_idx(fd) {
                Some(i) => match a[1] as i32 {
                    libc::F_GETFL => (libc::O_RDWR | if self.nb[i] { libc::O_NONBLOCK } else { 0 }) as i64,
                    libc::F_SETFL => {
                        self.nb[i] = a[2] & libc::O_NONBLOCK as u64 != 0;
                        0
                    }
                    libc::F_GETFD => self.cloexec[i] as i64,
                    libc::F_SETFD => {
                        self.cloexec[i] = a[2] & libc::FD_CLOEXEC as u64 != 0;
                        0
                    }
                    _ => neg(libc::EINVAL),
                },
                None => return self.foreign(nr),
            },
            libc::SYS_getsockname => match self.sock_idx(fd) {
                Some(_) => unsafe {
                    let sa = a[1] as *mut libc::sockaddr_in;
                    let lp = a[2] as *mut u32;
                    if !sa.is_null() && !lp.is_null() && *lp >= 16 {
                        (*sa).sin_family = libc::AF_INET as u16;
                        (*sa).sin_port = 4242u16.to_be();
                        (*sa).sin_addr.s_addr = u32::from_le_bytes([127, 0, 0, 1]);
                        *lp = 16;
                    }
                    0
                },
                None => return self.foreign(nr),
            },
            libc::SYS_close => match self.sock_idx(fd) {
                Some(i) => {
                    if let Sock::Stream(ci) | Sock::Connecting(ci) = self.socks[i] {
                        self.conns[ci].app_closed = true;
                    }
                    let r = if self.socks[i] == Sock::Closed { neg(libc::EBADF) } else { 0 };
                    self.socks[i] = Sock::Closed;
                    r
                }
                None => return self.foreign(nr),
            },
            libc::SYS_connect => match self.sock_idx(fd) {
                Some(i) => {
                    self.interleave();
                    let r = self.connect(i);
                    self.note_need(i, r, POLLOUT);
                    r
                }
                None => return self.foreign(nr),
            },
            libc::SYS_accept4 => match self.sock_idx(fd) {
                Some(i) => {
                    self.interleave();
                    let r = self.accept4(i, a);
                    self.note_need(i, r, POLLIN);
                    r
                }
                None => return self.foreign(nr),
            },
            libc::SYS_read => match self.sock_idx(fd) {
                Some(i) => {
                    self.interleave();
                    let r = self.read(i, a[1] as *mut u8, a[2] as usize);
                    self.note_need(i, r, POLLIN);
                    r
                }
                None => return self.foreign(nr),
            },
            libc::SYS_write => match self.sock_idx(fd) {
                Some(i) => {
                    self.interleave();
                    let r = self.write(i, a[1] as *const u8, a[2] as usize);
                    self.note_need(i, r, POLLOUT);
                    r
                }
                None => return self.foreign(nr),
            },
            libc::SYS_ppoll => {
                let pfd = a[0] as *mut libc::pollfd;
                if a[1] != 1 || pfd.is_null() || self.sock_idx(unsafe { (*pfd).fd }).is_none() {
                    return self.foreign(nr);
                }
                let r = self.ppoll(pfd, a[2] as *mut libc::timespec);
                self.ev.push(Ev::Call { nr, fd: unsafe { (*pfd).fd }, a: unsafe { (*pfd).revents } as i64, ret: r });
                return Decision::Force(r);
            }
            _ => return self.foreign(nr),
        };
        self.ev.push(Ev::Call { nr, fd, a: a[2] as i64, ret });
        Decision::Force(ret)
    }

    fn foreign(&mut self, nr: i64) -> Decision {
        self.unexpected.push(nr);
        self.ev.push(Ev::Note("call outside the model passed to the real kernel"));
        Decision::Pass
    }

    fn connect(&mut self, i: usize) -> i64 {
        match self.fam {
            Fam::Unix => match self.socks[i].clone() {
                Sock::Fresh { eagain_given } => {
                    if !self.peer.listening {
                        self.refused += 1;
                        return neg(libc::ECONNREFUSED);
                    }
                    // accept queue full (witnessed on the real kernel): a non-blocking connect answers EAGAIN — every time,
                    // until the peer has accepted one of the queued connections; the unconnected socket polls writable at once
                    let _ = eagain_given;
                    let mut slept = false;
                    while self.peer.backlog_full {
                        if self.nb[i] || !self.menu.unix_connect_eagain {
                            self.eagains += 1;
                            return neg(libc::EAGAIN);
                        }
                        // blocking mode: the caller sleeps until there is room in the backlog
                        if !slept {
                            slept = true;
                            self.kernel_sleeps += 1;
                        }
                        if !self.kernel_wait(libc::SYS_connect) {
                            return neg(libc::EBADF);
                        }
                    }
                    let id = self.new_conn(CState::Established);
                    self.socks[i] = Sock::Stream(id);
                    0
                }
                Sock::Stream(_) => neg(libc::EISCONN),
                _ => neg(libc::EINVAL),
            },
            Fam::Tcp => match self.socks[i].clone() {
                Sock::Fresh { .. } => {
                    let st = if self.peer.listening || self.peer.blackhole { CState::SynSent } else { CState::Refused };
                    let id = self.new_conn(st);
                    self.socks[i] = Sock::Connecting(id);
                    if self.nb[i] {
                        return neg(libc::EINPROGRESS);
                    }
                    // blocking mode: connect sleeps until the handshake is answered
                    let mut slept = false;
                    loop {
                        match self.conns[id].state {
                            CState::Established => {
                                self.socks[i] = Sock::Stream(id);
                                return 0;
                            }
                            CState::Refused => {
                                self.refused += 1;
                                self.socks[i] = Sock::Fresh { eagain_given: true };
                                return neg(libc::ECONNREFUSED);
                            }
                            CState::SynSent => {
                                if !slept {
                                    slept = true;
                                    self.kernel_sleeps += 1;
                                }
                                if !self.kernel_wait(libc::SYS_connect) {
                                    return neg(libc::EBADF);
                                }
                            }
                        }
                    }
                }
                Sock::Connecting(ci) => match self.conns[ci].state {
                    CState::SynSent => {
                        self.ealready += 1;
                        neg(libc::EALREADY)
                    }
                    CState::Established => {
                        self.socks[i] = Sock::Stream(ci);
                        0
                    }
                    CState::Refused => {
                        self.refused += 1;
                        self.socks[i] = Sock::Fresh { eagain_given: true };
                        neg(libc::ECONNREFUSED)
                    }
                },
                Sock::Stream(_) => neg(libc::EISCONN),
                _ => neg(libc::EINVAL),
            },
        }
    }

    fn accept4(&mut self, i: usize, a: &[u64; 6]) -> i64 {
        if self.phase == Phase::Measured && self.peer.thief && !self.peer.stolen && self.ready[i] && self.nb[i] {
            // a third process that shares the listener was woken too and took the connection
            if let Sock::Listener { pending } = &mut self.socks[i] {
                if pending.pop_front().is_some() {
                    self.peer.stolen = true;
                    self.ev.push(Ev::Note("a third process sharing the descriptor won the race for the connection"));
                    self.eagains += 1;
                    return neg(libc::EAGAIN);
                }
            }
        }
        let mut slept = false;
        let popped = loop {
            let popped = match &mut self.socks[i] {
                Sock::Listener { pending } => pending.pop_front(),
                _ => return neg(libc::EINVAL),
            };
            if popped.is_some() || self.nb[i] {
                break popped;
            }
            // blocking-mode listener: accept sleeps until a connection arrives
            if !slept {
                slept = true;
                self.kernel_sleeps += 1;
            }
            if !self.kernel_wait(libc::SYS_accept4) {
                return neg(libc::EBADF);
            }
        };
        match popped {
            None => {
                self.eagains += 1;
                neg(libc::EAGAIN)
            }
            Some(ci) => {
                let nonblock = a[3] & libc::SOCK_NONBLOCK as u64 != 0;
                let cloexec = a[3] & libc::SOCK_CLOEXEC as u64 != 0;
                let fd = self.new_sock(Sock::Stream(ci), nonblock, cloexec);
                self.accept_fds += 1;
                unsafe {
                    let sa = a[1] as *mut u8;
                    let lp = a[2] as *mut u32;
                    if !sa.is_null() && !lp.is_null() {
                        match self.fam {
                            Fam::Unix => {
                                if *lp >= 2 {
                                    *(sa as *mut u16) = libc::AF_UNIX as u16;
                                }
                                *lp = 2;
                            }
                            Fam::Tcp => {
                                if *lp >= 16 {
                                    let s = sa as *mut libc::sockaddr_in;
                                    (*s).sin_family = libc::AF_INET as u16;
                                    (*s).sin_port = 50000u16.to_be();
                                    (*s).sin_addr.s_addr = u32::from_le_bytes([127, 0, 0, 1]);
                                }
                                *lp = 16;
                            }
                        }
                    }
                }
                fd as i64
            }
        }
    }

    fn read(&mut self, i: usize, buf: *mut u8, len: usize) -> i64 {
        let ci = match self.socks[i] {
            Sock::Stream(ci) => ci,
            Sock::Closed => return neg(libc::EBADF),
            _ => return neg(libc::ENOTCONN),
        };
        if len == 0 {
            return 0;
        }
        if self.phase == Phase::Measured && self.peer.thief && !self.peer.stolen && self.ready[i] && self.nb[i] && !self.conns[ci].p2a.is_empty() {
            // a third process that shares the stream was woken too and read the bytes
            self.conns[ci].p2a.clear();
            self.peer.stolen = true;
            self.ev.push(Ev::Note("a third process sharing the descriptor won the race for the queued bytes"));
            self.eagains += 1;
            return neg(libc::EAGAIN);
        }
        let mut slept = false;
        let avail = loop {
            let avail = self.conns[ci].p2a.len();
            if avail > 0 {
                break avail;
            }
            if self.conns[ci].peer_closed {
                return 0;
            }
            if self.nb[i] {
                self.eagains += 1;
                return neg(libc::EAGAIN);
            }
            // blocking mode: read sleeps until data or EOF
            if !slept {
                slept = true;
                self.kernel_sleeps += 1;
            }
            if !self.kernel_wait(libc::SYS_read) {
                return neg(libc::EBADF);
            }
        };
        let max = len.min(avail);
        // default: everything that is there; alternatives: any smaller count >= 1
        let mut n = max;
        if self.menu.short_read && max > 1 {
            let c = self.choose(max, !0u64);
            if c > 0 {
                n = max - c;
                self.short_counts += 1;
            }
        }
        for k in 0..n {
            let b = self.conns[ci].p2a.pop_front().unwrap_or(0);
            unsafe { *buf.add(k) = b };
        }
        n as i64
    }

    fn write(&mut self, i: usize, buf: *const u8, len: usize) -> i64 {
        let ci = match self.socks[i] {
            Sock::Stream(ci) => ci,
            Sock::Closed => return neg(libc::EBADF),
            _ => return neg(libc::ENOTCONN),
        };
        if len == 0 {
            return 0;
        }
        if !self.nb[i] {
            // blocking mode: write sleeps until every byte is queued
            let mut done = 0usize;
            let mut slept = false;
            loop {
                let free = self.cap - self.conns[ci].a2p.len();
                let k = free.min(len - done);
                for j in 0..k {
                    let b = unsafe { *buf.add(done + j) };
                    self.conns[ci].a2p.push_back(b);
                }
                done += k;
                if done == len {
                    return len as i64;
                }
                if !slept {
                    slept = true;
                    self.kernel_sleeps += 1;
                }
                if !self.kernel_wait(libc::SYS_write) {
                    return neg(libc::EBADF);
                }
            }
        }
        let free = self.cap - self.conns[ci].a2p.len();
        if free == 0 {
            self.eagains += 1;
            return neg(libc::EAGAIN);
        }
        let max = len.min(free);
        let mut n = max;
        if self.menu.short_write && max > 1 {
            let c = self.choose(max, !0u64);
            if c > 0 {
                n = max - c;
                self.short_counts += 1;
            }
        }
        for k in 0..n {
            let b = unsafe { *buf.add(k) };
            self.conns[ci].a2p.push_back(b);
        }
        n as i64
    }

    fn ppoll(&mut self, pfd: *mut libc::pollfd, ts: *mut libc::timespec) -> i64 {
        self.ppolls += 1;
        let (fd, events) = unsafe { ((*pfd).fd, (*pfd).events) };
        let timeout: Option<u64> = if ts.is_null() {
            None
        } else {
            let (s, ns) = unsafe { ((*ts).tv_sec, (*ts).tv_nsec) };
            if s < 0 || !(0..1_000_000_000).contains(&ns) {
                return neg(libc::EINVAL);
            }
            Some((s as u64).saturating_mul(1_000_000_000).saturating_add(ns as u64))
        };
        if timeout != Some(0) {
            self.blocking_ppolls += 1;
        }
        // one wait = consecutive ppolls: the first one's time-out is the limit, every later one (EINTR retry) may
        // only ask for what is left — Linux wrote exactly that back through the pointer
        if let Some(t) = timeout {
            match self.wait_limit {
                None => {
                    self.wait_limit = Some(t);
                    self.waited = 0;
                }
                Some(l) => {
                    let left = l.saturating_sub(self.waited);
                    if t > left && self.restarted.is_none() && self.menu.eintr_writeback {
                        self.restarted = Some((self.cur_op.clone(), t, left, l));
                        self.ev.push(Ev::Note("ppoll retried with more time than was left of the limit"));
                    }
                }
            }
        }
        // the wait must be for the readiness the blocked operation needs, and for nothing in the other direction
        if let Some(i) = self.sock_idx(fd) {
            let need = self.need[i];
            let dir_in = POLLIN | libc::POLLRDNORM | libc::POLLRDBAND | libc::POLLPRI;
            let dir_out = POLLOUT | libc::POLLWRNORM | libc::POLLWRBAND;
            let (want, other) = if need == POLLIN { (dir_in, dir_out) } else { (dir_out, dir_in) };
            if need != 0 && (events & want == 0 || events & other != 0) && self.wrong_events.is_none() {
                self.wrong_events = Some((self.cur_op.clone(), events, need));
                self.ev.push(Ev::Note("ppoll waits for events the blocked operation does not need"));
            }
        }
        let start = self.clock;
        self.interleave();
        loop {
            let rev = self.revents(fd, events);
            if rev != 0 {
                if let Some(i) = self.sock_idx(fd) {
                    self.ready[i] = true;
                }
                // Linux writes the remaining time back on every return; no model time passed here
                if let (Some(t), false) = (timeout, ts.is_null()) {
                    unsafe {
                        (*ts).tv_sec = (t / 1_000_000_000) as i64;
                        (*ts).tv_nsec = (t % 1_000_000_000) as i64;
                    }
                }
                unsafe { (*pfd).revents = rev };
                // no virtual time passes while the peer acts: the remaining time stays as passed in
                return 1;
            }
            unsafe { (*pfd).revents = 0 };
            if timeout == Some(0) {
                return 0;
            }
            self.peer_actions();
            let nacts = self.scratch.len();
            let can_to = timeout.is_some() && self.menu.ppoll_timeout;
            let can_intr = self.menu.ppoll_eintr;
            if nacts == 0 {
                // nothing the peer will ever do makes this descriptor ready
                if let Some(t) = timeout {
                    // forced: the time-out expires (not a deviation in this state)
                    if can_intr {
                        let c = self.choose(2, 0b10);
                        if c == 1 {
                            return self.eintr(ts, start, timeout);
                        }
                    }
                    return self.fire_timeout(ts, start, t);
                }
                if self.phase == Phase::Measured && can_intr {
                    let c = self.choose(2, 0b10);
                    if c == 1 {
                        return self.eintr(ts, start, timeout);
                    }
                }
                self.get_stuck(false, libc::SYS_ppoll);
                return neg(libc::EBADF);
            }
            // options: every possible peer action (free), then time-out (one deviation), then EINTR (one deviation)
            let mut n = nacts;
            let mut mask = 0u64;
            let to_idx = if can_to {
                mask |= 1 << n;
                n += 1;
                Some(n - 1)
            } else {
                None
            };
            let intr_idx = if can_intr {
                mask |= 1 << n;
                n += 1;
                Some(n - 1)
            } else {
                None
            };
            let c = self.choose(n, mask);
            if Some(c) == to_idx {
                return self.fire_timeout(ts, start, timeout.unwrap_or(0));
            }
            if Some(c) == intr_idx {
                return self.eintr(ts, start, timeout);
            }
            let a = self.scratch[c];
            self.do_peer(a);
        }
    }

    fn fire_timeout(&mut self, ts: *mut libc::timespec, start: u64, t: u64) -> i64 {
        self.clock = start.saturating_add(t);
        self.waited = self.waited.saturating_add(t);
        self.timeouts_fired += 1;
        self.ev.push(Ev::Clock(self.clock));
        unsafe {
            (*ts).tv_sec = 0;
            (*ts).tv_nsec = 0;
        }
        0
    }

    /// EINTR after half of the time-out has elapsed (Linux writes the remaining time back)
    fn eintr(&mut self, ts: *mut libc::timespec, start: u64, timeout: Option<u64>) -> i64 {
        self.eintrs += 1;
        if let Some(t) = timeout {
            // how much of the time-out had elapsed when the signal came: a free choice from a small menu
            let mut menu: Vec<u64> = Vec::with_capacity(4);
            for e in [t / 2, 0, 1.min(t), t.saturating_sub(1)] {
                if !menu.contains(&e) {
                    menu.push(e);
                }
            }
            let c = self.choose(menu.len(), 0);
            let el = menu[c];
            self.waited = self.waited.saturating_add(el);
            self.clock = start.saturating_add(el);
            self.ev.push(Ev::Clock(self.clock));
            if self.menu.eintr_writeback {
                let rem = t - el;
                unsafe {
                    (*ts).tv_sec = (rem / 1_000_000_000) as i64;
                    (*ts).tv_nsec = (rem % 1_000_000_000) as i64;
                }
            }
        }
        neg(libc::EINTR)
    }
}

pub struct PlanRef(pub *mut World);
impl sysx::Plan for PlanRef {
    fn decide(&mut self, _idx: usize, nr: i64, args: &[u64; 6]) -> Decision {
        unsafe { (*self.0).sys(nr, args) }
    }
}

pub fn show_ev(e: &Ev) -> String {
    match e {
        Ev::Call { nr, fd, a, ret } => {
            let r = if *ret < 0 { format!("-{}", errno_name(-*ret as i32)) } else { format!("{ret}") };
            match *nr {
                libc::SYS_ppoll => format!("app  ppoll(fd {fd}) = {r} revents={a:#x}"),
                libc::SYS_read | libc::SYS_write => format!("app  {}(fd {fd}, len {a}) = {r}", sysx::name(*nr)),
                _ => format!("app  {}(fd {fd}) = {r}", sysx::name(*nr)),
            }
        }
        Ev::Peer(a) => format!("peer {a:?}"),
        Ev::Clock(c) => format!("     virtual clock -> {c} ns"),
        Ev::Phase(p) => format!("---- phase {p:?}"),
        Ev::Note(s) => format!("     note: {s}"),
    }
}

pub fn errno_name(e: i32) -> String {
    match e {
        libc::EAGAIN => "EAGAIN".into(),
        libc::EINTR => "EINTR".into(),
        libc::EINPROGRESS => "EINPROGRESS".into(),
        libc::EALREADY => "EALREADY".into(),
        libc::ECONNREFUSED => "ECONNREFUSED".into(),
        libc::EBADF => "EBADF".into(),
        libc::EISCONN => "EISCONN".into(),
        libc::EINVAL => "EINVAL".into(),
        libc::ENOTCONN => "ENOTCONN".into(),
        _ => format!("errno{e}"),
    }
}
