//! Model-kernel conformance: every KIND of answer the model kernel can give is first
//! witnessed on the real kernel (libc, real non-blocking socket pairs / loopback TCP).
//! A kind that is not reproduced is reported and removed from the model's menu.

use common::*;
use serde_json::json;
use std::time::Duration;

fn errno() -> i32 {
    unsafe { *libc::__errno_location() }
}

fn mono_ns() -> u64 {
    let mut ts = libc::timespec { tv_sec: 0, tv_nsec: 0 };
    unsafe { libc::clock_gettime(libc::CLOCK_MONOTONIC, &mut ts) };
    ts.tv_sec as u64 * 1_000_000_000 + ts.tv_nsec as u64
}

/// the raw system call (glibc's wrapper hides the write-back of the remaining time)
unsafe fn raw_ppoll(fds: *mut libc::pollfd, n: usize, ts: *mut libc::timespec) -> i64 {
    let r = libc::syscall(libc::SYS_ppoll, fds, n, ts, 0usize, 8usize);
    if r < 0 {
        -(errno() as i64)
    } else {
        r
    }
}

unsafe fn poll1(fd: i32, ev: i16, ms: i64) -> (i64, i16) {
    let mut p = libc::pollfd { fd, events: ev, revents: 0 };
    let mut ts = libc::timespec { tv_sec: ms / 1000, tv_nsec: (ms % 1000) * 1_000_000 };
    let r = raw_ppoll(&mut p, 1, &mut ts);
    (r, p.revents)
}

unsafe fn rd(fd: i32, n: usize) -> i64 {
    let mut b = vec![0u8; n.max(1)];
    let r = libc::read(fd, b.as_mut_ptr() as *mut _, n);
    if r < 0 {
        -(errno() as i64)
    } else {
        r as i64
    }
}
unsafe fn wr(fd: i32, n: usize) -> i64 {
    let b = vec![7u8; n.max(1)];
    let r = libc::send(fd, b.as_ptr() as *const _, n, libc::MSG_NOSIGNAL);
    if r < 0 {
        -(errno() as i64)
    } else {
        r as i64
    }
}

unsafe fn unix_pair() -> (i32, i32) {
    let mut sv = [0i32; 2];
    assert_eq!(0, libc::socketpair(libc::AF_UNIX, libc::SOCK_STREAM | libc::SOCK_NONBLOCK | libc::SOCK_CLOEXEC, 0, sv.as_mut_ptr()));
    (sv[0], sv[1])
}

unsafe fn sockaddr_un(path: &str) -> (libc::sockaddr_un, u32) {
    let mut a: libc::sockaddr_un = std::mem::zeroed();
    a.sun_family = libc::AF_UNIX as u16;
    for (i, b) in path.bytes().enumerate() {
        a.sun_path[i] = b as libc::c_char;
    }
    (a, (2 + path.len() + 1) as u32)
}

unsafe fn tcp_listener(backlog: i32) -> (i32, libc::sockaddr_in) {
    let l = libc::socket(libc::AF_INET, libc::SOCK_STREAM | libc::SOCK_NONBLOCK | libc::SOCK_CLOEXEC, 6);
    let mut a: libc::sockaddr_in = std::mem::zeroed();
    a.sin_family = libc::AF_INET as u16;
    a.sin_addr.s_addr = u32::from_le_bytes([127, 0, 0, 1]);
    assert_eq!(0, libc::bind(l, &a as *const _ as *const _, 16), "bind loopback");
    let mut len = 16u32;
    libc::getsockname(l, &mut a as *mut _ as *mut _, &mut len);
    if backlog >= 0 {
        assert_eq!(0, libc::listen(l, backlog));
    }
    (l, a)
}

unsafe fn tcp_connect_nb(a: &libc::sockaddr_in) -> (i32, i64) {
    let c = libc::socket(libc::AF_INET, libc::SOCK_STREAM | libc::SOCK_NONBLOCK | libc::SOCK_CLOEXEC, 6);
    let r = libc::connect(c, a as *const _ as *const _, 16);
    (c, if r < 0 { -(errno() as i64) } else { 0 })
}


/// Runs `call` on a helper thread and watches it from outside for 50 ms: the thread must sit in
/// system call `nr` in state S (sleeping) all the time; then `wake` makes the call completable.
/// Returns (slept all the time, what was seen, the call's result).
fn observe_sleep(call: impl FnOnce() -> i64 + Send + 'static, nr: i64, wake: impl FnOnce()) -> (bool, String, i64) {
    use std::sync::atomic::{AtomicI32, Ordering};
    use std::sync::Arc;
    let tid = Arc::new(AtomicI32::new(0));
    let t2 = tid.clone();
    let h = std::thread::spawn(move || {
        t2.store(unsafe { libc::syscall(libc::SYS_gettid) } as i32, Ordering::SeqCst);
        call()
    });
    while tid.load(Ordering::SeqCst) == 0 {
        std::thread::yield_now();
    }
    let t = tid.load(Ordering::SeqCst);
    std::thread::sleep(Duration::from_millis(15));
    let mut all = true;
    let mut seen = String::new();
    let t0 = mono_ns();
    let mut samples = 0;
    while mono_ns() - t0 < 50_000_000 {
        let sc = std::fs::read_to_string(format!("/proc/self/task/{t}/syscall")).unwrap_or_default();
        let st = std::fs::read_to_string(format!("/proc/self/task/{t}/stat")).unwrap_or_default();
        let state = st.rsplit(") ").next().and_then(|r| r.chars().next()).unwrap_or('?');
        let in_nr = sc.split_whitespace().next().and_then(|x| x.parse::<i64>().ok());
        samples += 1;
        if in_nr != Some(nr) || state != 'S' {
            all = false;
        }
        seen = format!("{samples} samples over 50 ms, last: syscall {:?} state {state}", in_nr);
        std::thread::sleep(Duration::from_millis(5));
    }
    wake();
    let r = h.join().unwrap_or(-999);
    (all && samples >= 5, seen, r)
}

extern "C" fn on_alarm(_: libc::c_int) {}

struct W<'a> {
    r: &'a mut Report,
}
impl W<'_> {
    fn witness(&mut self, kind: &str, ok: bool, detail: String) {
        self.r.eval();
        self.r.nontrivial_unique();
        self.r.bound(&format!("witnessed.{kind}"), ok);
        if ok {
            self.r.traces_validated += 1;
            self.r.outcome("witnessed");
        } else {
            self.r.outcome("not-reproduced");
            self.r.note(format!("answer kind '{kind}' NOT reproduced on the real kernel: {detail}"));
        }
        self.r.sample(json!({"kind": kind, "reproduced": ok, "observed": detail}));
    }
}

/// A listener whose accept queue is full, and one client stuck in SYN_SENT behind it.
/// Returns (listener, address, stuck client or -1, fillers).
unsafe fn tcp_full_backlog() -> (i32, libc::sockaddr_in, i32, Vec<i32>) {
    let (l, a) = tcp_listener(1);
    let mut fillers = Vec::new();
    for _ in 0..8 {
        let (c, r) = tcp_connect_nb(&a);
        if r != -(libc::EINPROGRESS as i64) && r != 0 {
            libc::close(c);
            break;
        }
        let (p, _) = poll1(c, libc::POLLOUT, 80);
        if p == 0 {
            return (l, a, c, fillers);
        }
        fillers.push(c);
    }
    (l, a, -1, fillers)
}

fn body(r: &mut Report) {
    let mut w = W { r };
    unsafe {
        // ---------------------------------------------------------------- unix stream pair: read/write/ppoll
        let (a, b) = unix_pair();
        let x = rd(a, 8);
        w.witness("read-eagain", x == -(libc::EAGAIN as i64), format!("read on an empty non-blocking stream = {x}"));
        let x1 = wr(b, 5);
        let x2 = rd(a, 8);
        w.witness("read-data", x1 == 5 && x2 == 5, format!("write(5) = {x1}, read(8) = {x2}"));
        // fewer than requested and fewer than the peer's total: the peer's bytes arrive in pieces
        let _ = wr(b, 3);
        let y1 = rd(a, 16);
        let _ = wr(b, 4);
        let y2 = rd(a, 2);
        let y3 = rd(a, 16);
        w.witness("read-short", y1 == 3 && y2 == 2 && y3 == 2, format!("peer wrote 3 then 4: read(16) = {y1}, read(2) = {y2}, read(16) = {y3}"));
        let (p1, rev1) = {
            let _ = wr(b, 1);
            poll1(a, libc::POLLIN, 0)
        };
        w.witness("ppoll-ready-in", p1 == 1 && rev1 & libc::POLLIN != 0, format!("ppoll(POLLIN) with data queued = {p1}, revents {rev1:#x}"));
        let _ = rd(a, 8);
        // fill a -> b
        let first = wr(a, 1 << 20);
        let mut total = first.max(0);
        let mut last;
        loop {
            last = wr(a, 4096);
            if last <= 0 {
                break;
            }
            total += last;
        }
        w.witness("write-short", first > 0 && first < (1 << 20), format!("write(1 MiB) into an empty non-blocking stream = {first}"));
        w.witness("write-eagain-full", last == -(libc::EAGAIN as i64), format!("write after {total} queued bytes = {last}"));
        let (p2, rev2) = poll1(a, libc::POLLOUT, 0);
        w.witness("ppoll-notready-zero-timeout", p2 == 0, format!("ppoll(POLLOUT, 0) on a full stream = {p2}, revents {rev2:#x}"));
        // the peer reads: once ppoll reports POLLOUT the next write makes progress
        let mut drained = 0i64;
        let mut ready = (0i64, 0i16);
        while drained < total {
            let g = rd(b, 65536);
            if g <= 0 {
                break;
            }
            drained += g;
            ready = poll1(a, libc::POLLOUT, 0);
            if ready.0 == 1 {
                break;
            }
        }
        let prog = wr(a, 4096);
        w.witness(
            "ppoll-ready-out-then-progress",
            ready.0 == 1 && ready.1 & libc::POLLOUT != 0 && prog > 0,
            format!("after the peer read {drained} of {total} bytes ppoll(POLLOUT) = {}, the next write(4096) = {prog}", ready.0),
        );
        // time-out: not earlier than the limit, remaining time written back as 0
        {
            let (c, d) = unix_pair();
            let mut p = libc::pollfd { fd: c, events: libc::POLLIN, revents: 0 };
            let mut ts = libc::timespec { tv_sec: 0, tv_nsec: 30_000_000 };
            let t0 = mono_ns();
            let x = raw_ppoll(&mut p, 1, &mut ts);
            let el = mono_ns() - t0;
            w.witness(
                "ppoll-timeout",
                x == 0 && el >= 30_000_000 && ts.tv_sec == 0 && ts.tv_nsec == 0,
                format!("ppoll(30 ms) on an idle stream = {x} after {el} ns, timespec left at {}.{:09}", ts.tv_sec, ts.tv_nsec),
            );
            // EINTR
            let mut sa: libc::sigaction = std::mem::zeroed();
            sa.sa_sigaction = on_alarm as usize;
            libc::sigemptyset(&mut sa.sa_mask);
            let mut old: libc::sigaction = std::mem::zeroed();
            libc::sigaction(libc::SIGALRM, &sa, &mut old);
            let it = libc::itimerval { it_interval: libc::timeval { tv_sec: 0, tv_usec: 0 }, it_value: libc::timeval { tv_sec: 0, tv_usec: 20_000 } };
            libc::syscall(libc::SYS_setitimer, libc::ITIMER_REAL, &it as *const libc::itimerval, 0usize);
            let mut ts = libc::timespec { tv_sec: 0, tv_nsec: 400_000_000 };
            let t0 = mono_ns();
            let x = raw_ppoll(&mut p, 1, &mut ts);
            let el = mono_ns() - t0;
            let zero = libc::itimerval { it_interval: libc::timeval { tv_sec: 0, tv_usec: 0 }, it_value: libc::timeval { tv_sec: 0, tv_usec: 0 } };
            libc::syscall(libc::SYS_setitimer, libc::ITIMER_REAL, &zero as *const libc::itimerval, 0usize);
            libc::sigaction(libc::SIGALRM, &old, std::ptr::null_mut());
            w.witness("ppoll-eintr", x == -(libc::EINTR as i64) && el < 400_000_000, format!("ppoll(400 ms) interrupted by a signal after 20 ms = {x} after {el} ns"));
            let rem = ts.tv_sec as u64 * 1_000_000_000 + ts.tv_nsec as u64;
            w.witness(
                "ppoll-eintr-writeback",
                x == -(libc::EINTR as i64) && rem > 0 && rem < 400_000_000,
                format!("timespec after the interrupted ppoll: {rem} ns remaining of 400000000"),
            );
            // peer closes: EOF after the queued data, POLLIN|POLLHUP
            let _ = wr(d, 2);
            libc::close(d);
            let (pp, rev) = poll1(c, libc::POLLIN, 0);
            let e1 = rd(c, 8);
            let e2 = rd(c, 8);
            w.witness("read-eof", e1 == 2 && e2 == 0, format!("peer wrote 2 and closed: read = {e1}, read = {e2}"));
            w.witness("ppoll-ready-hup", pp == 1 && rev & libc::POLLIN != 0 && rev & libc::POLLHUP != 0, format!("ppoll(POLLIN) after the peer closed = {pp}, revents {rev:#x}"));
            libc::close(c);
        }
        libc::close(a);
        libc::close(b);

        // ---------------------------------------------------------------- unix listener
        let dir = format!("/tmp/h-net-conf-{}", libc::getpid());
        let _ = std::fs::remove_dir_all(&dir);
        std::fs::create_dir_all(&dir).expect("tmp dir");
        let path = format!("{dir}/l");
        let (sa, sl) = sockaddr_un(&path);
        let l = libc::socket(libc::AF_UNIX, libc::SOCK_STREAM | libc::SOCK_NONBLOCK | libc::SOCK_CLOEXEC, 0);
        assert_eq!(0, libc::bind(l, &sa as *const _ as *const _, sl));
        // bound, not listening
        let c0 = libc::socket(libc::AF_UNIX, libc::SOCK_STREAM | libc::SOCK_NONBLOCK | libc::SOCK_CLOEXEC, 0);
        let x = if libc::connect(c0, &sa as *const _ as *const _, sl) < 0 { -(errno() as i64) } else { 0 };
        w.witness("unix-connect-refused", x == -(libc::ECONNREFUSED as i64), format!("connect to a bound, not listening unix socket = {x}"));
        libc::close(c0);
        assert_eq!(0, libc::listen(l, 0));
        let x = libc::accept4(l, std::ptr::null_mut(), std::ptr::null_mut(), libc::SOCK_NONBLOCK);
        let xe = if x < 0 { -(errno() as i64) } else { x as i64 };
        w.witness("accept-eagain", xe == -(libc::EAGAIN as i64), format!("accept4 on an idle non-blocking listener = {xe}"));
        // connect until the backlog is full
        let mut clients = Vec::new();
        let mut full_fd = -1;
        let mut first_connect = 1i64;
        for i in 0..8 {
            let c = libc::socket(libc::AF_UNIX, libc::SOCK_STREAM | libc::SOCK_NONBLOCK | libc::SOCK_CLOEXEC, 0);
            let x = if libc::connect(c, &sa as *const _ as *const _, sl) < 0 { -(errno() as i64) } else { 0 };
            if i == 0 {
                first_connect = x;
            }
            if x == 0 {
                clients.push(c);
            } else {
                if x == -(libc::EAGAIN as i64) {
                    full_fd = c;
                } else {
                    libc::close(c);
                }
                break;
            }
        }
        w.witness("unix-connect-0", first_connect == 0, format!("non-blocking connect to a listening unix socket = {first_connect}"));
        if full_fd >= 0 {
            // nobody has accepted yet: the unconnected socket polls writable at once and the retry answers EAGAIN again
            let (pp, rev) = poll1(full_fd, libc::POLLOUT, 0);
            let x = if libc::connect(full_fd, &sa as *const _ as *const _, sl) < 0 { -(errno() as i64) } else { 0 };
            w.witness(
                "unix-connect-full-backlog-pollout-at-once-then-eagain-again",
                pp == 1 && x == -(libc::EAGAIN as i64),
                format!("accept queue full, no accept yet: ppoll(POLLOUT, 0) on the unconnected socket = {pp} (revents {rev:#x}), second connect = {x}"),
            );
        }
        let (lp, lrev) = poll1(l, libc::POLLIN, 0);
        w.witness("ppoll-listener-ready", lp == 1 && lrev & libc::POLLIN != 0, format!("ppoll(POLLIN) on a listener with a queued connection = {lp}, revents {lrev:#x}"));
        let acc = libc::accept4(l, std::ptr::null_mut(), std::ptr::null_mut(), libc::SOCK_NONBLOCK | libc::SOCK_CLOEXEC);
        w.witness("accept-fd", acc >= 0, format!("accept4 with a queued connection = {acc}"));
        if full_fd >= 0 {
            // unconnected socket: writable at once; after the accept above there is room again
            let (pp, rev) = poll1(full_fd, libc::POLLOUT, 0);
            let x = if libc::connect(full_fd, &sa as *const _ as *const _, sl) < 0 { -(errno() as i64) } else { 0 };
            w.witness(
                "unix-connect-eagain-then-ok",
                pp == 1 && x == 0,
                format!("connect with {} queued connections = EAGAIN; ppoll(POLLOUT) on that socket = {pp} (revents {rev:#x}); after one accept connect = {x}", clients.len()),
            );
            libc::close(full_fd);
        } else {
            w.witness("unix-connect-eagain-then-ok", false, "no connect returned EAGAIN on a backlog-0 listener".into());
        }
        if acc >= 0 {
            libc::close(acc);
        }
        for c in clients {
            libc::close(c);
        }
        libc::close(l);
        let _ = std::fs::remove_dir_all(&dir);

        // ---------------------------------------------------------------- blocking-mode descriptors sleep in the kernel
        {
            let mut sv = [0i32; 2];
            assert_eq!(0, libc::socketpair(libc::AF_UNIX, libc::SOCK_STREAM | libc::SOCK_CLOEXEC, 0, sv.as_mut_ptr()));
            let (ra, rb) = (sv[0], sv[1]);
            let (slept, seen, ret) = observe_sleep(move || rd(ra, 8), libc::SYS_read, || {
                let _ = wr(rb, 1);
            });
            w.witness(
                "blocking-read-sleeps",
                slept && ret == 1,
                format!("read on an empty stream WITHOUT O_NONBLOCK: thread in read(), {seen}; after the peer wrote 1 byte it returned {ret}"),
            );
            libc::close(ra);
            libc::close(rb);
            // accepted with / without SOCK_NONBLOCK: the accepted descriptor's mode follows the accept4 flags, not the listener
            let (l, a) = tcp_listener(8);
            let fl = libc::fcntl(l, libc::F_GETFL);
            libc::fcntl(l, libc::F_SETFL, fl & !libc::O_NONBLOCK);
            let a2 = a;
            let (slept, seen, ret) = observe_sleep(
                move || {
                    let s = libc::accept4(l, std::ptr::null_mut(), std::ptr::null_mut(), libc::SOCK_CLOEXEC);
                    if s < 0 {
                        -(errno() as i64)
                    } else {
                        s as i64
                    }
                },
                libc::SYS_accept4,
                move || {
                    let (c, _) = tcp_connect_nb(&a2);
                    let _ = poll1(c, libc::POLLOUT, 1000);
                    // keep the client open until the end of the process
                    let _ = c;
                },
            );
            w.witness(
                "blocking-accept-sleeps",
                slept && ret >= 0,
                format!("accept4 on an idle listener WITHOUT O_NONBLOCK: thread in accept4(), {seen}; after a client connected it returned {ret}"),
            );
            if ret >= 0 {
                let s = ret as i32;
                let mode = libc::fcntl(s, libc::F_GETFL);
                let (slept, seen, r2) = observe_sleep(move || rd(s, 8), libc::SYS_read, move || {
                    libc::shutdown(s, libc::SHUT_RD);
                });
                w.witness(
                    "accept4-without-nonblock-gives-blocking-stream",
                    mode >= 0 && mode & libc::O_NONBLOCK == 0 && slept,
                    format!("stream accepted with flags SOCK_CLOEXEC only: F_GETFL = {mode:#o} (O_NONBLOCK clear); read with a silent peer: {seen}; after shutdown(SHUT_RD) it returned {r2}"),
                );
                libc::close(s);
            }
            libc::close(l);
        }

        // ---------------------------------------------------------------- loopback TCP
        let (l, a) = tcp_listener(16);
        let (c, x) = tcp_connect_nb(&a);
        let (pp, rev) = poll1(c, libc::POLLOUT, 1000);
        let mut soerr: i32 = -1;
        let mut sl = 4u32;
        libc::getsockopt(c, libc::SOL_SOCKET, libc::SO_ERROR, &mut soerr as *mut _ as *mut _, &mut sl);
        let x2 = if libc::connect(c, &a as *const _ as *const _, 16) < 0 { -(errno() as i64) } else { 0 };
        w.witness(
            "tcp-connect-einprogress-then-0",
            x == -(libc::EINPROGRESS as i64) && pp == 1 && rev & libc::POLLOUT != 0 && soerr == 0 && x2 == 0,
            format!("non-blocking connect = {x}; ppoll(POLLOUT) = {pp} revents {rev:#x}; SO_ERROR = {soerr}; second connect = {x2}"),
        );
        let (lp, _) = poll1(l, libc::POLLIN, 1000);
        let s = libc::accept4(l, std::ptr::null_mut(), std::ptr::null_mut(), libc::SOCK_NONBLOCK | libc::SOCK_CLOEXEC);
        let e0 = rd(s, 8);
        let _ = wr(c, 3);
        let (_, _) = poll1(s, libc::POLLIN, 1000);
        let e1 = rd(s, 8);
        libc::close(c);
        let (_, hrev) = poll1(s, libc::POLLIN, 1000);
        let e2 = rd(s, 8);
        w.witness(
            "tcp-read-eagain-data-eof",
            lp == 1 && s >= 0 && e0 == -(libc::EAGAIN as i64) && e1 == 3 && e2 == 0,
            format!("accepted {s}; read = {e0}; after write(3) read = {e1}; after close read = {e2} (revents {hrev:#x})"),
        );
        libc::close(s);
        libc::close(l);
        // refused
        let (l2, a2) = tcp_listener(-1); // bound, never listening
        let (c, x) = tcp_connect_nb(&a2);
        let (pp, rev) = poll1(c, libc::POLLOUT, 1000);
        let x2 = if libc::connect(c, &a2 as *const _ as *const _, 16) < 0 { -(errno() as i64) } else { 0 };
        w.witness(
            "tcp-connect-refused",
            (x == -(libc::EINPROGRESS as i64) && pp == 1 && x2 == -(libc::ECONNREFUSED as i64)) || x == -(libc::ECONNREFUSED as i64),
            format!("connect to a port nobody listens on = {x}; ppoll(POLLOUT) = {pp} revents {rev:#x}; second connect = {x2}"),
        );
        libc::close(c);
        libc::close(l2);
        // still in progress: a second connect answers EALREADY
        let (l3, _a3, stuck, fillers) = tcp_full_backlog();
        if stuck >= 0 {
            let x = if libc::connect(stuck, &_a3 as *const _ as *const _, 16) < 0 { -(errno() as i64) } else { 0 };
            w.witness(
                "tcp-connect-ealready",
                x == -(libc::EALREADY as i64),
                format!("listener with a full accept queue ({} established clients): the next client stays in SYN_SENT (ppoll(POLLOUT, 80 ms) = 0); its second connect = {x}", fillers.len()),
            );
            libc::close(stuck);
        } else {
            w.witness("tcp-connect-ealready", false, "could not get a connection to stay in SYN_SENT (accept queue never overflowed)".into());
        }
        for f in fillers {
            libc::close(f);
        }
        libc::close(l3);
    }
}

/// The EALREADY defect of `TcpStreamInProgress::connect_blocking` against the REAL kernel:
/// a connection that is still in progress (the listener's accept queue is full) is handed
/// to `connect_blocking`, which must wait — a helper drains the queue after 300 ms so a
/// waiting implementation completes (after the SYN retransmission, about 1 s).
pub fn real_connect_blocking(r: &mut Report) {
    use tiny_std::net::{Ip, SocketAddress, TcpStream, TcpTryConnect};
    unsafe {
        let (l, a, stuck, fillers) = tcp_full_backlog();
        r.eval();
        if stuck < 0 {
            r.note("real-kernel check of connect_blocking skipped: no connection stayed in SYN_SENT");
            r.outcome("real-connect-blocking:skipped");
            libc::close(l);
            return;
        }
        r.nontrivial_unique();
        let port = u16::from_be(a.sin_port);
        let addr = SocketAddress::new(Ip::V4([127, 0, 0, 1]), port);
        let res = catch(|| TcpStream::try_connect(&addr));
        match res {
            Ok(Ok(TcpTryConnect::InProgress(p))) => {
                let lfd = l;
                let helper = std::thread::spawn(move || {
                    std::thread::sleep(Duration::from_millis(300));
                    for _ in 0..8 {
                        let s = libc::accept4(lfd, std::ptr::null_mut(), std::ptr::null_mut(), libc::SOCK_NONBLOCK);
                        if s >= 0 {
                            libc::close(s);
                        }
                    }
                });
                let t0 = mono_ns();
                let res = catch(|| p.connect_blocking());
                let el = (mono_ns() - t0) / 1_000_000;
                match res {
                    Ok(Ok(s)) => {
                        r.outcome("real-connect-blocking:waited-and-connected");
                        r.sample(json!({"real": "connect_blocking", "result": "connected", "ms": el}));
                        drop(s);
                    }
                    Ok(Err(e)) => {
                        let code = match e {
                            tiny_std::Error::Os { code, .. } => code.raw(),
                            _ => 0,
                        };
                        r.outcome("real-connect-blocking:error-while-in-progress");
                        r.sample(json!({"real": "connect_blocking", "result": format!("{e}"), "ms": el}));
                        if code == libc::EALREADY || code == libc::EINPROGRESS || code == libc::EAGAIN {
                            r.violation(
                                "C16:TcpStreamInProgress::connect_blocking:returned-before-peer-acted",
                                format!(
                                    "REAL KERNEL: TcpStream::try_connect to a loopback listener whose accept queue is full returned InProgress; \
                                     connect_blocking() on it returned `{e}` after {el} ms instead of waiting for the connection to complete \
                                     (the second connect(2) on a socket in SYN_SENT answers EALREADY, not EINPROGRESS)"
                                ),
                                json!({"phase": "real-connect-blocking"}),
                            );
                        }
                    }
                    Err(p) => r.violation("C16:TcpStreamInProgress::connect_blocking:panic", format!("panicked: {p}"), json!({"phase": "real-connect-blocking"})),
                }
                let _ = helper.join();
            }
            Ok(Ok(TcpTryConnect::Connected(s))) => {
                r.outcome("real-connect-blocking:connected-at-once");
                drop(s);
            }
            Ok(Err(e)) => {
                r.outcome("real-connect-blocking:try_connect-error");
                r.note(format!("real TcpStream::try_connect failed: {e}"));
            }
            Err(p) => r.violation("C16:TcpStream::try_connect:panic", format!("panicked: {p}"), json!({"phase": "real-connect-blocking"})),
        }
        libc::close(stuck);
        for f in fillers {
            libc::close(f);
        }
        libc::close(l);
    }
}


/// Helper mode of this executable: what the fork+exec'd child of `real_exec_eof` runs.
pub fn exec_sleep_helper() -> ! {
    std::thread::sleep(Duration::from_secs(3));
    std::process::exit(0)
}

const EOF_DEADLINE_MS: i64 = 500;

/// REAL kernel, SAMPLED timing: a stream obtained through every accept / connect variant, a real
/// fork + exec of a long-lived helper (this executable in sleep mode) between obtaining and dropping
/// it, then the libc peer's read must report end-of-stream within a short deadline.
pub fn real_exec_eof(r: &mut Report) {
    use tiny_std::net::{Ip, SocketAddress, TcpListener, TcpStream, TcpTryConnect, UnixListener, UnixStream};
    let dir = format!("/tmp/h-net-exec-{}", unsafe { libc::getpid() });
    let _ = std::fs::remove_dir_all(&dir);
    std::fs::create_dir_all(&dir).expect("tmp dir");
    let kinds: [(&str, bool); 6] =
        [("accept", true), ("try_accept", true), ("accept_with_timeout", true), ("connect", false), ("try_connect", false), ("connect_with_timeout", false)];
    let mut seq = 0;
    for unix in [true, false] {
        for (kind, accept_side) in kinds {
            if unix && kind == "connect_with_timeout" {
                continue;
            }
            for child in [false, true] {
                seq += 1;
                r.eval();
                r.nontrivial_unique();
                let f = if unix { "Unix" } else { "Tcp" };
                let made_by = if accept_side { format!("{f}Listener::{kind}") } else { format!("{f}Stream::{kind}") };
                let rep = json!({"phase": "real-exec-eof"});
                // the application's stream is kept as a boxed droppable; `peer` is the libc end
                let mut keep: Vec<Box<dyn std::any::Any>> = Vec::new();
                let mut stream: Option<Box<dyn std::any::Any>> = None;
                let mut peer: i32 = -1;
                let mut aux: Vec<i32> = Vec::new();
                let res: Result<(), String> = (|| unsafe {
                    let p = format!("{dir}/s{seq}\0");
                    let path = tiny_std::UnixStr::try_from_str(&p).map_err(|e| format!("{e}"))?;
                    if accept_side {
                        if unix {
                            let mut l = UnixListener::bind(path).map_err(|e| format!("bind: {e}"))?;
                            let c = libc::socket(libc::AF_UNIX, libc::SOCK_STREAM | libc::SOCK_CLOEXEC, 0);
                            let (sa, sl) = sockaddr_un(&p[..p.len() - 1]);
                            if libc::connect(c, &sa as *const _ as *const _, sl) != 0 {
                                return Err(format!("peer connect errno {}", errno()));
                            }
                            peer = c;
                            let s = match kind {
                                "accept" => l.accept().map_err(|e| format!("{e}"))?,
                                "accept_with_timeout" => l.accept_with_timeout(Duration::from_secs(1)).map_err(|e| format!("{e}"))?,
                                _ => {
                                    let mut got = None;
                                    for _ in 0..500 {
                                        if let Some(s) = l.try_accept().map_err(|e| format!("{e}"))? {
                                            got = Some(s);
                                            break;
                                        }
                                        std::thread::sleep(Duration::from_millis(1));
                                    }
                                    got.ok_or("try_accept never delivered")?
                                }
                            };
                            stream = Some(Box::new(s));
                            keep.push(Box::new(l));
                        } else {
                            let mut l = TcpListener::bind(&SocketAddress::new(Ip::V4([127, 0, 0, 1]), 0)).map_err(|e| format!("bind: {e}"))?;
                            let addr = l.local_addr().map_err(|e| format!("{e}"))?;
                            // the port, through a second look at the same listener
                            let _ = addr;
                            let port = {
                                // local_addr gives the SocketAddress; connect the libc peer through a tiny-std-free path
                                let dbg = format!("{addr:?}");
                                dbg.split("port: ").nth(1).and_then(|x| x.trim_end_matches(|c: char| !c.is_ascii_digit()).parse::<u16>().ok()).ok_or("port")?
                            };
                            let c = libc::socket(libc::AF_INET, libc::SOCK_STREAM | libc::SOCK_CLOEXEC, 6);
                            let mut a: libc::sockaddr_in = std::mem::zeroed();
                            a.sin_family = libc::AF_INET as u16;
                            a.sin_port = port.to_be();
                            a.sin_addr.s_addr = u32::from_le_bytes([127, 0, 0, 1]);
                            if libc::connect(c, &a as *const _ as *const _, 16) != 0 {
                                return Err(format!("peer connect errno {}", errno()));
                            }
                            peer = c;
                            let s = match kind {
                                "accept" => l.accept().map_err(|e| format!("{e}"))?,
                                "accept_with_timeout" => l.accept_with_timeout(Duration::from_secs(1)).map_err(|e| format!("{e}"))?,
                                _ => {
                                    let mut got = None;
                                    for _ in 0..500 {
                                        if let Some(s) = l.try_accept().map_err(|e| format!("{e}"))? {
                                            got = Some(s);
                                            break;
                                        }
                                        std::thread::sleep(Duration::from_millis(1));
                                    }
                                    got.ok_or("try_accept never delivered")?
                                }
                            };
                            stream = Some(Box::new(s));
                            keep.push(Box::new(l));
                        }
                    } else if unix {
                        let (sa, sl) = sockaddr_un(&p[..p.len() - 1]);
                        let l = libc::socket(libc::AF_UNIX, libc::SOCK_STREAM | libc::SOCK_CLOEXEC, 0);
                        if libc::bind(l, &sa as *const _ as *const _, sl) != 0 || libc::listen(l, 8) != 0 {
                            return Err(format!("peer listen errno {}", errno()));
                        }
                        aux.push(l);
                        let s = match kind {
                            "connect" => UnixStream::connect(path).map_err(|e| format!("{e}"))?,
                            _ => UnixStream::try_connect(path).map_err(|e| format!("{e}"))?.ok_or("try_connect gave None")?,
                        };
                        stream = Some(Box::new(s));
                        let (pr, _) = poll1(l, libc::POLLIN, 1000);
                        let a = libc::accept4(l, std::ptr::null_mut(), std::ptr::null_mut(), libc::SOCK_CLOEXEC);
                        if pr != 1 || a < 0 {
                            return Err("peer accept failed".into());
                        }
                        peer = a;
                    } else {
                        let (l, a) = tcp_listener(8);
                        libc::fcntl(l, libc::F_SETFD, libc::FD_CLOEXEC);
                        aux.push(l);
                        let addr = SocketAddress::new(Ip::V4([127, 0, 0, 1]), u16::from_be(a.sin_port));
                        let s = match kind {
                            "connect" => TcpStream::connect(&addr).map_err(|e| format!("{e}"))?,
                            "connect_with_timeout" => TcpStream::connect_with_timeout(&addr, Duration::from_secs(1)).map_err(|e| format!("{e}"))?,
                            _ => match TcpStream::try_connect(&addr).map_err(|e| format!("{e}"))? {
                                TcpTryConnect::Connected(s) => s,
                                TcpTryConnect::InProgress(p) => p.connect_blocking().map_err(|e| format!("{e}"))?,
                            },
                        };
                        stream = Some(Box::new(s));
                        let (pr, _) = poll1(l, libc::POLLIN, 1000);
                        let acc = libc::accept4(l, std::ptr::null_mut(), std::ptr::null_mut(), libc::SOCK_CLOEXEC);
                        if pr != 1 || acc < 0 {
                            return Err("peer accept failed".into());
                        }
                        peer = acc;
                    }
                    Ok(())
                })();
                if let Err(e) = res {
                    r.cap(format!("real-exec-eof {made_by}: set-up failed: {e}"));
                    r.outcome("real-exec-eof:set-up-failed");
                    continue;
                }
                unsafe {
                    // ---- fork + exec of a child that outlives the stream; a CLOEXEC pipe tells when the exec happened
                    let mut pid = -1;
                    if child {
                        let mut pp = [0i32; 2];
                        libc::pipe2(pp.as_mut_ptr(), libc::O_CLOEXEC);
                        let exe = std::ffi::CString::new("/proc/self/exe").unwrap();
                        let arg = std::ffi::CString::new("--exec-sleep-helper").unwrap();
                        let argv = [exe.as_ptr(), arg.as_ptr(), std::ptr::null()];
                        pid = libc::fork();
                        if pid == 0 {
                            libc::execv(exe.as_ptr(), argv.as_ptr());
                            libc::_exit(127);
                        }
                        libc::close(pp[1]);
                        let mut b = [0u8; 1];
                        let _ = libc::read(pp[0], b.as_mut_ptr() as *mut _, 1); // 0 = the child's copy was closed by exec
                        libc::close(pp[0]);
                    }
                    // ---- the application drops its stream: the peer must see end-of-stream
                    drop(stream.take());
                    let t0 = mono_ns();
                    let (pr, rev) = poll1(peer, libc::POLLIN, EOF_DEADLINE_MS);
                    let rd_ret = if pr == 1 { rd(peer, 8) } else { -999 };
                    let ms = (mono_ns() - t0) / 1_000_000;
                    let mut alive = false;
                    if pid > 0 {
                        alive = libc::kill(pid, 0) == 0;
                        libc::kill(pid, libc::SIGKILL);
                        let mut st = 0;
                        libc::waitpid(pid, &mut st, 0);
                    }
                    if pr == 1 && rd_ret == 0 {
                        r.outcome(if child { "real-exec-eof:eof-although-child-lives" } else { "real-exec-eof:eof-no-child" });
                        if r.samples.len() < 3 {
                            r.sample(json!({"real": "exec-eof", "obtained_by": made_by, "child": child, "child_alive_at_check": alive, "eof_after_ms": ms}));
                        }
                    } else {
                        r.outcome("real-exec-eof:no-eof");
                        r.violation(
                            &format!("C16:{made_by}:peer-sees-no-eof-after-drop"),
                            format!(
                                "REAL KERNEL (sampled timing): stream from {made_by}, {} dropped; the peer's poll(POLLIN, {EOF_DEADLINE_MS} ms) = {pr} (revents {rev:#x}), read = {rd_ret} — \
                                 no end-of-stream within the deadline: the exec'd child still holds the connection (descriptor without close-on-exec)",
                                if child { "a fork+exec'd child (alive) was started in between, then the stream was" } else { "no child; the stream was" }
                            ),
                            rep,
                        );
                    }
                    libc::close(peer);
                    for a in aux {
                        libc::close(a);
                    }
                }
                drop(keep);
            }
        }
    }
    let _ = std::fs::remove_dir_all(&dir);
}


/// Finding "blocking UnixStream::connect does not wait on a full accept queue" against the REAL kernel:
/// a libc listener with backlog 0 holds one queued connection; a helper accepts both 200 ms later;
/// the real `UnixStream::connect` must complete when the peer accepts.
pub fn real_unix_connect_full_backlog(r: &mut Report) {
    use tiny_std::net::UnixStream;
    unsafe {
        r.eval();
        r.nontrivial_unique();
        let dir = format!("/tmp/h-net-ucf-{}", libc::getpid());
        let _ = std::fs::remove_dir_all(&dir);
        std::fs::create_dir_all(&dir).expect("tmp dir");
        let p = format!("{dir}/l\0");
        let (sa, sl) = sockaddr_un(&p[..p.len() - 1]);
        let l = libc::socket(libc::AF_UNIX, libc::SOCK_STREAM | libc::SOCK_CLOEXEC, 0);
        assert_eq!(0, libc::bind(l, &sa as *const _ as *const _, sl));
        assert_eq!(0, libc::listen(l, 0));
        // fill the queue
        let mut fillers = Vec::new();
        let mut full = false;
        for _ in 0..8 {
            let c = libc::socket(libc::AF_UNIX, libc::SOCK_STREAM | libc::SOCK_NONBLOCK | libc::SOCK_CLOEXEC, 0);
            if libc::connect(c, &sa as *const _ as *const _, sl) == 0 {
                fillers.push(c);
            } else {
                full = errno() == libc::EAGAIN;
                libc::close(c);
                break;
            }
        }
        if !full {
            r.note("real-kernel check of UnixStream::connect on a full accept queue skipped: the queue never filled");
            r.outcome("real-unix-connect-full-backlog:skipped");
            return;
        }
        let n_fill = fillers.len();
        let helper = std::thread::spawn(move || {
            std::thread::sleep(Duration::from_millis(200));
            let mut acc = Vec::new();
            for _ in 0..n_fill + 1 {
                let (pr, _) = poll1(l, libc::POLLIN, 1000);
                if pr != 1 {
                    break;
                }
                let a = libc::accept4(l, std::ptr::null_mut(), std::ptr::null_mut(), libc::SOCK_CLOEXEC);
                if a >= 0 {
                    acc.push(a);
                }
            }
            acc
        });
        let path = tiny_std::UnixStr::try_from_str(&p).expect("path");
        let t0 = mono_ns();
        let res = catch(|| UnixStream::connect(path));
        let us = (mono_ns() - t0) / 1000;
        let rep = json!({"phase": "real-unix-connect-full-backlog"});
        match res {
            Ok(Ok(s)) => {
                r.outcome("real-unix-connect-full-backlog:waited-and-connected");
                r.sample(json!({"real": "UnixStream::connect on a full accept queue", "result": "connected", "us": us}));
                drop(s);
            }
            Ok(Err(e)) => {
                let code = match e {
                    tiny_std::Error::Os { code, .. } => code.raw(),
                    _ => 0,
                };
                r.outcome("real-unix-connect-full-backlog:error-before-the-peer-accepted");
                r.sample(json!({"real": "UnixStream::connect on a full accept queue", "result": format!("{e}"), "us": us}));
                if code == libc::EAGAIN {
                    r.violation(
                        "C16:UnixStream::connect:fails-with-would-block-while-peer-has-not-accepted-yet",
                        format!(
                            "REAL KERNEL: listener with backlog 0 and {n_fill} queued connection(s), the peer accepts 200 ms later; the blocking UnixStream::connect returned `{e}` \
                             after {us} us instead of completing when the peer accepted (AF_UNIX connect answers EAGAIN on a full queue, the unconnected socket polls writable at once, \
                             the single retry answers EAGAIN again)"
                        ),
                        rep,
                    );
                }
            }
            Err(p) => r.violation("C16:UnixStream::connect:panic", format!("panicked: {p}"), rep),
        }
        for a in helper.join().unwrap_or_default() {
            libc::close(a);
        }
        for f in fillers {
            libc::close(f);
        }
        libc::close(l);
        let _ = std::fs::remove_dir_all(&dir);
    }
}


static TICKS: std::sync::atomic::AtomicU32 = std::sync::atomic::AtomicU32::new(0);
extern "C" fn on_tick(_: libc::c_int) {
    // after 1.5 s of ticks the timer stops itself, so that a call that restarts its time-out on every EINTR still ends
    if TICKS.fetch_add(1, std::sync::atomic::Ordering::SeqCst) >= 150 {
        let zero = libc::itimerval { it_interval: libc::timeval { tv_sec: 0, tv_usec: 0 }, it_value: libc::timeval { tv_sec: 0, tv_usec: 0 } };
        unsafe { libc::syscall(libc::SYS_setitimer, libc::ITIMER_REAL, &zero as *const libc::itimerval, 0usize) };
    }
}

/// REAL kernel, SAMPLED timing: `accept_with_timeout(100 ms)` on an idle listener while a 10 ms SIGALRM interval
/// timer interrupts every ppoll: Timeout must be reported within [100 ms, 1 s].
pub fn real_timed_accept_under_signals(r: &mut Report) {
    use tiny_std::net::UnixListener;
    unsafe {
        r.eval();
        r.nontrivial_unique();
        let dir = format!("/tmp/h-net-sig-{}", libc::getpid());
        let _ = std::fs::remove_dir_all(&dir);
        std::fs::create_dir_all(&dir).expect("tmp dir");
        let p = format!("{dir}/l\0");
        let path = tiny_std::UnixStr::try_from_str(&p).expect("path");
        let mut l = match UnixListener::bind(path) {
            Ok(l) => l,
            Err(e) => {
                r.cap(format!("real timed accept: bind failed: {e}"));
                return;
            }
        };
        let mut sa: libc::sigaction = std::mem::zeroed();
        sa.sa_sigaction = on_tick as usize; // no SA_RESTART
        libc::sigemptyset(&mut sa.sa_mask);
        let mut old: libc::sigaction = std::mem::zeroed();
        libc::sigaction(libc::SIGALRM, &sa, &mut old);
        TICKS.store(0, std::sync::atomic::Ordering::SeqCst);
        let tick = libc::timeval { tv_sec: 0, tv_usec: 10_000 };
        let it = libc::itimerval { it_interval: tick, it_value: tick };
        libc::syscall(libc::SYS_setitimer, libc::ITIMER_REAL, &it as *const libc::itimerval, 0usize);
        let t0 = mono_ns();
        let res = catch(|| l.accept_with_timeout(Duration::from_millis(100)));
        let ms = (mono_ns() - t0) / 1_000_000;
        let zero = libc::itimerval { it_interval: libc::timeval { tv_sec: 0, tv_usec: 0 }, it_value: libc::timeval { tv_sec: 0, tv_usec: 0 } };
        libc::syscall(libc::SYS_setitimer, libc::ITIMER_REAL, &zero as *const libc::itimerval, 0usize);
        libc::sigaction(libc::SIGALRM, &old, std::ptr::null_mut());
        let ticks = TICKS.load(std::sync::atomic::Ordering::SeqCst);
        let rep = json!({"phase": "real-timed-accept-under-signals"});
        let what = match &res {
            Ok(Ok(_)) => "Ok(stream)".to_string(),
            Ok(Err(e)) => format!("{e}"),
            Err(p) => format!("panic: {p}"),
        };
        r.sample(json!({"real": "accept_with_timeout(100 ms) under a 10 ms SIGALRM timer", "result": what, "ms": ms, "signals": ticks}));
        let timeout = matches!(res, Ok(Err(tiny_std::Error::Timeout)));
        // judged by the safety net, not by wall time (a stalled machine stretches wall time but cannot make 150 timer
        // expirations arrive inside a wait that keeps to its limit: pending SIGALRMs coalesce)
        let needed_safety_net = ticks >= 150;
        if timeout && ms >= 100 && !needed_safety_net {
            r.outcome(if ms <= 1000 { "real-timed-accept-under-signals:timeout-within-bounds" } else { "real-timed-accept-under-signals:timeout-late-on-a-stalled-machine(not judged)" });
        } else if timeout && ms < 100 {
            r.outcome("real-timed-accept-under-signals:timeout-early");
            r.violation("C16:UnixListener::accept_with_timeout:timeout-early", format!("REAL KERNEL (sampled timing): Timeout after {ms} ms with a limit of 100 ms ({ticks} signals)"), rep);
        } else if needed_safety_net {
            r.outcome("real-timed-accept-under-signals:limit-not-kept");
            r.violation(
                "C16:UnixListener::accept_with_timeout:timeout-restarted-after-EINTR",
                format!(
                    "REAL KERNEL (sampled timing): accept_with_timeout(100 ms) on an idle listener under a 10 ms SIGALRM interval timer returned `{what}` only after {ms} ms \
                     ({ticks} signals; the timer stops itself after 1.5 s): every EINTR restarted the full time-out instead of continuing with the time the kernel left in the timespec"
                ),
                rep,
            );
        } else {
            r.outcome("real-timed-accept-under-signals:other");
            r.note(format!("real timed accept under signals: `{what}` after {ms} ms"));
        }
        drop(l);
        let _ = std::fs::remove_dir_all(&dir);
    }
}

/// Run the witnesses in a forked child (signals, timers) and return its report.
pub fn run(out: &str) -> Report {
    let items = vec![isolated("conformance", || {
        let mut r = Report::new();
        set_case("{\"op\":\"conformance\"}");
        body(&mut r);
        clear_case();
        r
    })];
    run_isolated(items, out, "C16")
}

pub fn phase(args: &Args) -> Report {
    let mut r = run(&args.out);
    let items = vec![isolated("real-connect-blocking", || {
        let mut r = Report::new();
        real_connect_blocking(&mut r);
        r
    })];
    r.merge(run_isolated(items, &format!("{}.rcb", args.out), "C16"));
    let items = vec![isolated("real-unix-connect-full-backlog", || {
        let mut r = Report::new();
        real_unix_connect_full_backlog(&mut r);
        r
    })];
    r.merge(run_isolated(items, &format!("{}.ucf", args.out), "C16"));
    let items = vec![isolated("real-timed-accept-under-signals", || {
        let mut r = Report::new();
        real_timed_accept_under_signals(&mut r);
        r
    })];
    r.merge(run_isolated(items, &format!("{}.tas", args.out), "C16"));
    let items = vec![isolated("real-exec-eof", || {
        let mut r = Report::new();
        real_exec_eof(&mut r);
        r
    })];
    r.merge(run_isolated(items, &format!("{}.ree", args.out), "C16"));
    r.rule = "each kind of answer the model kernel can give (read: data / fewer than requested / EAGAIN / EOF; write: short count / EAGAIN when full; ppoll: ready, \
              not ready with zero time-out, 0 at/after the time-out, EINTR with the remaining time written back, readiness followed by progress; accept4: EAGAIN / descriptor; \
              unix connect: 0 / ECONNREFUSED / EAGAIN on a full backlog then 0; TCP connect: EINPROGRESS then POLLOUT then SO_ERROR 0 and second connect 0, ECONNREFUSED, \
              EALREADY while in progress; blocking-mode read / accept4 observed asleep in the kernel for 50 ms through /proc/self/task/<tid>/{syscall,stat}) is driven on the REAL kernel with non-blocking socket pairs and loopback TCP through libc; one evaluation = one kind; plus one real-kernel \
              run of TcpStreamInProgress::connect_blocking on a connection that is still in progress and one of UnixStream::connect against a full accept queue whose owner accepts 200 ms later; one (SAMPLED timing) accept_with_timeout(100 ms) under a 10 ms SIGALRM interval timer that must report Timeout no earlier than 100 ms and without needing the timer's safety net (150 expirations); plus (SAMPLED timing, 500 ms deadline) for every accept / connect variant of both families \
              x {no child, a real fork+exec of this executable in sleep mode between obtaining and dropping the stream}: the libc peer's read must report end-of-stream after the drop"
        .into();
    r.bound("kinds", r.evaluations);
    r
}
