//! C16 — stream sockets: bytes intact, waits / time-outs / try-variants as specified,
//! descriptor passing exact and inside the supplied buffer.
//!
//! phases:
//!   model        fault/answer enumeration of the real net.rs / sock.rs code against an
//!                in-process model kernel over the syscall seam (exhaustive within a
//!                deviation budget, every peer interleaving)
//!   cmsg         exhaustive small-domain enumeration of SCM_RIGHTS cases on the REAL kernel
//!   conformance  every kind of answer of the model kernel witnessed on the REAL kernel
//!   bulk         SAMPLED: one real 8 MiB transfer per stream type

#![allow(dangerous_implicit_autorefs, function_casts_as_integer, unused_assignments)]

mod bulk;
mod cmsg;
mod conform;
mod model;
mod scen;

use common::*;
use model::{Fam, Menu};
use scen::{Case, PeerMode, Scen};
use serde_json::{json, Value};
use std::collections::VecDeque;

fn main() {
    if std::env::args().any(|a| a == "--exec-sleep-helper") {
        conform::exec_sleep_helper();
    }
    let args = parse_args();
    install_panic_hook();
    if let Some(p) = &args.replay {
        let v = read_replay(p);
        let mut r = Report::new();
        replay(&v, &mut r);
        for v in r.violations.values() {
            println!("VIOLATED {}: {}", v.key, v.desc);
        }
        if r.violations.is_empty() {
            println!("no violation in this replay");
        }
        std::process::exit(if r.violations.is_empty() { 0 } else { 1 });
    }
    let phase = args.phase.clone().unwrap_or_else(|| "model".into());
    let r = match phase.as_str() {
        "model" => model_phase(&args),
        "cmsg" => cmsg::phase(&args),
        "conformance" => conform::phase(&args),
        "bulk" => bulk::phase(&args),
        _ => panic!("unknown phase {phase}"),
    };
    r.write(&args.out);
}

// ---------------------------------------------------------------------------
// model phase

struct Grid {
    max_len: usize,
    caps: Vec<usize>,
    budget: u32,
    timeouts: Vec<u64>,
}

fn grid(thorough: bool) -> Grid {
    if thorough {
        Grid { max_len: 5, caps: vec![1, 2, 3, 4, 8, 16], budget: 3, timeouts: vec![0, 1, 999_999_999, 1_000_000_000, 1_500_000_000, 86_400_000_000_000, u64::MAX] }
    } else {
        Grid { max_len: 4, caps: vec![1, 2, 3, 4, 16], budget: 2, timeouts: vec![0, 1, 1_500_000_000, u64::MAX] }
    }
}

fn cases(g: &Grid) -> Vec<Case> {
    let mut v = Vec::new();
    let fams = [Fam::Unix, Fam::Tcp];
    // simplest first: payload length is the outer loop of the data scenarios
    // --- connection set-up / tear-down orders (no payload)
    for &fam in &fams {
        for (scen, peers) in [
            (Scen::Accept, &[PeerMode::Ready][..]),
            (Scen::TryAccept, &[PeerMode::Ready, PeerMode::Absent][..]),
        ] {
            for &peer in peers {
                v.push(Case { scen, fam, len: 0, cap: 4, mode: 0, timeout: None, peer, obtain: 0, use_: 0, rx: 0, child: false });
            }
        }
        for &t in &g.timeouts {
            for peer in [PeerMode::Ready, PeerMode::Absent] {
                v.push(Case { scen: Scen::AcceptTimeout, fam, len: 0, cap: 4, mode: 0, timeout: Some(t), peer, obtain: 0, use_: 0, rx: 0, child: false });
            }
        }
        for peer in [PeerMode::Ready, PeerMode::Late, PeerMode::Absent] {
            v.push(Case { scen: Scen::Connect, fam, len: 0, cap: 4, mode: 0, timeout: None, peer, obtain: 0, use_: 0, rx: 0, child: false });
            v.push(Case { scen: Scen::TryConnect, fam, len: 0, cap: 4, mode: 0, timeout: None, peer, obtain: 0, use_: 0, rx: 0, child: false });
        }
    }
    v.push(Case { scen: Scen::TryConnect, fam: Fam::Tcp, len: 0, cap: 4, mode: 0, timeout: None, peer: PeerMode::Blackhole, obtain: 0, use_: 0, rx: 0, child: false });
    for &t in &g.timeouts {
        for peer in [PeerMode::Ready, PeerMode::Late, PeerMode::Absent, PeerMode::Blackhole] {
            v.push(Case { scen: Scen::ConnectTimeout, fam: Fam::Tcp, len: 0, cap: 4, mode: 0, timeout: Some(t), peer, obtain: 0, use_: 0, rx: 0, child: false });
        }
    }
    for peer in [PeerMode::Ready, PeerMode::Late, PeerMode::Absent, PeerMode::Blackhole] {
        v.push(Case { scen: Scen::InProgTry, fam: Fam::Tcp, len: 0, cap: 4, mode: 0, timeout: None, peer, obtain: 0, use_: 0, rx: 0, child: false });
    }
    for peer in [PeerMode::Ready, PeerMode::Late, PeerMode::Absent] {
        v.push(Case { scen: Scen::InProgBlocking, fam: Fam::Tcp, len: 0, cap: 4, mode: 0, timeout: None, peer, obtain: 0, use_: 0, rx: 0, child: false });
    }
    // --- unix connect while the listener's accept queue is full; the peer accepts at an enumerated point
    v.push(Case { scen: Scen::Connect, fam: Fam::Unix, len: 0, cap: 4, mode: 0, timeout: None, peer: PeerMode::BacklogFull, obtain: 0, use_: 0, rx: 0, child: false });
    v.push(Case { scen: Scen::TryConnect, fam: Fam::Unix, len: 0, cap: 4, mode: 0, timeout: None, peer: PeerMode::BacklogFull, obtain: 0, use_: 0, rx: 0, child: false });
    // --- a third process on the same descriptor wins the race after the wake-up (outcome class only)
    for &fam in &fams {
        v.push(Case { scen: Scen::Accept, fam, len: 0, cap: 4, mode: 0, timeout: None, peer: PeerMode::Thief, obtain: 0, use_: 0, rx: 0, child: false });
        v.push(Case { scen: Scen::AcceptTimeout, fam, len: 0, cap: 4, mode: 0, timeout: Some(1_500_000_000), peer: PeerMode::Thief, obtain: 0, use_: 0, rx: 0, child: false });
        v.push(Case { scen: Scen::Read, fam, len: 2, cap: 4, mode: 3, timeout: None, peer: PeerMode::Thief, obtain: 0, use_: 0, rx: 0, child: false });
    }
    // --- every way of obtaining a stream x every way of using it, peer connected but silent
    for &fam in &fams {
        for obtain in 0..scen::OBTAINS.len() {
            if fam == Fam::Unix && obtain >= 5 {
                continue;
            }
            for use_ in 0..scen::USES.len() {
                let cap = 2usize;
                let base = Case { scen: Scen::Chain, fam, len: 0, cap, mode: 0, timeout: None, peer: PeerMode::Ready, obtain, use_, rx: 0, child: false };
                match use_ {
                    0 => {
                        // only TcpStream has a timed read
                        if fam == Fam::Tcp {
                            for &t in &g.timeouts {
                                v.push(Case { timeout: Some(t), ..base.clone() });
                            }
                        }
                    }
                    1 => v.push(base),
                    3 => {
                        // drop => the peer reads end-of-stream, without and with a fork+exec'd child in between
                        for child in [false, true] {
                            v.push(Case { child, ..base.clone() });
                        }
                    }
                    _ => {
                        for rx in [0usize, 4] {
                            v.push(Case { len: cap + 2, rx, ..base.clone() });
                        }
                    }
                }
            }
        }
    }
    // --- data
    for len in 0..=g.max_len {
        for &fam in &fams {
            for &cap in &g.caps {
                // capacities far above the payload behave like the largest one that is not
                if cap > len.max(1) * 4 && cap != g.caps[g.caps.len() - 1] {
                    continue;
                }
                let mut wmodes = vec![0usize, 1];
                if len >= 3 {
                    wmodes.push(2);
                }
                for mode in wmodes {
                    // rx_pending: a greeting of the peer sits unread in the writing socket's receive queue
                    for rx in [0usize, 4] {
                        v.push(Case { scen: Scen::Write, fam, len, cap, mode, timeout: None, peer: PeerMode::Ready, obtain: 0, use_: 0, rx, child: false });
                    }
                }
                let mut rmodes = vec![0usize, 1, 2];
                if len >= 2 {
                    rmodes.push(3);
                }
                if len >= 1 && len + 2 > 3 {
                    rmodes.push(len + 2);
                }
                for mode in rmodes {
                    v.push(Case { scen: Scen::Read, fam, len, cap, mode, timeout: None, peer: PeerMode::Ready, obtain: 0, use_: 0, rx: 0, child: false });
                }
            }
        }
        if len <= 2 {
            for &cap in &[1usize, 4] {
                for &t in &g.timeouts {
                    for mode in [2usize, 3] {
                        v.push(Case { scen: Scen::ReadTimeout, fam: Fam::Tcp, len, cap, mode, timeout: Some(t), peer: PeerMode::Ready, obtain: 0, use_: 0, rx: 0, child: false });
                    }
                    if len == 0 && cap == 1 {
                        v.push(Case { scen: Scen::ReadTimeout, fam: Fam::Tcp, len, cap, mode: 2, timeout: Some(t), peer: PeerMode::Absent, obtain: 0, use_: 0, rx: 0, child: false });
                    }
                }
            }
        }
    }
    v
}

fn spent(trace: &[model::Pt], upto: usize) -> u32 {
    trace[..upto].iter().map(|p| ((p.mask >> p.chosen) & 1) as u32).sum()
}

fn replay_json(case: &Case, choices: &[u8]) -> Value {
    json!({"phase": "model", "op": case.op(), "case": case.to_json(), "choices": choices})
}

/// All executions of one case: run the default script, then branch on every later
/// choice point within the deviation budget (breadth-first: fewest choices first).
fn explore(case: &Case, budget: u32, menu: Menu, max_execs: u64, r: &mut Report) {
    let mut queue: VecDeque<Vec<u8>> = VecDeque::new();
    queue.push_back(Vec::new());
    let mut n = 0u64;
    let case_txt = case.to_json().to_string();
    let op = case.op();
    let mut line = String::with_capacity(256);
    while let Some(prefix) = queue.pop_front() {
        if n >= max_execs {
            r.cap(format!("case {case_txt}: more than {max_execs} executions, {} prefixes not explored", queue.len() + 1));
            break;
        }
        n += 1;
        {
            use std::fmt::Write;
            line.clear();
            let _ = write!(line, "{{\"phase\":\"model\",\"op\":\"{op}\",\"case\":{case_txt},\"choices\":{prefix:?}}}");
        }
        set_case(&line);
        let ex = scen::run_exec(case, &prefix, menu);
        clear_case();
        r.eval();
        r.nontrivial_unique();
        r.outcome(&ex.outcome);
        r.transitions += ex.ncalls as u64;
        if let Some(m) = &ex.machinery {
            if r.notes.len() < 5 {
                r.note(format!("machinery: {m} in case {case_txt} choices {prefix:?}"));
            }
            r.cap("an execution left the model (see notes)".to_string());
        }
        for (k, d) in &ex.viol {
            let choices: Vec<u8> = ex.trace.iter().map(|p| p.chosen).collect();
            let cut = choices.iter().rposition(|&c| c != 0).map(|i| i + 1).unwrap_or(0);
            r.violation(k, format!("{d} [case {case_txt}, choices {:?}]", &choices[..cut]), replay_json(case, &choices[..cut]));
        }
        if n == 1 && r.samples.len() < 3 {
            r.sample(json!({"case": case.to_json(), "choices": [], "outcome": ex.outcome,
                "events": ex.events.iter().map(model::show_ev).collect::<Vec<_>>()}));
        }
        // children
        let base = prefix.len();
        let mut sp = spent(&ex.trace, base.min(ex.trace.len()));
        for i in base..ex.trace.len() {
            let pt = ex.trace[i];
            for a in 1..pt.n {
                let cost = ((pt.mask >> a) & 1) as u32;
                if sp + cost <= budget {
                    let mut child: Vec<u8> = Vec::with_capacity(i + 1);
                    child.extend(ex.trace[..i].iter().map(|p| p.chosen));
                    child.push(a);
                    queue.push_back(child);
                }
            }
            sp += ((pt.mask >> pt.chosen) & 1) as u32;
        }
    }
}

fn menu_from(conf: &Report) -> (Menu, Vec<String>) {
    let mut m = Menu::all();
    let mut off = Vec::new();
    let mut get = |k: &str| -> bool {
        let ok = conf.bounds.get(&format!("witnessed.{k}")).and_then(|v| v.as_bool()).unwrap_or(false);
        if !ok {
            off.push(k.to_string());
        }
        ok
    };
    m.short_read = get("read-short");
    m.short_write = get("write-short");
    m.ppoll_eintr = get("ppoll-eintr");
    m.ppoll_timeout = get("ppoll-timeout");
    m.eintr_writeback = get("ppoll-eintr-writeback");
    m.unix_connect_eagain = get("unix-connect-eagain-then-ok") & get("unix-connect-full-backlog-pollout-at-once-then-eagain-again");
    m.tcp_einprogress = get("tcp-connect-einprogress-then-0");
    m.tcp_ealready = get("tcp-connect-ealready");
    m.tcp_refused = get("tcp-connect-refused");
    m.blocking_sleeps = get("blocking-read-sleeps") & get("blocking-accept-sleeps");
    (m, off)
}

fn model_phase(args: &Args) -> Report {
    let g = grid(args.thorough);
    // the model's menu is what the real kernel reproduces right now
    let conf = conform::run(&format!("{}.conf", args.out));
    let (menu, off) = menu_from(&conf);
    let all = cases(&g);
    let budget = g.budget;
    let max_execs: u64 = if args.thorough { 40_000_000 } else { 6_000_000 };
    let mut items = Vec::new();
    for (i, case) in all.iter().cloned().enumerate() {
        // scenarios whose model answers were not witnessed are left out
        if case.fam == Fam::Tcp && !menu.tcp_einprogress && !matches!(case.scen, Scen::Accept | Scen::TryAccept | Scen::AcceptTimeout) {
            continue;
        }
        if !menu.tcp_ealready && matches!(case.scen, Scen::InProgTry | Scen::InProgBlocking) {
            continue;
        }
        if !menu.tcp_refused && case.fam == Fam::Tcp && matches!(case.peer, PeerMode::Late | PeerMode::Absent) && !matches!(case.scen, Scen::Accept | Scen::TryAccept | Scen::AcceptTimeout | Scen::ReadTimeout) {
            continue;
        }
        items.push(isolated(format!("case-{i}"), move || {
            let mut r = Report::new();
            explore(&case, budget, menu, max_execs, &mut r);
            r
        }));
    }
    let n_cases = items.len();
    let mut r = run_isolated(items, &args.out, "C16");
    r.bound("answer_kinds_witnessed_on_real_kernel_before_the_run", conf.traces_validated);
    for k in off {
        r.note(format!("answer kind '{k}' was not reproduced on the real kernel in this run: removed from the model's menu"));
    }
    r.rule = format!(
        "fault/answer enumeration against an in-process model kernel (Syscall User Dispatch seam): the real tiny-std UnixStream/TcpStream/UnixListener/TcpListener/\
         TcpStreamInProgress code runs one scenario (write_all or chunked write, read_to_end/read_exact/read loop, read_with_timeout, accept/try_accept/accept_with_timeout, \
         connect/try_connect/connect_with_timeout/connect_blocking) against bounded FIFOs of capacity {:?}, payload lengths 0..={}, time-outs {:?} ns and a scripted peer. \
         One evaluation = one execution, identified by its choice list: at every intercepted call every peer action possible in that state may happen before the call \
         (free choices: every order of the peer's listen/handshake/connect/write k/read k/close relative to the application's calls is generated), and the answer is \
         either the default (most progress the state allows; EAGAIN when full/empty is forced) or a deviation (any smaller count >= 1, ppoll EINTR, ppoll time-out although \
         the peer could still act, unix connect EAGAIN once) with at most {} deviations per execution. Every choice list is generated exactly once (prefix + defaults + branch \
         on later points); an execution is non-trivial by construction (it runs the operation under test to completion). \
         The model tracks O_NONBLOCK per descriptor (socket()/accept4() flags, fcntl F_SETFL): a call on a BLOCKING-mode descriptor that cannot make progress does not answer EAGAIN but \
         sleeps in the kernel while the peer performs its remaining actions; if nothing is left that wakes it the execution ends there (violation blocks-in-kernel when the operation's oracle \
         says it must return — timed and try variants, or a peer that still acts —, class blocked-awaiting-peer(ok) for an unlimited wait on a silent peer). Chain scenarios: a stream obtained \
         through each of accept/try_accept/accept_with_timeout/connect/try_connect/connect_with_timeout/connect_blocking (unix and tcp) is used through read_with_timeout (every time-out; tcp), \
         plain read and an over-full write_all while the peer is connected but silent; after every bind/accept/connect variant the descriptor's mode is asserted (returns-blocking-descriptor; \
         for UnixStream, which has no timed or try operation, a blocking descriptor is only recorded as an outcome class). \
         ppoll is answered from the REQUESTED events and the socket state in both directions; every write scenario runs with rx_pending in {{0, 4}} unread inbound bytes on the writing \
         socket (a wait that also asks for POLLIN then returns at once while the send FIFO is still full and the retry answers EAGAIN again); after a would-block answer the events of the \
         following ppoll must be the direction the operation needs (POLLOUT for write/connect, POLLIN for read/accept) and nothing of the other direction (waits-for-wrong-events). \
         Close-on-exec is tracked per descriptor (socket()/accept4() flags, fcntl F_SETFD): for every obtaining variant x {{no child, a model fork+exec of a long-lived child between \
         obtaining and dropping the stream (exec closes exactly the child's CLOEXEC copies)}} the model peer must read end-of-stream after the drop (peer-sees-no-eof-after-drop). \
         Unix connect with a FULL accept queue (as witnessed: EAGAIN on every attempt until the peer accepts, the unconnected socket polls writable at once) with the peer's accept as an \
         enumerated action; an EINTR answer to a timed ppoll comes after an elapsed time from {{half, 0, 1 ns, limit-1 ns}} (free choice) and the remaining time is written back through the time-out pointer on every return; within one wait every later ppoll may only ask for what is left of the first one's limit (timeout-restarted-after-EINTR); time-outs include Duration::MAX (> i64::MAX s: outcome class only); a third process winning the race after a wake-up is an outcome class only.",
        g.caps, g.max_len, g.timeouts, budget
    );
    r.bound("deviation_budget", budget);
    r.bound("max_payload", g.max_len);
    r.bound("capacities", json!(g.caps));
    r.bound("timeouts_ns", json!(g.timeouts));
    r.bound("cases", n_cases);
    r.bound("rx_pending", json!([0, 4]));
    r.bound("call_horizon", model::HORIZON);
    r
}

// ---------------------------------------------------------------------------

fn replay(v: &Value, r: &mut Report) {
    match v["phase"].as_str().unwrap_or("") {
        "model" => {
            let Some(case) = Case::from_json(&v["case"]) else {
                println!("bad case in replay file");
                return;
            };
            let choices: Vec<u8> = v["choices"].as_array().map(|a| a.iter().filter_map(|x| x.as_u64()).map(|x| x as u8).collect()).unwrap_or_default();
            println!("replaying model execution: {} case {} choices {:?}", case.op(), case.to_json(), choices);
            let ex = scen::run_exec(&case, &choices, Menu::all());
            for e in &ex.events {
                println!("  {}", model::show_ev(e));
            }
            println!("choice points: {:?}", ex.trace.iter().map(|p| format!("{}/{}", p.chosen, p.n)).collect::<Vec<_>>());
            println!("outcome: {}", ex.outcome);
            if let Some(m) = ex.machinery {
                println!("machinery: {m}");
            }
            for (k, d) in ex.viol {
                r.violation(&k, d, v.clone());
            }
        }
        "cmsg" => cmsg::replay(v, r),
        "real-connect-blocking" => {
            println!("replaying on the REAL kernel: TcpStream::try_connect to a listener with a full accept queue, then connect_blocking()");
            conform::real_connect_blocking(r);
            for s in &r.samples {
                println!("  observed: {s}");
            }
        }
        "real-unix-connect-full-backlog" => {
            println!("replaying on the REAL kernel: UnixStream::connect to a listener whose accept queue is full, the peer accepts 200 ms later");
            conform::real_unix_connect_full_backlog(r);
            for s in &r.samples {
                println!("  observed: {s}");
            }
        }
        "real-timed-accept-under-signals" => {
            println!("replaying on the REAL kernel: accept_with_timeout(100 ms) under a 10 ms SIGALRM interval timer");
            conform::real_timed_accept_under_signals(r);
            for s in &r.samples {
                println!("  observed: {s}");
            }
        }
        "real-exec-eof" => {
            println!("replaying on the REAL kernel: every accept/connect variant, fork+exec of a long-lived child, drop, peer must read EOF");
            conform::real_exec_eof(r);
            for (k, c) in &r.outcomes {
                println!("  {k}: {c}");
            }
        }
        "bulk" => {
            println!("re-running the sampled bulk transfer (both stream types)");
            let rep = bulk::body();
            for s in &rep.samples {
                println!("  {s}");
            }
            r.merge(rep);
        }
        "conformance" => println!("the conformance witnesses have no per-case replay: re-run `--phase conformance`"),
        other => println!("unknown replay phase {other:?}"),
    }
}
