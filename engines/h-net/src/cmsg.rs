//! Ancillary data (SCM_RIGHTS) on the REAL kernel: exhaustive over descriptor count x
//! control-buffer size x buffer pre-fill x header placement.  The receive control buffer
//! ends at a PROT_NONE page; a read outside it faults and is attributed to the case
//! (each case runs in its own forked process).

use common::*;
use rusl::platform::{ControlMessageSend, IoSlice, IoSliceMut, MsgHdrBorrow, NonNegativeI32};
use serde_json::{json, Value};

#[derive(Clone, Debug)]
pub struct CCase {
    pub nfds: usize,
    pub buflen: usize,
    pub fill: u8,
    pub hdr_heap: bool,
    /// nfds == 0 only: send without any control message instead of an empty SCM_RIGHTS
    pub ctl_none: bool,
    /// SO_PASSCRED on the receiving socket: the kernel puts an SCM_CREDENTIALS message (cmsg_len 28,
    /// not a multiple of 8) in front of the SCM_RIGHTS message
    pub passcred: bool,
    /// where the control buffer starts: 0 = 8-aligned start, its end rounded up to 8 is the guard page;
    /// 1 = it ENDS exactly at the guard page (so the start is only as aligned as the size);
    /// 2,3,4 = start at an 8-aligned address + 1 / 2 / 4
    pub place: u8,
}

const PLACES: [&str; 5] = ["start-aligned-8", "ends-at-guard-page", "start-offset-1", "start-offset-2", "start-offset-4"];

impl CCase {
    fn to_json(&self) -> Value {
        json!({"phase": "cmsg", "op": "cmsg", "nfds": self.nfds, "buflen": self.buflen, "fill": self.fill,
               "hdr": if self.hdr_heap { "heap" } else { "stack" }, "ctl": if self.ctl_none { "none" } else { "scm_rights" },
               "rcv": if self.passcred { "so_passcred" } else { "plain" }, "place": PLACES[self.place.min(4) as usize]})
    }
    fn from_json(v: &Value) -> Option<CCase> {
        Some(CCase {
            nfds: v["nfds"].as_u64()? as usize,
            buflen: v["buflen"].as_u64()? as usize,
            fill: v["fill"].as_u64()? as u8,
            hdr_heap: v["hdr"].as_str()? == "heap",
            ctl_none: v["ctl"].as_str() == Some("none"),
            passcred: v["rcv"].as_str() == Some("so_passcred"),
            place: PLACES.iter().position(|p| Some(*p) == v["place"].as_str()).unwrap_or(0) as u8,
        })
    }
}

fn needed(nfds: usize) -> usize {
    16 + ((4 * nfds + 7) & !7)
}

static mut GUARD_LO: usize = 0;

extern "C" fn on_fault(_sig: libc::c_int, info: *mut libc::siginfo_t, _ctx: *mut libc::c_void) {
    unsafe {
        let addr = (*info).si_addr() as usize;
        let lo = GUARD_LO;
        libc::_exit(if lo != 0 && addr >= lo && addr < lo + 4096 { 78 } else { 79 });
    }
}

fn say(fd: i32, s: &str) {
    unsafe {
        libc::write(fd, s.as_ptr() as *const _, s.len());
        libc::write(fd, b"\n".as_ptr() as *const _, 1);
    }
}

fn ident(fd: i32) -> Option<(u64, u64)> {
    unsafe {
        let mut st: libc::stat = std::mem::zeroed();
        if fd < 0 || libc::fstat(fd, &mut st) != 0 {
            return None;
        }
        Some((st.st_dev as u64, st.st_ino as u64))
    }
}

/// Runs in the per-case child.  Writes stage markers and finally `result:<json>` to `out`.
unsafe fn child(case: &CCase, out: i32) {
    // faults: on an alternate stack (a runaway recursion must be reported too)
    let sz = 1 << 16;
    let stk = libc::mmap(std::ptr::null_mut(), sz, libc::PROT_READ | libc::PROT_WRITE, libc::MAP_PRIVATE | libc::MAP_ANONYMOUS, -1, 0);
    let ss = libc::stack_t { ss_sp: stk, ss_flags: 0, ss_size: sz };
    libc::sigaltstack(&ss, std::ptr::null_mut());
    let mut sa: libc::sigaction = std::mem::zeroed();
    sa.sa_sigaction = on_fault as usize;
    sa.sa_flags = libc::SA_SIGINFO | libc::SA_ONSTACK;
    libc::sigaction(libc::SIGSEGV, &sa, std::ptr::null_mut());
    libc::sigaction(libc::SIGBUS, &sa, std::ptr::null_mut());
    libc::alarm(10);

    say(out, "stage:setup");
    let mut sv = [0i32; 2];
    if libc::socketpair(libc::AF_UNIX, libc::SOCK_STREAM | libc::SOCK_CLOEXEC, 0, sv.as_mut_ptr()) != 0 {
        say(out, "result:{\"machinery\":\"socketpair failed\"}");
        return;
    }
    if case.passcred {
        let one: libc::c_int = 1;
        if libc::setsockopt(sv[1], libc::SOL_SOCKET, libc::SO_PASSCRED, &one as *const _ as *const libc::c_void, 4) != 0 {
            say(out, "result:{\"machinery\":\"setsockopt(SO_PASSCRED) failed\"}");
            return;
        }
    }
    let mut originals: Vec<i32> = Vec::new();
    for i in 0..case.nfds {
        let name = std::ffi::CString::new(format!("h-net-{i}")).unwrap();
        let fd = libc::memfd_create(name.as_ptr(), 0);
        if fd < 0 {
            say(out, "result:{\"machinery\":\"memfd_create failed\"}");
            return;
        }
        originals.push(fd);
    }
    let ids: Vec<(u64, u64)> = originals.iter().map(|&f| ident(f).unwrap_or((0, 0))).collect();

    // ---- send through the repository's wrapper + control-message construction
    say(out, "stage:send");
    let fds: Vec<NonNegativeI32> = originals.iter().map(|&f| NonNegativeI32::try_new(f).unwrap()).collect();
    let io_out = [IoSlice::new(b"x")];
    let ctl = if case.ctl_none { None } else { Some(ControlMessageSend::ScmRights(&fds)) };
    let snd = MsgHdrBorrow::create_send(None, &io_out, ctl);
    let sent = rusl::network::sendmsg(NonNegativeI32::try_new(sv[0]).unwrap(), &snd, 0);
    if !matches!(sent, Ok(1)) {
        say(out, &format!("result:{}", json!({"machinery": format!("sendmsg = {sent:?}")})));
        return;
    }

    // ---- receive into a control buffer that ends at a PROT_NONE page
    say(out, "stage:recv");
    let arena = GuardArena::new(1);
    let end = arena.end_ptr();
    GUARD_LO = end as usize;
    let span = (case.buflen + 7) & !7;
    let start = match case.place {
        0 => end.sub(span),
        1 => end.sub(case.buflen),
        p => end.sub(span + 8).add([1usize, 2, 4][(p - 2).min(2) as usize]),
    };
    std::ptr::write_bytes(start, case.fill, end as usize - start as usize);
    let ctrl: &'static mut [u8] = std::slice::from_raw_parts_mut(start, case.buflen);
    let data: &'static mut [u8] = Box::leak(vec![0u8; 8].into_boxed_slice());
    let io_in: &'static mut [IoSliceMut<'static>] = Box::leak(vec![IoSliceMut::new(data)].into_boxed_slice());
    let hdr_val = MsgHdrBorrow::create_recv(io_in, Some(ctrl));
    let hdr: &'static mut MsgHdrBorrow<'static>;
    let mut on_stack;
    if case.hdr_heap {
        hdr = Box::leak(Box::new(hdr_val));
    } else {
        on_stack = hdr_val;
        // the header lives in this frame, above the frames of the iterator
        hdr = std::mem::transmute::<&mut MsgHdrBorrow<'static>, &'static mut MsgHdrBorrow<'static>>(&mut on_stack);
    }
    let got = rusl::network::recvmsg(NonNegativeI32::try_new(sv[1]).unwrap(), hdr, 0);
    let raw: *const libc::msghdr = (hdr as *const MsgHdrBorrow).cast();
    let controllen_after = (*raw).msg_controllen as usize;
    let flags = (*raw).msg_flags;
    if !matches!(got, Ok(1)) {
        say(out, &format!("result:{}", json!({"machinery": format!("recvmsg = {got:?}")})));
        return;
    }

    // ---- reference parse, by hand over the bytes the kernel reported (glibc-style CMSG_NXTHDR would drop a
    //      last message whose aligned length exceeds msg_controllen, although the kernel delivered it)
    let mut ref_fds: Vec<i32> = Vec::new();
    let mut others: Vec<(i32, i32, usize)> = Vec::new();
    {
        let base = (*raw).msg_control as *const u8;
        let mut off = 0usize;
        let mut guard = 0;
        while !base.is_null() && off + 16 <= controllen_after && guard < 16 {
            guard += 1;
            let len = (base.add(off) as *const usize).read_unaligned();
            let level = (base.add(off + 8) as *const i32).read_unaligned();
            let ty = (base.add(off + 12) as *const i32).read_unaligned();
            if len < 16 || off + len > controllen_after {
                break;
            }
            if level == libc::SOL_SOCKET && ty == libc::SCM_RIGHTS {
                for i in 0..(len - 16) / 4 {
                    ref_fds.push((base.add(off + 16 + 4 * i) as *const i32).read_unaligned());
                }
            } else {
                others.push((level, ty, len));
            }
            off += (len + 7) & !7;
        }
    }

    // ---- the repository's iterator
    say(out, "stage:iterate");
    {
        // the runtime's own "aborting" line is noise on the harness's stderr
        let nul = libc::open(b"/dev/null\0".as_ptr() as *const libc::c_char, libc::O_WRONLY);
        if nul >= 0 {
            libc::dup2(nul, 2);
        }
        // a panic that cannot unwind (the alignment / unsafe-precondition checks of builds with debug assertions) aborts
        // the process: its message must leave through the pipe before that
        let prev = std::panic::take_hook();
        std::panic::set_hook(Box::new(move |info| {
            let msg = if let Some(s) = info.payload().downcast_ref::<&str>() {
                (*s).to_string()
            } else if let Some(s) = info.payload().downcast_ref::<String>() {
                s.clone()
            } else {
                "<non-string panic>".to_string()
            };
            let loc = info.location().map(|l| format!(" at {}:{}", l.file(), l.line())).unwrap_or_default();
            say(out, &format!("panicmsg:{}{loc}", msg.replace('\n', " ")));
            prev(info);
        }));
    }
    let hdr_ref: &'static MsgHdrBorrow<'static> = hdr;
    let it = catch(|| {
        let mut yielded: Vec<i32> = Vec::new();
        let mut msgs = 0usize;
        let mut runaway = false;
        for m in hdr_ref.control_messages() {
            msgs += 1;
            if msgs > 32 {
                runaway = true;
                break;
            }
            match m {
                ControlMessageSend::ScmRights(f) => {
                    for x in f.iter().take(64) {
                        yielded.push(x.value());
                    }
                    if f.len() > 64 {
                        yielded.push(i32::MIN);
                    }
                }
            }
        }
        (yielded, msgs, runaway)
    });
    say(out, "stage:judge");
    let mut res = json!({
        "controllen_after": controllen_after, "ctrunc": flags & libc::MSG_CTRUNC != 0,
        "kernel_delivered": ref_fds.len(),
        "other_messages": others.iter().map(|o| json!({"level": o.0, "type": o.1, "cmsg_len": o.2})).collect::<Vec<_>>(),
    });
    match it {
        Err(p) => {
            res["panic"] = json!(p);
        }
        Ok((yielded, msgs, runaway)) => {
            res["yielded"] = json!(yielded);
            res["messages"] = json!(msgs);
            res["runaway"] = json!(runaway);
            // identity of what was yielded
            let mut wrong: Vec<String> = Vec::new();
            for (i, &y) in yielded.iter().enumerate() {
                if i >= ref_fds.len() {
                    break;
                }
                if y != ref_fds[i] {
                    wrong.push(format!("entry {i} is {y}, the kernel delivered descriptor {}", ref_fds[i]));
                } else if ident(y) != Some(ids[i]) {
                    wrong.push(format!("entry {i} (fd {y}) is not the {i}-th sent file"));
                }
            }
            res["wrong"] = json!(wrong);
        }
    }
    // kernel sanity (not judged): delivered descriptors are the first k originals
    let mut ksane = true;
    for (i, &f) in ref_fds.iter().enumerate() {
        if i >= ids.len() || ident(f) != Some(ids[i]) {
            ksane = false;
        }
    }
    res["kernel_sane"] = json!(ksane);
    for f in ref_fds {
        libc::close(f);
    }
    for f in originals {
        libc::close(f);
    }
    libc::close(sv[0]);
    libc::close(sv[1]);
    say(out, &format!("result:{res}"));
}

pub struct Verdict {
    pub outcome: String,
    pub viol: Vec<(String, String)>,
    pub machinery: Option<String>,
    pub detail: Value,
}

/// Fork, run the case, classify.
pub fn run_case(case: &CCase) -> Verdict {
    use std::io::Read;
    let mut pfd = [0i32; 2];
    unsafe {
        assert_eq!(0, libc::pipe2(pfd.as_mut_ptr(), libc::O_CLOEXEC));
    }
    let pid = unsafe { libc::fork() };
    if pid == 0 {
        unsafe {
            libc::close(pfd[0]);
            child(case, pfd[1]);
            libc::_exit(0);
        }
    }
    assert!(pid > 0, "fork failed");
    unsafe { libc::close(pfd[1]) };
    let mut f = unsafe { <std::fs::File as std::os::fd::FromRawFd>::from_raw_fd(pfd[0]) };
    let mut txt = String::new();
    let _ = f.read_to_string(&mut txt);
    let mut status = 0;
    unsafe { libc::waitpid(pid, &mut status, 0) };
    let stage = txt.lines().filter_map(|l| l.strip_prefix("stage:")).last().unwrap_or("?").to_string();
    let result: Option<Value> = txt.lines().filter_map(|l| l.strip_prefix("result:")).last().and_then(|s| serde_json::from_str(s).ok());
    // room left for SCM_RIGHTS after what SO_PASSCRED's SCM_CREDENTIALS message (cmsg_len 28, space 32) consumed
    let room = if !case.passcred {
        case.buflen
    } else if case.buflen < 16 {
        0
    } else {
        case.buflen - case.buflen.min(32)
    };
    let k_expect = if case.ctl_none || room <= 16 { 0 } else { case.nfds.min((room - 16) / 4) };
    let what = format!(
        "{} descriptor(s) sent, {}control buffer of {} bytes (needed {}), pre-filled {:#04x}, msghdr on the {}",
        case.nfds,
        if case.passcred { "SO_PASSCRED on the receiver (SCM_CREDENTIALS, cmsg_len 28, precedes SCM_RIGHTS), " } else { "" },
        case.buflen,
        needed(case.nfds) + if case.passcred { 32 } else { 0 },
        case.fill,
        if case.hdr_heap { "heap" } else { "stack" }
    );
    let what = format!("{what}, buffer placement {}", PLACES[case.place.min(4) as usize]);
    let mut v = Verdict { outcome: String::new(), viol: vec![], machinery: None, detail: json!({"stage": stage}) };
    let exited = libc::WIFEXITED(status);
    let code = if exited { libc::WEXITSTATUS(status) } else { -1 };
    if exited && code == 78 {
        v.outcome = "fault-at-guard-page".into();
        v.viol.push((
            "C16:cmsg:reads-outside-buffer".into(),
            format!("{what}: the kernel delivered {k_expect} descriptor(s); stage '{stage}' read past the end of the supplied control buffer (fault inside the PROT_NONE page that follows it)"),
        ));
        return v;
    }
    let panicmsg = txt.lines().filter_map(|l| l.strip_prefix("panicmsg:")).last().unwrap_or("").to_string();
    // (inside a shard the inherited crash handler turns SIGABRT into exit status 77)
    let aborted = (!exited && libc::WTERMSIG(status) == libc::SIGABRT) || (exited && code == 77);
    if aborted && stage == "iterate" && (panicmsg.contains("misaligned") || panicmsg.contains("to be aligned")) {
        v.outcome = "abort-misaligned-reference".into();
        v.viol.push((
            "C16:cmsg:misaligned-reference".into(),
            format!(
                "{what}: control_messages() builds `&mut CmsgHdr` / `&[Fd]` straight on the caller's `&mut [u8]`, which here starts at an address that is {} \
                 — the build's alignment check aborted the process inside next(): {panicmsg} (the kernel had delivered {k_expect} descriptor(s); they are neither yielded nor closed)",
                match case.place {
                    1 => format!("only as aligned as the size {} (the buffer ends at the guard page)", case.buflen),
                    2 => "8-aligned + 1".to_string(),
                    3 => "8-aligned + 2".to_string(),
                    4 => "8-aligned + 4".to_string(),
                    _ => "8-aligned".to_string(),
                }
            ),
        ));
        return v;
    }
    if !exited || code != 0 {
        let how = if exited { format!("exit status {code}") } else { format!("signal {}", libc::WTERMSIG(status)) };
        if stage == "iterate" {
            v.outcome = format!("crash-{}", if exited { "fault-elsewhere".to_string() } else { format!("sig{}", libc::WTERMSIG(status)) });
            v.viol.push(("C16:cmsg:crash".into(), format!("{what}: iterating the received control messages died with {how} (79 = fault outside the guard page, e.g. runaway recursion)")));
        } else {
            v.machinery = Some(format!("child died in stage {stage}: {how}"));
        }
        return v;
    }
    let Some(res) = result else {
        v.machinery = Some("child produced no result".into());
        return v;
    };
    v.detail = res.clone();
    if let Some(m) = res["machinery"].as_str() {
        v.machinery = Some(m.to_string());
        return v;
    }
    let kdel = res["kernel_delivered"].as_u64().unwrap_or(0) as usize;
    let truncated = kdel < case.nfds && !case.ctl_none;
    let n_other = res["other_messages"].as_array().map(|a| a.len()).unwrap_or(0);
    let want_ctrunc = truncated || (case.passcred && case.buflen < 28);
    let want_other = (case.passcred && case.buflen >= 16) as usize;
    if kdel != k_expect || n_other != want_other || res["kernel_sane"] != json!(true) || (want_ctrunc != (res["ctrunc"] == json!(true))) {
        v.machinery = Some(format!("kernel behaved differently from the reference: delivered {kdel}, expected {k_expect}, detail {res}"));
        return v;
    }
    if let Some(p) = res["panic"].as_str() {
        v.outcome = format!("panic-{}", if truncated { "truncated" } else { "fits" });
        v.viol.push((
            "C16:cmsg:panic".into(),
            format!("{what}: the kernel delivered {kdel} descriptor(s) (msg_controllen {}); iterating control_messages() panicked: {p}", res["controllen_after"]),
        ));
        return v;
    }
    let yielded: Vec<i64> = res["yielded"].as_array().map(|a| a.iter().filter_map(|x| x.as_i64()).collect()).unwrap_or_default();
    let wrong: Vec<String> = res["wrong"].as_array().map(|a| a.iter().filter_map(|x| x.as_str().map(String::from)).collect()).unwrap_or_default();
    if res["runaway"] == json!(true) {
        v.outcome = "runaway".into();
        v.viol.push(("C16:cmsg:iterator-does-not-terminate".into(), format!("{what}: more than 32 control messages were yielded for one received SCM_RIGHTS message")));
        return v;
    }
    if yielded.len() < kdel {
        if n_other > 0 {
            v.outcome = "fd-missing-after-other-message".into();
            v.viol.push((
                "C16:cmsg:fd-missing-after-other-message".into(),
                format!(
                    "{what}: the kernel wrote {} and then an SCM_RIGHTS message with {kdel} descriptor(s) (msg_controllen {}); the iterator yielded {} ({yielded:?}) — \
                     the descriptors behind the first message are lost (and stay open in the receiver)",
                    res["other_messages"], res["controllen_after"], yielded.len()
                ),
            ));
        } else {
            v.outcome = "fd-missing".into();
            v.viol.push((
                "C16:cmsg:fd-missing".into(),
                format!("{what}: the kernel delivered {kdel} descriptor(s), the iterator yielded {} ({yielded:?})", yielded.len()),
            ));
        }
    } else if yielded.len() > kdel {
        let key = if truncated { "C16:cmsg:yields-truncated-fd" } else { "C16:cmsg:fd-wrong" };
        v.outcome = if truncated { "yields-truncated-fd".into() } else { "fd-extra".into() };
        v.viol.push((
            key.into(),
            format!("{what}: the kernel delivered {kdel} descriptor(s) (msg_controllen {}), the iterator yielded {} entries {yielded:?} — the extra ones are not descriptors the kernel wrote", res["controllen_after"], yielded.len()),
        ));
    } else if !wrong.is_empty() {
        v.outcome = "fd-wrong".into();
        v.viol.push(("C16:cmsg:fd-wrong".into(), format!("{what}: {}", wrong.join("; "))));
    } else {
        v.outcome = if case.nfds == 0 {
            "nothing-sent-nothing-yielded".into()
        } else if truncated {
            format!("truncated-by-kernel-{}", if kdel == 0 { "to-nothing" } else { "consistent" })
        } else {
            "delivered-exactly".into()
        };
    }
    if case.passcred {
        v.outcome.push_str(if n_other > 0 { "|creds-skipped" } else { "|creds-dropped-by-kernel" });
    }
    if case.place != 0 && (res["controllen_after"].as_u64().unwrap_or(0) >= 16) {
        // not trapped in this build / at this alignment: a misaligned `&mut CmsgHdr` all the same
        v.outcome.push_str("|start-not-8-aligned(not trapped)");
    }
    v
}

fn all_cases(max_fds: usize) -> Vec<CCase> {
    let mut v = Vec::new();
    // simplest first: plain receiver, then SO_PASSCRED (two control messages per recvmsg, the first of unaligned length)
    for passcred in [false, true] {
        for nfds in 0..=max_fds {
            let top = needed(nfds) + if passcred { 32 } else { 0 } + 24;
            for buflen in 0..=top {
                for fill in [0xFFu8, 0x00] {
                    for hdr_heap in [false, true] {
                        v.push(CCase { nfds, buflen, fill, hdr_heap, ctl_none: false, passcred, place: 0 });
                        if nfds == 0 {
                            v.push(CCase { nfds, buflen, fill, hdr_heap, ctl_none: true, passcred, place: 0 });
                        }
                    }
                }
            }
        }
    }
    // start alignment of the caller's `&mut [u8]`: a slice may start anywhere
    for passcred in [false, true] {
        for nfds in 0..=max_fds {
            let top = needed(nfds) + if passcred { 32 } else { 0 } + 24;
            for buflen in 0..=top {
                for place in 1..=4u8 {
                    if place == 1 && buflen % 8 == 0 {
                        continue; // identical to placement 0
                    }
                    v.push(CCase { nfds, buflen, fill: 0xFF, hdr_heap: false, ctl_none: false, passcred, place });
                }
            }
        }
    }
    v
}

pub fn phase(args: &Args) -> Report {
    let max_fds = if args.thorough { 8 } else { 5 };
    let cases = all_cases(max_fds);
    let total = cases.len();
    let nsh = 16usize;
    let per = total.div_ceil(nsh);
    let mut items = Vec::new();
    for (sh, chunk) in cases.chunks(per).enumerate() {
        let chunk = chunk.to_vec();
        items.push(isolated(format!("cmsg-{sh}"), move || {
            let mut r = Report::new();
            for c in &chunk {
                let cj = c.to_json();
                set_case(&cj.to_string());
                let v = run_case(c);
                clear_case();
                r.eval();
                r.nontrivial_unique();
                if let Some(m) = v.machinery {
                    r.outcome("machinery");
                    if r.notes.len() < 4 {
                        r.note(format!("machinery: {m} in case {cj}"));
                    }
                    r.cap("a cmsg case could not be judged (see notes)".to_string());
                    continue;
                }
                r.outcome(&v.outcome);
                for (k, d) in v.viol {
                    r.violation(&k, d, cj.clone());
                }
                if sh == 0 && r.samples.len() < 2 {
                    r.sample(json!({"case": cj, "outcome": v.outcome, "detail": v.detail}));
                }
            }
            r
        }));
    }
    let mut r = run_isolated(items, &args.out, "C16");
    r.rule = format!(
        "REAL kernel, no sampling: for every descriptor count 0..={max_fds} x every control-buffer size 0..=CMSG_SPACE(4n)+24 x pre-fill {{0xFF, 0x00}} x msghdr placement {{stack, heap}}, and (0xFF, stack) x control-buffer start {{ends exactly at the guard page, 8-aligned+1, +2, +4}} \
         (n = 0 also without any control message) x receiver option {{plain, SO_PASSCRED set on the receiving socket: the kernel then puts an SCM_CREDENTIALS message of the unaligned length 28 in front of the SCM_RIGHTS message, buffer sizes up to 32+CMSG_SPACE(4n)+24; the SCM_RIGHTS length 16+4n is itself 8-aligned for even n and not for odd n}}: n distinct memfds are sent over socketpair(AF_UNIX, SOCK_STREAM) with MsgHdrBorrow::create_send + rusl::network::sendmsg, received with \
         rusl::network::recvmsg into a control buffer whose 8-byte-aligned start lies so that it ends (rounded up to 8) at a PROT_NONE page, and walked with control_messages(); the yielded \
         descriptors must equal what the kernel delivered (independent by-hand parse of the raw control bytes bounded by the returned msg_controllen, messages of other types must be skipped; fstat (st_dev, st_ino) identity with the sent files); every case \
         runs in its own forked process, a fault inside the guard page is 'reads outside the buffer'. Each case is generated once."
    );
    r.bound("max_fds", max_fds);
    r.bound("cases", total);
    r
}

pub fn replay(v: &Value, r: &mut Report) {
    let Some(c) = CCase::from_json(v) else {
        println!("bad cmsg case");
        return;
    };
    println!("replaying cmsg case {}", c.to_json());
    let vd = run_case(&c);
    println!("outcome: {}  detail: {}", vd.outcome, vd.detail);
    if let Some(m) = vd.machinery {
        println!("machinery: {m}");
    }
    for (k, d) in vd.viol {
        r.violation(&k, d, v.clone());
    }
}
