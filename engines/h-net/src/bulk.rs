//! SAMPLED (one fixed schedule per stream type, not an enumeration): a real-socket
//! transfer of 8 MiB with adversarial chunk sizes and a slow reader, through the real
//! kernel, content compared.  Shows that the EAGAIN-then-ppoll paths run for real.

use common::*;
use serde_json::json;
use std::time::Duration;
use tiny_std::io::{Read, Write};
use tiny_std::net::{Ip, SocketAddress, TcpListener, TcpStream, UnixListener, UnixStream};

const TOTAL: usize = 8 << 20;

fn pattern(n: usize) -> Vec<u8> {
    (0..n as u64).map(|i| (i.wrapping_mul(2654435761) >> 13) as u8).collect()
}

fn wsize(i: usize) -> usize {
    const BIG: [usize; 12] = [1, 2, 3, 7, 64, 1000, 4096, 65536, 65537, 262144, 1 << 20, 5];
    if i < 1500 {
        1 + i % 17
    } else {
        BIG[i % BIG.len()]
    }
}
fn rsize(i: usize) -> usize {
    const S: [usize; 8] = [1, 5, 4096, 70000, 3, 1 << 18, 17, 65536];
    S[i % S.len()]
}

struct Counts {
    calls: usize,
    eagain: usize,
    ppoll: usize,
}
fn count(log: &[sysx::Call], nr: i64) -> Counts {
    Counts {
        calls: log.iter().filter(|c| c.nr == nr).count(),
        eagain: log.iter().filter(|c| c.nr == nr && c.ret == -(libc::EAGAIN as i64)).count(),
        ppoll: log.iter().filter(|c| c.nr == libc::SYS_ppoll).count(),
    }
}

const GREETING: &[u8; 4] = b"HELO";

/// `greeting`: the bidirectional variant — the reading end first sends 4 bytes which the writer leaves
/// unread in its receive queue during the whole transfer (it reads them only after its last write_all).
fn transfer<W: Read + Write + Send + 'static, R: Read + Write + Send + 'static>(stream: &str, greeting: bool, mut w: W, mut rd: R, r: &mut Report) {
    r.eval();
    r.nontrivial_unique();
    let label = if greeting { format!("{stream}+unread-greeting") } else { stream.to_string() };
    let name = label.as_str();
    let what = if greeting { "bulk-transfer-bidir" } else { "bulk-transfer" };
    if greeting {
        if let Err(e) = rd.write_all(GREETING) {
            r.cap(format!("{name}: sending the greeting failed: {e}"));
            return;
        }
        // let it arrive in the writer's receive queue
        std::thread::sleep(Duration::from_millis(20));
    }
    let data = pattern(TOTAL);
    let d2 = data.clone();
    let wt = std::thread::spawn(move || {
        let mut plan = sysx::PassAll;
        let (res, log) = sysx::run(&mut plan, || {
            catch(|| {
                let mut off = 0usize;
                let mut i = 0usize;
                while off < d2.len() {
                    let end = (off + wsize(i)).min(d2.len());
                    if i == 1540 || i == 1580 {
                        // the writer stalls: the reader drains the buffers and must wait in turn
                        sysx::unhooked(|| std::thread::sleep(Duration::from_millis(200)));
                    }
                    if let Err(e) = w.write_all(&d2[off..end]) {
                        return Err(format!("write_all failed at offset {off}: {e}"));
                    }
                    off = end;
                    i += 1;
                }
                if greeting {
                    // only now the writer looks at what the peer sent first
                    let mut g = [0u8; 4];
                    if let Err(e) = w.read_exact(&mut g) {
                        return Err(format!("reading the greeting after the transfer failed: {e}"));
                    }
                    if &g != GREETING {
                        return Err(format!("greeting arrived as {g:?}"));
                    }
                }
                drop(w);
                Ok(())
            })
        });
        (res, log)
    });
    let rt = std::thread::spawn(move || {
        let mut plan = sysx::PassAll;
        let (res, log) = sysx::run(&mut plan, || {
            catch(|| {
                let mut got: Vec<u8> = Vec::with_capacity(TOTAL);
                let mut buf = vec![0u8; 1 << 18];
                let mut i = 0usize;
                // slow reader: lets the socket buffers fill first
                sysx::unhooked(|| std::thread::sleep(Duration::from_millis(120)));
                loop {
                    if i < 300 && i % 8 == 0 {
                        sysx::unhooked(|| std::thread::sleep(Duration::from_millis(1)));
                    }
                    let n = rsize(i);
                    match rd.read(&mut buf[..n]) {
                        Ok(0) => break,
                        Ok(k) => got.extend_from_slice(&buf[..k]),
                        Err(e) => return Err(format!("read failed after {} bytes: {e}", got.len())),
                    }
                    i += 1;
                    if got.len() > TOTAL + 16 {
                        break;
                    }
                }
                drop(rd);
                Ok(got)
            })
        });
        (res, log)
    });
    let (wres, wlog) = wt.join().expect("writer thread");
    let (rres, rlog) = rt.join().expect("reader thread");
    let wc = count(&wlog, libc::SYS_write);
    let rc = count(&rlog, libc::SYS_read);
    r.sample(json!({"stream": name, "bytes": TOTAL,
        "writer": {"write_calls": wc.calls, "write_eagain": wc.eagain, "ppoll_calls": wc.ppoll},
        "reader": {"read_calls": rc.calls, "read_eagain": rc.eagain, "ppoll_calls": rc.ppoll}}));
    r.transitions += (wlog.len() + rlog.len()) as u64;
    if wc.eagain > 0 && wc.ppoll > 0 {
        r.outcome(&format!("{name}:writer-hit-EAGAIN-then-ppoll"));
    } else {
        r.outcome(&format!("{name}:writer-never-waited"));
        r.note(format!("{name}: the writer never saw EAGAIN in this run (send buffer never filled)"));
    }
    if rc.eagain > 0 && rc.ppoll > 0 {
        r.outcome(&format!("{name}:reader-hit-EAGAIN-then-ppoll"));
    } else {
        r.outcome(&format!("{name}:reader-never-waited"));
    }
    let rep = json!({"phase": "bulk", "stream": stream, "greeting": greeting});
    match (wres, rres) {
        (Ok(Ok(())), Ok(Ok(got))) => {
            if got == data {
                r.outcome(&format!("{name}:content-equal"));
            } else {
                let first = got.iter().zip(data.iter()).position(|(a, b)| a != b).unwrap_or(got.len().min(data.len()));
                let kind = if got.len() < data.len() {
                    "bytes-lost"
                } else if got.len() > data.len() {
                    "bytes-duplicated"
                } else {
                    "bytes-reordered"
                };
                r.violation(
                    &format!("C16:{stream}::{what}:{kind}"),
                    format!("REAL kernel, 8 MiB ({name}): sent {} bytes, received {} bytes, first difference at offset {first}", data.len(), got.len()),
                    rep,
                );
            }
        }
        (w, rd) => {
            let msg = format!("writer: {:?}; reader: {:?}", w.map(|x| x.err()), rd.map(|x| x.map(|g| g.len())));
            r.outcome(&format!("{name}:error"));
            // the statement lets no error out of a transfer whose peer keeps reading; a would-block error out of the waiting write is named separately
            let kind = if msg.contains("EAGAIN") { "would-block-surfaced" } else { "error" };
            r.violation(
                &format!("C16:{stream}::{what}:{kind}"),
                format!("REAL kernel, 8 MiB transfer ({name}) did not complete although the peer reads everything: {msg}"),
                rep,
            );
        }
    }
}

pub fn body() -> Report {
    let mut r = Report::new();
    assert!(sysx::arm(), "Syscall User Dispatch not available");
    // unix
    let dir = format!("/tmp/h-net-bulk-{}", unsafe { libc::getpid() });
    let _ = std::fs::remove_dir_all(&dir);
    std::fs::create_dir_all(&dir).expect("tmp dir");
    let p = format!("{dir}/s\0");
    let path = tiny_std::UnixStr::try_from_str(&p).expect("path");
    match UnixListener::bind(path) {
        Ok(mut l) => {
            for greeting in [false, true] {
                match (UnixStream::connect(path), l.accept()) {
                    (Ok(c), Ok(s)) => transfer("UnixStream", greeting, c, s, &mut r),
                    (a, b) => r.cap(format!("unix set-up failed: {:?} {:?}", a.err(), b.err())),
                }
            }
        }
        Err(e) => r.cap(format!("unix bind failed: {e}")),
    }
    let _ = std::fs::remove_dir_all(&dir);
    // tcp
    match TcpListener::bind(&SocketAddress::new(Ip::V4([127, 0, 0, 1]), 0)) {
        Ok(mut l) => match l.local_addr() {
            Ok(addr) => {
                for greeting in [false, true] {
                    match (TcpStream::connect(&addr), l.accept()) {
                        (Ok(c), Ok(s)) => transfer("TcpStream", greeting, c, s, &mut r),
                        (a, b) => r.cap(format!("tcp set-up failed: {:?} {:?}", a.err(), b.err())),
                    }
                }
            }
            Err(e) => r.cap(format!("local_addr failed: {e}")),
        },
        Err(e) => r.cap(format!("tcp bind failed: {e}")),
    }
    r
}

pub fn phase(args: &Args) -> Report {
    let items = vec![isolated("bulk", body)];
    let mut r = run_isolated(items, &args.out, "C16");
    r.exhaustive = false;
    r.rule = "SAMPLED, not exhaustive: one real-kernel transfer of 8 MiB per stream type (UnixStream over a bound path, TcpStream over loopback) through the real Write::write_all / Read::read \
              impls with a fixed adversarial chunk-size schedule (1..17-byte writes, then 1 B .. 1 MiB; reads of 1 B .. 256 KiB) and a reader that starts late and pauses, so that the \
              send buffer fills; both sides run under the logging syscall seam to count EAGAIN answers and ppoll calls; oracle: received bytes == sent bytes and no error. Each stream type runs twice: one-directional, and BIDIRECTIONAL — the reading end first sends a 4-byte \
              greeting that the writer leaves unread in its receive queue until its last write_all returned (then it reads and checks it), so the writer waits for room with inbound data pending"
        .into();
    r.bound("bytes_per_stream", TOTAL);
    r
}
