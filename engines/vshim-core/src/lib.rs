//! Stand-in for `core` (seam S1).  Everything is the real `core`, except
//! `sync::atomic::AtomicU32`, `sync::atomic::fence` and `hint::spin_loop`, which are
//! operations of the interleaving explorer `ilv`.
#![no_std]

pub use ::core::*;

pub mod hint {
    pub use ::core::hint::*;
    #[inline]
    pub fn spin_loop() {
        ilv::spin_hint();
    }
}

pub mod sync {
    pub use ::core::sync::*;
    pub mod atomic {
        pub use ::core::sync::atomic::*;
        use ::core::cell::UnsafeCell;

        #[inline]
        pub fn fence(order: Ordering) {
            ilv::fence(order);
        }

        #[repr(C, align(4))]
        pub struct AtomicU32 {
            v: UnsafeCell<u32>,
        }
        unsafe impl Sync for AtomicU32 {}
        unsafe impl Send for AtomicU32 {}

        impl AtomicU32 {
            #[inline]
            pub const fn new(v: u32) -> Self {
                AtomicU32 { v: UnsafeCell::new(v) }
            }
            #[inline]
            pub fn as_ptr(&self) -> *mut u32 {
                self.v.get()
            }
            #[inline]
            pub fn get_mut(&mut self) -> &mut u32 {
                self.v.get_mut()
            }
            #[inline]
            pub fn into_inner(self) -> u32 {
                self.v.into_inner()
            }
            #[inline]
            pub fn load(&self, order: Ordering) -> u32 {
                ilv::atomic_load(self.v.get(), order)
            }
            #[inline]
            pub fn store(&self, val: u32, order: Ordering) {
                ilv::atomic_store(self.v.get(), val, order)
            }
            #[inline]
            pub fn swap(&self, val: u32, order: Ordering) -> u32 {
                ilv::atomic_rmw(self.v.get(), order, "swap ", |_| val)
            }
            #[inline]
            pub fn compare_exchange(&self, current: u32, new: u32, success: Ordering, failure: Ordering) -> Result<u32, u32> {
                ilv::atomic_cas(self.v.get(), current, new, success, failure, false)
            }
            #[inline]
            pub fn compare_exchange_weak(&self, current: u32, new: u32, success: Ordering, failure: Ordering) -> Result<u32, u32> {
                ilv::atomic_cas(self.v.get(), current, new, success, failure, true)
            }
            #[inline]
            pub fn fetch_add(&self, val: u32, order: Ordering) -> u32 {
                ilv::atomic_rmw(self.v.get(), order, "add  ", |o| o.wrapping_add(val))
            }
            #[inline]
            pub fn fetch_sub(&self, val: u32, order: Ordering) -> u32 {
                ilv::atomic_rmw(self.v.get(), order, "sub  ", |o| o.wrapping_sub(val))
            }
            #[inline]
            pub fn fetch_and(&self, val: u32, order: Ordering) -> u32 {
                ilv::atomic_rmw(self.v.get(), order, "and  ", |o| o & val)
            }
            #[inline]
            pub fn fetch_nand(&self, val: u32, order: Ordering) -> u32 {
                ilv::atomic_rmw(self.v.get(), order, "nand ", |o| !(o & val))
            }
            #[inline]
            pub fn fetch_or(&self, val: u32, order: Ordering) -> u32 {
                ilv::atomic_rmw(self.v.get(), order, "or   ", |o| o | val)
            }
            #[inline]
            pub fn fetch_xor(&self, val: u32, order: Ordering) -> u32 {
                ilv::atomic_rmw(self.v.get(), order, "xor  ", |o| o ^ val)
            }
            #[inline]
            pub fn fetch_max(&self, val: u32, order: Ordering) -> u32 {
                ilv::atomic_rmw(self.v.get(), order, "max  ", |o| o.max(val))
            }
            #[inline]
            pub fn fetch_min(&self, val: u32, order: Ordering) -> u32 {
                ilv::atomic_rmw(self.v.get(), order, "min  ", |o| o.min(val))
            }
            /// Same algorithm as core's: a load followed by a weak-CAS loop.
            #[inline]
            pub fn fetch_update<F>(&self, set_order: Ordering, fetch_order: Ordering, mut f: F) -> Result<u32, u32>
            where
                F: FnMut(u32) -> Option<u32>,
            {
                let mut prev = self.load(fetch_order);
                while let Some(next) = f(prev) {
                    match self.compare_exchange_weak(prev, next, set_order, fetch_order) {
                        x @ Ok(_) => return x,
                        Err(next_prev) => prev = next_prev,
                    }
                }
                Err(prev)
            }
        }

        impl Default for AtomicU32 {
            fn default() -> Self {
                Self::new(0)
            }
        }
        impl ::core::fmt::Debug for AtomicU32 {
            fn fmt(&self, f: &mut ::core::fmt::Formatter<'_>) -> ::core::fmt::Result {
                write!(f, "AtomicU32(..)")
            }
        }
        impl From<u32> for AtomicU32 {
            fn from(v: u32) -> Self {
                Self::new(v)
            }
        }
    }
}
