//! h-misc — two phases over the syscall seam `sysx` (DESIGN.md S2):
//!
//! * `sleep` (C19, clause "sleep(d) returns no earlier than d"): `tiny_std::thread::sleep`
//!   and the `rusl::time::nanosleep*` wrappers against a model kernel with a VIRTUAL
//!   clock; every script of interruptions is enumerated, nothing really sleeps.
//! * `print` (C15, writer clause for `tiny-std/src/unix/print.rs`): the print!/println!/
//!   eprint!/eprintln!/dbg! macros and the `__UnixWriter` helpers against a model kernel
//!   that answers every `write`/`writev` on fd 1/2 from a script of short counts, EINTR
//!   and errors and records the accepted bytes instead of writing them.
//!
//! Both run in forked shards (`common::run_isolated`): the seam is per-thread.

use common::*;
use serde_json::Value;
use std::cell::{Cell, RefCell};

mod print;
mod sleep;

fn main() {
    let args = parse_args();
    install_panic_hook();
    if let Some(p) = &args.replay {
        let v = read_replay(p);
        let mut r = Report::new();
        shard_begin(&mut r, None);
        match v["phase"].as_str().unwrap_or("") {
            "sleep" => sleep::replay(&v, &mut r),
            "print" => print::replay(&v, &mut r),
            other => panic!("replay file has unknown phase {other:?}"),
        }
        shard_end();
        for v in r.violations.values() {
            println!("VIOLATED {}: {}", v.key, v.desc);
        }
        if r.violations.is_empty() {
            println!("no violation");
        }
        std::process::exit(if r.violations.is_empty() { 0 } else { 1 });
    }
    let phase = args.phase.clone().unwrap_or_else(|| "sleep".into());
    let r = match phase.as_str() {
        "sleep" => sleep::phase(&args),
        "print" => print::phase(&args),
        _ => panic!("unknown phase {phase:?} (sleep | print)"),
    };
    r.write(&args.out);
}

// ---------------------------------------------------------------------------
// Leaving a livelocked case.  A plan runs inside the SIGSYS handler of the thread
// that executes the code under test; when the code under test keeps issuing calls
// past the horizon there is no way back into the harness loop (no unwinding out of
// a signal frame).  The plan then records the violation in the shard's report,
// writes the report where `common::run_isolated` expects it and leaves the process.
// The remaining cases of that shard are not run (recorded as a cap).

thread_local! {
    static SHARD_REPORT: Cell<*mut Report> = const { Cell::new(std::ptr::null_mut()) };
    static SHARD_PATH: RefCell<Option<String>> = const { RefCell::new(None) };
}

/// `path`: where `run_isolated` reads this shard's report (`<out>.shard<i>`); None in replay mode.
pub fn shard_begin(r: &mut Report, path: Option<String>) {
    SHARD_REPORT.with(|c| c.set(r as *mut Report));
    SHARD_PATH.with(|p| *p.borrow_mut() = path);
}
pub fn shard_end() {
    SHARD_REPORT.with(|c| c.set(std::ptr::null_mut()));
}
pub fn shard_path(out: &str, item_index: usize) -> String {
    // the naming used by common::run_isolated
    format!("{out}.shard{item_index}")
}

pub fn bail(key: &str, desc: String, case: Value) -> ! {
    let rp = SHARD_REPORT.with(|c| c.get());
    if rp.is_null() {
        eprintln!("livelock outside a shard: {key}: {desc}");
        unsafe { libc::abort() }
    }
    // the harness loop that owns the report is suspended below this signal frame and is never resumed
    let r = unsafe { &mut *rp };
    r.eval();
    r.outcome("livelock");
    r.violation(key, desc.clone(), case);
    r.cap(format!("shard stopped at a livelocked case ({key}); its remaining cases were not run"));
    let path = SHARD_PATH.with(|p| p.borrow().clone());
    match path {
        Some(p) => {
            std::fs::write(&p, serde_json::to_vec(&r.to_wire()).unwrap()).unwrap();
            unsafe { libc::_exit(0) }
        }
        None => {
            println!("VIOLATED {key}: {desc}");
            unsafe { libc::_exit(1) }
        }
    }
}
