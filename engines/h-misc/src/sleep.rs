//! C19, clause "sleep(d) returns no earlier than d".
//!
//! Model kernel with a virtual clock: every `nanosleep` / `clock_nanosleep` issued by
//! the code under test is answered from a script.  A script is a sequence of
//! interruptions, each after a fraction {0, 1/2, all-but-1ns} of the outstanding
//! request (the kernel advances the clock by that much, writes the remaining time
//! through the `rem` pointer exactly as Linux does and reports EINTR), followed by a
//! terminal answer: completion (clock advances by the request, 0) or a forced error
//! (EINVAL / EFAULT).  `clock_gettime` is answered from the same virtual clock.

use crate::{bail, shard_begin, shard_end, shard_path};
use common::*;
use serde_json::{json, Value};
use std::time::Duration;
use sysx::{Decision, Plan};

const NS: i128 = 1_000_000_000;
const CLOCK_BASE_S: i128 = 1000;
const FRACTIONS: [&str; 3] = ["0", "half", "allbut1ns"];
/// calls the code under test may issue after the script ended before it is declared livelocked
const HORIZON_AFTER_SCRIPT: usize = 64;

#[derive(Clone, Copy, PartialEq, Eq, Debug)]
enum Term {
    Complete,
    Einval,
    Efault,
}
impl Term {
    fn name(self) -> &'static str {
        match self {
            Term::Complete => "complete",
            Term::Einval => "EINVAL",
            Term::Efault => "EFAULT",
        }
    }
    fn parse(s: &str) -> Term {
        match s {
            "EINVAL" => Term::Einval,
            "EFAULT" => Term::Efault,
            _ => Term::Complete,
        }
    }
}

#[derive(Clone, Debug)]
struct Req {
    sec: i64,
    nsec: i64,
    rem: &'static str,
    ret: i64,
}

struct SPlan {
    op: &'static str,
    intrs: Vec<u8>,
    term: Term,
    case: Value,
    /// virtual time that passed inside sleep calls
    elapsed: i128,
    ncalls: usize,
    consumed: usize,
    term_hit: bool,
    noncanon: bool,
    malformed: Option<(i64, i64)>,
    last_rem: Option<i128>,
    reissue_exact: u32,
    reissue_longer: u32,
    reissue_shorter: u32,
    extra_calls: u32,
    clock_reads: u32,
    other: Vec<i64>,
    reqs: Vec<Req>,
}

impl SPlan {
    fn new(op: &'static str, intrs: &[u8], term: Term, case: Value) -> Self {
        SPlan {
            op,
            intrs: intrs.to_vec(),
            term,
            case,
            elapsed: 0,
            ncalls: 0,
            consumed: 0,
            term_hit: false,
            noncanon: false,
            malformed: None,
            last_rem: None,
            reissue_exact: 0,
            reissue_longer: 0,
            reissue_shorter: 0,
            extra_calls: 0,
            clock_reads: 0,
            other: vec![],
            reqs: vec![],
        }
    }
    fn now(&self) -> i128 {
        CLOCK_BASE_S * NS + self.elapsed
    }
    fn sleep_call(&mut self, req_ptr: u64, rem_ptr: u64, abs: bool) -> Decision {
        let idx = self.ncalls;
        self.ncalls += 1;
        if idx >= self.intrs.len() + 1 + HORIZON_AFTER_SCRIPT {
            bail(
                &format!("C19:{}:livelock", self.op),
                format!(
                    "{} issued {} sleep calls although the kernel completed the request {} calls ago (script {}); last requests {:?}",
                    self.op,
                    self.ncalls,
                    HORIZON_AFTER_SCRIPT,
                    self.case["script"],
                    &self.reqs[self.reqs.len().saturating_sub(3)..]
                ),
                self.case.clone(),
            );
        }
        let rem_kind = if rem_ptr == 0 {
            "null"
        } else if rem_ptr == req_ptr {
            "same-ptr"
        } else {
            "separate"
        };
        if req_ptr == 0 {
            self.reqs.push(Req { sec: 0, nsec: 0, rem: rem_kind, ret: -(libc::EFAULT as i64) });
            self.malformed.get_or_insert((0, -1));
            return Decision::Force(-(libc::EFAULT as i64));
        }
        let (sec, nsec) = unsafe {
            let p = req_ptr as *const i64;
            (p.read_unaligned(), p.add(1).read_unaligned())
        };
        let mut rec = Req { sec, nsec, rem: rem_kind, ret: 0 };
        if sec < 0 || nsec < 0 || nsec >= NS as i64 {
            // Linux: EINVAL
            self.malformed.get_or_insert((sec, nsec));
            rec.ret = -(libc::EINVAL as i64);
            self.reqs.push(rec);
            return Decision::Force(-(libc::EINVAL as i64));
        }
        let asked = sec as i128 * NS + nsec as i128;
        let outstanding = if abs { (asked - self.now()).max(0) } else { asked };
        if let Some(rem) = self.last_rem.take() {
            match outstanding.cmp(&rem) {
                std::cmp::Ordering::Equal => self.reissue_exact += 1,
                std::cmp::Ordering::Greater => self.reissue_longer += 1,
                std::cmp::Ordering::Less => self.reissue_shorter += 1,
            }
        }
        let ret = if idx < self.intrs.len() {
            self.consumed += 1;
            if outstanding == 0 {
                // Linux never reports EINTR with nothing remaining: the call completes
                self.noncanon = true;
                0
            } else {
                let cut = |f: u8| match f {
                    0 => 0,
                    1 => outstanding / 2,
                    _ => outstanding - 1,
                };
                let f = self.intrs[idx];
                let el = cut(f);
                if (0..f).any(|g| cut(g) == el) {
                    // the same kernel answer as an earlier symbol of the alphabet for this request
                    self.noncanon = true;
                }
                self.elapsed += el;
                let rem = outstanding - el;
                if rem_ptr != 0 && !abs {
                    unsafe {
                        let p = rem_ptr as *mut i64;
                        p.write_unaligned((rem / NS) as i64);
                        p.add(1).write_unaligned((rem % NS) as i64);
                    }
                }
                self.last_rem = Some(rem);
                -(libc::EINTR as i64)
            }
        } else if idx == self.intrs.len() {
            self.term_hit = true;
            match self.term {
                Term::Complete => {
                    self.elapsed += outstanding;
                    0
                }
                Term::Einval => -(libc::EINVAL as i64),
                Term::Efault => -(libc::EFAULT as i64),
            }
        } else {
            self.extra_calls += 1;
            self.elapsed += outstanding;
            0
        };
        rec.ret = ret;
        self.reqs.push(rec);
        Decision::Force(ret)
    }
}

impl Plan for SPlan {
    fn decide(&mut self, _idx: usize, nr: i64, a: &[u64; 6]) -> Decision {
        if nr == libc::SYS_nanosleep {
            self.sleep_call(a[0], a[1], false)
        } else if nr == libc::SYS_clock_nanosleep {
            self.sleep_call(a[2], a[3], a[1] & libc::TIMER_ABSTIME as u64 != 0)
        } else if nr == libc::SYS_clock_gettime {
            self.clock_reads += 1;
            if a[1] != 0 {
                let now = self.now();
                unsafe {
                    let p = a[1] as *mut i64;
                    p.write_unaligned((now / NS) as i64);
                    p.add(1).write_unaligned((now % NS) as i64);
                }
            }
            Decision::Force(0)
        } else {
            self.other.push(nr);
            Decision::Pass
        }
    }
}

/// The documented way of using `rusl::time::nanosleep(req, Some(rem))`: restart with what the
/// kernel left in `rem`.  The loop is the harness's; the wrapper (pointer passing, result
/// decoding) is the code under test.
fn nanosleep_loop(d: Duration) -> Result<(), String> {
    use rusl::platform::TimeSpec;
    let mut req: TimeSpec = d.try_into().map_err(|e: rusl::Error| format!("{e:?}"))?;
    loop {
        let mut rem = TimeSpec::new_zeroed();
        match rusl::time::nanosleep(&req, Some(&mut rem as *mut TimeSpec)) {
            Ok(()) => return Ok(()),
            Err(e) if e.code == Some(rusl::error::Errno::EINTR) => req = rem,
            Err(e) => return Err(format!("{e:?}")),
        }
    }
}

struct Ran {
    noncanon: bool,
    sleep_calls: usize,
}

fn case_json(op: &str, secs: u64, nanos: u32, intrs: &[u8], term: Term) -> Value {
    json!({
        "phase": "sleep", "op": op, "secs": secs, "nanos": nanos,
        "script": intrs.iter().map(|&f| FRACTIONS[f as usize]).collect::<Vec<_>>(),
        "end": term.name(),
    })
}

fn run_case(op: &'static str, secs: u64, nanos: u32, intrs: &[u8], term: Term, r: &mut Report, verbose: bool) -> Ran {
    let case = case_json(op, secs, nanos, intrs, term);
    let d = Duration::new(secs, nanos);
    let d_ns = secs as i128 * NS + nanos as i128;
    let representable = secs <= i64::MAX as u64;
    let mut plan = SPlan::new(op, intrs, term, case.clone());
    set_case(&case.to_string());
    let (res, _log) = sysx::run(&mut plan, || {
        catch(|| match op {
            "sleep" => tiny_std::thread::sleep(d).map_err(|e| format!("{e:?}")),
            _ => nanosleep_loop(d),
        })
    });
    clear_case();
    r.eval();
    let p = &plan;
    let script_consumed = p.consumed == intrs.len();
    let term_relevant = term == Term::Complete || p.term_hit;
    let ran = Ran { noncanon: p.noncanon, sleep_calls: p.ncalls };
    if verbose {
        println!("case {case}");
        for q in &p.reqs {
            println!("  request {{{} s, {} ns}} rem={} -> {}", q.sec, q.nsec, q.rem, q.ret);
        }
        println!("  result {res:?}; virtual elapsed {} ns, demanded {} ns; clock reads {}, other syscalls {:?}", p.elapsed, d_ns, p.clock_reads, p.other);
    }
    if p.noncanon {
        // the script is not realisable for this request sequence (or duplicates another script): not counted
        r.outcome("script-not-realisable(skipped)");
        return ran;
    }
    if script_consumed && term_relevant {
        r.nontrivial_unique();
    }
    let key = |k: &str| format!("C19:{op}:{k}");
    let reqs_txt = || format!("{:?}", p.reqs.iter().map(|q| (q.sec, q.nsec, q.ret)).collect::<Vec<_>>());
    if let Some((s, n)) = p.malformed {
        r.outcome("malformed-timespec");
        r.violation(
            &key("malformed-timespec"),
            format!("{op}({secs} s + {nanos} ns): a request with tv_sec={s}, tv_nsec={n} reached the kernel; requests (sec,nsec,ret) {}", reqs_txt()),
            case.clone(),
        );
    }
    if let Some(q) = p.reqs.first() {
        r.outcome(&format!("rem-pointer:{}", q.rem));
    }
    match res {
        Err(msg) => {
            r.outcome("panic");
            r.violation(&key("panic"), format!("{op}({secs} s + {nanos} ns) panicked: {msg}; requests {}", reqs_txt()), case);
        }
        Ok(Ok(())) => {
            let forced_err = term != Term::Complete && p.term_hit;
            if p.elapsed < d_ns {
                if forced_err {
                    r.outcome("error-swallowed");
                    r.violation(
                        &key("error-swallowed"),
                        format!(
                            "{op}({secs} s + {nanos} ns) = Ok although the kernel answered {} and only {} ns of {} ns had passed; requests (sec,nsec,ret) {}",
                            term.name(),
                            p.elapsed,
                            d_ns,
                            reqs_txt()
                        ),
                        case,
                    );
                } else {
                    r.outcome("returned-early");
                    r.violation(
                        &key("returned-early"),
                        format!(
                            "{op}({secs} s + {nanos} ns) = Ok after {} ns of virtual time ({} ns early); requests (sec,nsec,ret) {}",
                            p.elapsed,
                            d_ns - p.elapsed,
                            reqs_txt()
                        ),
                        case,
                    );
                }
            } else if forced_err {
                r.outcome("ok-error-retried-full-duration-slept");
            } else if p.elapsed > d_ns || p.reissue_longer > 0 || p.extra_calls > 0 {
                r.outcome("slept-longer");
            } else if intrs.is_empty() {
                r.outcome(if d_ns == 0 { "ok-zero-duration" } else { "ok-uninterrupted" });
            } else if p.reissue_exact as usize == p.consumed && p.reissue_shorter == 0 {
                r.outcome("ok-after-eintr-exact-remainder-reissued");
            } else {
                r.outcome("ok-after-eintr-other");
            }
        }
        Ok(Err(e)) => {
            if term != Term::Complete && p.term_hit {
                r.outcome(&format!("err-surfaced:{}", term.name()));
            } else if p.ncalls == 0 && !representable {
                r.outcome("err-duration-exceeds-i64-seconds(documented)");
            } else if p.malformed.is_some() {
                r.outcome("err-after-malformed-request");
            } else {
                // not Ok, so the clause "returns no earlier than d" says nothing; recorded
                r.outcome("err-without-forced-error");
                r.note(format!("{op}({secs} s + {nanos} ns) returned Err({e}) although no error was forced; script {}", case["script"]));
            }
        }
    }
    ran
}

/// Breadth-first over scripts (shortest first): a script is extended only when the run
/// consumed it completely and reached the terminal position, so every counted script was
/// really played to its end.
fn enumerate(op: &'static str, secs: u64, nanos: u32, max_intr: usize, r: &mut Report) {
    let mut level: Vec<Vec<u8>> = vec![vec![]];
    for depth in 0..=max_intr {
        let mut next = Vec::new();
        for s in &level {
            let ran = run_case(op, secs, nanos, s, Term::Complete, r, false);
            if ran.noncanon || ran.sleep_calls <= s.len() {
                continue;
            }
            for t in [Term::Einval, Term::Efault] {
                run_case(op, secs, nanos, s, t, r, false);
            }
            if depth < max_intr {
                for f in 0..FRACTIONS.len() as u8 {
                    let mut c = s.clone();
                    c.push(f);
                    next.push(c);
                }
            }
        }
        level = next;
        if level.is_empty() {
            break;
        }
    }
}

fn durations() -> Vec<(u64, u32)> {
    vec![
        (0, 0),
        (0, 1),
        (0, 2),
        (0, 3),
        (0, 999_999_999),
        (1, 0),
        (1, 1),
        (2, 500_000_000),
        (1_000_000_007, 5),
        (i64::MAX as u64 - 1, 999_999_999),
        (i64::MAX as u64, 0),          // = u64::MAX / 2: the largest accepted seconds value
        (i64::MAX as u64, 999_999_999), // the largest accepted duration
        (i64::MAX as u64 + 1, 0),       // conversion must refuse (tv_sec is i64)
        (u64::MAX, 999_999_999),
    ]
}

pub fn phase(args: &Args) -> Report {
    let t0 = now();
    // DESIGN.md asks for <= 4 (thorough <= 6); the phase is cheap enough for more
    let max_intr = if args.thorough { 9 } else { 6 };
    let mut items = Vec::new();
    for op in ["sleep", "nanosleep"] {
        for (secs, nanos) in durations() {
            let path = shard_path(&args.out, items.len());
            items.push(isolated(format!("{op}-{secs}s-{nanos}ns"), move || {
                let mut r = Report::new();
                shard_begin(&mut r, Some(path));
                enumerate(op, secs, nanos, max_intr, &mut r);
                if op == "sleep" && (secs, nanos) == (2, 500_000_000) {
                    r.sample(json!({"case": case_json(op, secs, nanos, &[1, 2], Term::Complete),
                        "kernel_model": "1st call {2 s, 500000000 ns} -> EINTR after 1.25 s, rem := {1 s, 250000000 ns}; 2nd call must ask {1, 250000000} -> EINTR after all but 1 ns, rem := {0, 1}; 3rd call must ask {0, 1} -> 0",
                        "oracle": "Ok only with virtual elapsed >= 2.5 s"}));
                    r.sample(json!({"case": case_json(op, secs, nanos, &[0], Term::Einval),
                        "oracle": "EINVAL on the re-issued call must come back as Err, not as an early Ok"}));
                }
                if op == "sleep" && (secs, nanos) == (i64::MAX as u64 + 1, 0) {
                    r.sample(json!({"case": case_json(op, secs, nanos, &[], Term::Complete),
                        "oracle": "seconds do not fit tv_sec: Err without any kernel call is accepted, a wrapped/negative tv_sec reaching the kernel is malformed-timespec"}));
                }
                if op == "nanosleep" && (secs, nanos) == (1, 1) {
                    r.sample(json!({"case": case_json(op, secs, nanos, &[2, 0, 1], Term::Complete),
                        "note": "rusl::time::nanosleep(&req, Some(&mut rem)) driven by the documented restart loop (req := rem)"}));
                }
                shard_end();
                r
            }));
        }
    }
    let mut r = run_isolated(items, &args.out, "C19");
    r.rule = format!(
        "model kernel with a virtual clock over the syscall seam; for every duration of the list and both entry points (tiny_std::thread::sleep; rusl::time::nanosleep \
         with a separate rem pointer under the documented restart loop): every script of <= {max_intr} interruptions, each after a fraction {{0, 1/2, all-but-1ns}} of the \
         outstanding request (kernel advances the clock, writes the remainder through rem, returns EINTR), ended by completion, EINVAL or EFAULT. Scripts are generated \
         breadth-first and extended only when the previous run played them to the end; a case is non-trivial when every script entry (and the terminal answer) was consumed \
         and no entry duplicates another answer for the same request (fractions that coincide for 1-3 ns requests, EINTR on a zero request) - those are skipped and not counted."
    );
    r.bound("max_interruptions", max_intr);
    r.bound("fractions", json!(FRACTIONS));
    r.bound("terminal_answers", json!(["complete", "EINVAL", "EFAULT"]));
    r.bound("durations_s_ns", json!(durations()));
    r.bound("livelock_horizon_calls_after_script", HORIZON_AFTER_SCRIPT);
    r.note(format!("wall {:.2}s", t0.elapsed().as_secs_f64()));
    r.note("the model does not reproduce Linux's clamping of requests beyond KTIME_MAX (~292 years); virtual time is exact i128 nanoseconds".to_string());
    r
}

pub fn replay(v: &Value, r: &mut Report) {
    let op: &'static str = if v["op"].as_str() == Some("nanosleep") { "nanosleep" } else { "sleep" };
    let secs = v["secs"].as_u64().unwrap_or(0);
    let nanos = v["nanos"].as_u64().unwrap_or(0) as u32;
    let intrs: Vec<u8> = v["script"]
        .as_array()
        .map(|a| a.iter().map(|x| FRACTIONS.iter().position(|f| Some(*f) == x.as_str()).unwrap_or(0) as u8).collect())
        .unwrap_or_default();
    let term = Term::parse(v["end"].as_str().unwrap_or("complete"));
    run_case(op, secs, nanos, &intrs, term, r, true);
}
