//! C15, writer clause, for `tiny-std/src/unix/print.rs`: print!/println!/eprint!/eprintln!/dbg!
//! and the public `__UnixWriter` (`write_str`, `write_fmt`, `__write_newline`) over `try_print`.
//!
//! Model kernel over the syscall seam: every `write`/`writev` on fd 1/2 is answered from a
//! script over {accept all, accept 1, 2, 7 bytes, EINTR, EAGAIN, EIO, 0}; accepted bytes are
//! recorded (copied out of the caller's buffer), nothing reaches the real stdout/stderr.
//! The answer 0 to a NON-EMPTY buffer (no errno, nothing accepted - what write_all calls
//! WriteZero) must end the current write_fmt with Err: it may not be reported as Ok with the
//! rest of the piece missing, and no later piece of the same format string may follow it.
//! After the script every call accepts everything.  Reference: `std::format!` with the same
//! format string (+ exactly one '\n' for the *ln forms).

use crate::{bail, shard_begin, shard_end, shard_path};
use common::*;
use serde_json::{json, Value};
use sysx::{Decision, Plan};

const SYMS: [&str; 8] = ["all", "1", "2", "7", "EINTR", "EAGAIN", "EIO", "0"];
const ALL: u8 = 0;
const S_EINTR: u8 = 4;
const S_EAGAIN: u8 = 5;
const S_EIO: u8 = 6;
const S_ZERO: u8 = 7;
/// write calls after which a case is declared livelocked (the longest legitimate case issues ~620)
const HORIZON: usize = 4000;

#[derive(Clone, Debug)]
pub struct Combo {
    op: &'static str,
    shape: &'static str,
    len: usize,
}

fn case_json(c: &Combo, script: &[u8]) -> Value {
    json!({
        "phase": "print", "op": c.op, "shape": c.shape, "len": c.len,
        "script": script.iter().map(|&s| SYMS[s as usize]).collect::<Vec<_>>(),
    })
}

/// `len` bytes cycling through 89 distinct printable characters (no '\n'), so that a skipped,
/// repeated or displaced byte changes the text unless the displacement is a multiple of 89.
fn text(len: usize) -> String {
    let alpha: Vec<u8> = (0x21u8..=0x7e).filter(|c| *c != b'"' && *c != b'\\').take(89).collect();
    (0..len).map(|i| alpha[i % 89] as char).collect()
}

struct WPlan {
    op: &'static str,
    script: Vec<u8>,
    case: Value,
    want_fd: u64,
    ncalls: usize,
    accepted: Vec<u8>,
    answers: Vec<(usize, i64)>,
    wrong_fd: Option<u64>,
    noncanon: bool,
    eintr: u32,
    hard: u32,
    /// answers 0 given to a non-empty buffer
    zero: u32,
    /// accepted.len() when the first such answer was given
    accepted_at_zero: usize,
    /// write calls issued after the first such answer
    calls_after_zero: u32,
    via_writev: u32,
    other: Vec<i64>,
}

impl WPlan {
    fn new(c: &Combo, script: &[u8]) -> Self {
        WPlan {
            op: c.op,
            script: script.to_vec(),
            case: case_json(c, script),
            want_fd: match c.op {
                "print" | "println" | "write_str" | "write_newline" | "write_fmt_out" => 1,
                _ => 2,
            },
            ncalls: 0,
            accepted: Vec::new(),
            answers: Vec::new(),
            wrong_fd: None,
            noncanon: false,
            eintr: 0,
            hard: 0,
            zero: 0,
            accepted_at_zero: 0,
            calls_after_zero: 0,
            via_writev: 0,
            other: Vec::new(),
        }
    }
    fn answer(&mut self, fd: u64, buf: &[u8]) -> Decision {
        let idx = self.ncalls;
        self.ncalls += 1;
        if self.ncalls > HORIZON {
            bail(
                &format!("C15:{}:livelock", self.op),
                format!(
                    "{} issued {} write calls (script {}; after the script every call accepts everything); {} bytes accepted so far; last answers (offered,ret) {:?}",
                    self.op,
                    self.ncalls,
                    self.case["script"],
                    self.accepted.len(),
                    &self.answers[self.answers.len().saturating_sub(4)..]
                ),
                self.case.clone(),
            );
        }
        if fd != self.want_fd {
            self.wrong_fd.get_or_insert(fd);
        }
        let n = buf.len();
        let sym = self.script.get(idx).copied().unwrap_or(ALL);
        if self.zero > 0 {
            self.calls_after_zero += 1;
        }
        let ret: i64 = match sym {
            ALL => n as i64,
            1..=3 => {
                let k = [1usize, 2, 7][sym as usize - 1];
                if k >= n {
                    // the same kernel answer as "all" for this call
                    self.noncanon = true;
                }
                k.min(n) as i64
            }
            S_EINTR => {
                self.eintr += 1;
                -(libc::EINTR as i64)
            }
            S_EAGAIN => {
                self.hard += 1;
                -(libc::EAGAIN as i64)
            }
            S_ZERO => {
                if n == 0 {
                    // the same kernel answer as "all" for an empty buffer
                    self.noncanon = true;
                } else {
                    if self.zero == 0 {
                        self.accepted_at_zero = self.accepted.len();
                    }
                    self.zero += 1;
                }
                0
            }
            _ => {
                self.hard += 1;
                -(libc::EIO as i64)
            }
        };
        if ret > 0 {
            self.accepted.extend_from_slice(&buf[..ret as usize]);
        }
        if self.answers.len() < 4096 {
            self.answers.push((n, ret));
        }
        Decision::Force(ret)
    }
}

impl Plan for WPlan {
    fn decide(&mut self, _idx: usize, nr: i64, a: &[u64; 6]) -> Decision {
        if nr == libc::SYS_write && (a[0] == 1 || a[0] == 2) {
            let buf = if a[2] == 0 || a[1] == 0 { &[][..] } else { unsafe { std::slice::from_raw_parts(a[1] as *const u8, a[2] as usize) } };
            let buf = buf.to_vec();
            self.answer(a[0], &buf)
        } else if nr == libc::SYS_writev && (a[0] == 1 || a[0] == 2) {
            self.via_writev += 1;
            let mut buf = Vec::new();
            unsafe {
                let iov = a[1] as *const libc::iovec;
                for i in 0..a[2] as usize {
                    let v = &*iov.add(i);
                    if v.iov_len > 0 && !v.iov_base.is_null() {
                        buf.extend_from_slice(std::slice::from_raw_parts(v.iov_base as *const u8, v.iov_len));
                    }
                }
            }
            self.answer(a[0], &buf)
        } else {
            self.other.push(nr);
            Decision::Pass
        }
    }
}

#[derive(Debug)]
#[allow(dead_code)]
struct Rec<'a> {
    id: u32,
    name: &'a str,
    tags: [u8; 3],
}

type Outcome = Result<Option<bool>, String>; // panic message | None for the macros, Some(is_ok) for the helpers

fn run_it(plan: &mut WPlan, f: impl FnOnce() -> Option<bool>) -> Outcome {
    sysx::run(plan, || catch(f)).0
}

/// The expected text as the operation builds it: one body per write_fmt the operation performs, each
/// followed by a separately written '\n' when `nl` (the *ln forms, dbg!, __write_newline).
struct Expected {
    bodies: Vec<String>,
    nl: bool,
}
impl Expected {
    fn text(&self) -> String {
        self.bodies.iter().map(|b| if self.nl { format!("{b}\n") } else { b.clone() }).collect()
    }
}
fn exp(body: String, nl: bool) -> Expected {
    Expected { bodies: vec![body], nl }
}

/// Runs the operation of the combo under the plan; returns the expected text and what came back.
fn invoke(c: &Combo, plan: &mut WPlan) -> (Expected, Outcome) {
    use core::fmt::Write as _;
    use tiny_std::unix::print::{__STDERR_WRITER, __STDOUT_WRITER};
    let len = c.len;
    let whole = text(len);
    let whole = whole.as_str();
    // one format invocation through the four macros and the writer's write_fmt
    macro_rules! via {
        ($($t:tt)*) => {{
            let body = format!($($t)*);
            match c.op {
                "print" => (exp(body, false), run_it(plan, || { tiny_std::print!($($t)*); None })),
                "println" => (exp(body, true), run_it(plan, || { tiny_std::println!($($t)*); None })),
                "eprint" => (exp(body, false), run_it(plan, || { tiny_std::eprint!($($t)*); None })),
                "eprintln" => (exp(body, true), run_it(plan, || { tiny_std::eprintln!($($t)*); None })),
                "write_fmt" => (exp(body, false), run_it(plan, || { let mut w = __STDERR_WRITER; Some(w.write_fmt(format_args!($($t)*)).is_ok()) })),
                "write_fmt_out" => (exp(body, false), run_it(plan, || { let mut w = __STDOUT_WRITER; Some(w.write_fmt(format_args!($($t)*)).is_ok()) })),
                other => unreachable!("{other}"),
            }
        }};
    }
    match (c.op, c.shape) {
        ("println", "bare") => (exp(String::new(), true), run_it(plan, || { tiny_std::println!(); None })),
        ("eprintln", "bare") => (exp(String::new(), true), run_it(plan, || { tiny_std::eprintln!(); None })),
        ("write_str", _) => (exp(whole.to_string(), false), run_it(plan, || { let mut w = __STDOUT_WRITER; Some(w.write_str(whole).is_ok()) })),
        ("write_newline", _) => (exp(String::new(), true), run_it(plan, || Some(__STDOUT_WRITER.__write_newline().is_ok()))),
        // dbg!: line!() and the invocation must stay on ONE source line each
        ("dbg", "bare") => {
            let (ln, res) = (line!(), run_it(plan, || { tiny_std::dbg!(); None }));
            (exp(format!("[{}:{}]", file!(), ln), true), res)
        }
        ("dbg", "one") => {
            let (ln, res) = (line!(), run_it(plan, || { let _ = tiny_std::dbg!(whole); None }));
            (exp(format!("[{}:{}] {} = {:#?}", file!(), ln, "whole", whole), true), res)
        }
        ("dbg", "two") => {
            let (a, b) = whole.split_at(len / 2);
            let (ln, res) = (line!(), run_it(plan, || { let _ = tiny_std::dbg!(a, b); None }));
            (Expected { bodies: vec![format!("[{f}:{ln}] a = {a:#?}", f = file!()), format!("[{f}:{ln}] b = {b:#?}", f = file!())], nl: true }, res)
        }
        ("dbg", "struct") => {
            let rec = Rec { id: 7, name: whole, tags: [1, 2, 3] };
            let (ln, res) = (line!(), run_it(plan, || { let _ = tiny_std::dbg!(&rec); None }));
            (exp(format!("[{}:{}] {} = {:#?}", file!(), ln, "&rec", &rec), true), res)
        }
        (_, "lit0") => via!(""),
        (_, "lit5") => via!("hello"),
        (_, "one") => via!("{}", whole),
        (_, "two") => {
            let (a, b) = whole.split_at(len / 2);
            via!("{}{}", a, b)
        }
        (_, "mixed") => {
            // "<a|b>" with total length `len`
            let t = text(len - 3);
            let (a, b) = t.split_at((len - 3) / 2);
            via!("<{}|{}>", a, b)
        }
        (_, "pieces") => {
            // "<ab>" : two adjacent arguments between literal pieces, total length `len`
            let t = text(len - 2);
            let (a, b) = t.split_at((len - 2) / 2);
            via!("<{}{}>", a, b)
        }
        (_, "pad") => via!("{:>w$}", "x", w = len),
        (_, "dbgstr") => {
            let t = text(len - 2);
            via!("{:?}", t)
        }
        other => unreachable!("{other:?}"),
    }
}

#[derive(PartialEq, Debug, Clone, Copy)]
enum Cmp {
    Equal,
    /// accepted is what remains of expected after deleting bytes (order kept, nothing extra)
    Lost,
    /// expected is what remains of accepted after deleting bytes: something was delivered more than once / extra
    Duplicated,
    Reordered,
}

fn is_subseq(small: &[u8], big: &[u8]) -> bool {
    let mut it = big.iter();
    small.iter().all(|c| it.any(|d| d == c))
}

fn compare(accepted: &[u8], expected: &[u8]) -> Cmp {
    if accepted == expected {
        Cmp::Equal
    } else if is_subseq(accepted, expected) {
        Cmp::Lost
    } else if is_subseq(expected, accepted) {
        Cmp::Duplicated
    } else {
        Cmp::Reordered
    }
}

/// `a` = for every body in turn a prefix of it, optionally followed by its separately written '\n':
/// what is left when each write_fmt stops at its first failing write and nothing is written twice.
fn fits_prefix_form(a: &[u8], bodies: &[String], nl: bool) -> bool {
    let Some(first) = bodies.first() else { return a.is_empty() };
    let b = first.as_bytes();
    let l = a.iter().zip(b.iter()).take_while(|(x, y)| x == y).count();
    for k in (0..=l).rev() {
        let rest = &a[k..];
        if fits_prefix_form(rest, &bodies[1..], nl) {
            return true;
        }
        if nl && rest.first() == Some(&b'\n') && fits_prefix_form(&rest[1..], &bodies[1..], nl) {
            return true;
        }
    }
    false
}

fn where_differs(a: &[u8], e: &[u8]) -> String {
    let i = a.iter().zip(e.iter()).take_while(|(x, y)| x == y).count();
    let cut = |s: &[u8]| show_bytes(&s[i.min(s.len())..(i + 12).min(s.len())]);
    format!("accepted {} bytes, expected {}; first difference at offset {i}: accepted ..{:?}.. expected ..{:?}..", a.len(), e.len(), cut(a), cut(e))
}

struct Ran {
    extend: bool,
}

fn run_case(c: &Combo, script: &[u8], r: &mut Report, verbose: bool) -> Ran {
    let case = case_json(c, script);
    let mut plan = WPlan::new(c, script);
    set_case(&case.to_string());
    let (exp_parts, res) = invoke(c, &mut plan);
    let expected = exp_parts.text();
    clear_case();
    r.eval();
    let p = &plan;
    let op = c.op;
    let consumed = p.ncalls >= script.len();
    if verbose {
        println!("case {case}");
        println!("  expected ({} bytes): {:?}", expected.len(), show_bytes(&expected.as_bytes()[..expected.len().min(80)]));
        println!("  accepted ({} bytes): {:?}", p.accepted.len(), show_bytes(&p.accepted[..p.accepted.len().min(80)]));
        println!("  write calls (offered,ret): {:?}", &p.answers[..p.answers.len().min(24)]);
        println!("  result {res:?}; other syscalls {:?}", p.other);
    }
    if p.noncanon {
        r.outcome("script-duplicates-another(skipped)");
        return Ran { extend: false };
    }
    let canonical = consumed && script.last() != Some(&ALL);
    if canonical {
        r.nontrivial_unique();
    }
    let ran = Ran { extend: consumed && p.ncalls > script.len() };
    if !canonical {
        // same kernel behaviour as the script without its trailing "all" entries (already judged) or not played to the end
        r.outcome("same-as-shorter-script(not counted)");
        return ran;
    }
    let key = |k: &str| format!("C15:{op}:{k}");
    if p.via_writev > 0 {
        r.outcome("used-writev");
    }
    if let Some(fd) = p.wrong_fd {
        r.violation(&key("wrong-fd"), format!("{op} wrote to fd {fd}, expected fd {}", p.want_fd), case.clone());
    }
    let cmp = compare(&p.accepted, expected.as_bytes());
    let diff = || where_differs(&p.accepted, expected.as_bytes());
    let answers = || format!("{:?}", &p.answers[..p.answers.len().min(10)]);
    let viol = |r: &mut Report, kind: &str, why: String| {
        r.violation(&key(kind), format!("{op} [{} len {}] script {}: {why}; {}; write calls (offered,ret) {}", c.shape, c.len, case["script"], diff(), answers()), case.clone());
    };
    let dup_or_reorder = |cmp: Cmp| if cmp == Cmp::Duplicated { "bytes-duplicated" } else { "bytes-reordered" };
    match res {
        Err(msg) => {
            r.outcome("panic");
            r.violation(&key("panic"), format!("{op} [{} len {}] script {} panicked: {msg}", c.shape, c.len, case["script"]), case.clone());
        }
        // the macros: no result to look at
        Ok(None) => {
            if p.zero > 0 {
                // write answered 0 for a non-empty remainder: the write_fmt in progress has to stop there (the macros then
                // discard its error); a separately written '\n' of the *ln forms may still follow, a later piece may not
                match cmp {
                    Cmp::Equal => r.outcome("zero-answer:retried,everything-delivered"),
                    Cmp::Lost => {
                        if fits_prefix_form(&p.accepted, &exp_parts.bodies, exp_parts.nl) {
                            r.outcome(if p.accepted.len() > p.accepted_at_zero {
                                "zero-answer:rest-of-text-dropped-silently,newline-still-written"
                            } else {
                                "zero-answer:rest-dropped-silently"
                            })
                        } else {
                            r.outcome("VIOLATION:ok-but-incomplete");
                            viol(
                                r,
                                "ok-but-incomplete",
                                format!(
                                    "write answered 0 for a non-empty remainder ({} bytes accepted until then) and was taken for success: a later piece of the same format string was still written, bytes are missing from the middle",
                                    p.accepted_at_zero
                                ),
                            )
                        }
                    }
                    other => {
                        r.outcome("VIOLATION:dup-or-reorder");
                        viol(r, dup_or_reorder(other), "after a 0 answer".into())
                    }
                }
            } else if p.hard == 0 && p.eintr == 0 {
                match cmp {
                    Cmp::Equal => r.outcome(if p.ncalls == 0 {
                        "complete:no-write-needed"
                    } else if p.answers.iter().any(|&(n, k)| (k as usize) < n) {
                        "complete:after-short-writes"
                    } else {
                        "complete:full-writes"
                    }),
                    Cmp::Lost => {
                        r.outcome("VIOLATION:short-write-bytes-lost");
                        viol(r, "bytes-lost", "no error was injected, the macro completed, yet bytes are missing".into())
                    }
                    other => {
                        r.outcome("VIOLATION:dup-or-reorder");
                        viol(r, dup_or_reorder(other), "no error was injected".into())
                    }
                }
            } else if p.hard == 0 {
                match cmp {
                    Cmp::Equal => r.outcome("complete-despite-eintr(retried, or nothing was left to deliver)"),
                    Cmp::Lost => {
                        r.outcome("VIOLATION:eintr-bytes-lost");
                        viol(r, "bytes-lost-eintr", "only EINTR was injected (no error to report), the macro completed, yet bytes are missing".into())
                    }
                    other => {
                        r.outcome("VIOLATION:dup-or-reorder");
                        viol(r, dup_or_reorder(other), "only EINTR was injected".into())
                    }
                }
            } else {
                // EAGAIN/EIO: print.rs documents nothing; the macros discard the error.  Demanded: nothing duplicated or reordered.
                match cmp {
                    Cmp::Equal => r.outcome("hard-error:nothing-was-left-to-deliver"),
                    Cmp::Lost => r.outcome(if p.accepted.ends_with(b"\n") && expected.ends_with('\n') && p.accepted.len() < expected.len() {
                        "hard-error:rest-of-text-dropped-silently,newline-still-written"
                    } else {
                        "hard-error:rest-dropped-silently"
                    }),
                    other => {
                        r.outcome("VIOLATION:dup-or-reorder");
                        viol(r, dup_or_reorder(other), "after EAGAIN/EIO".into())
                    }
                }
            }
        }
        Ok(Some(true)) => match cmp {
            Cmp::Equal => r.outcome(if p.eintr + p.hard + p.zero > 0 { "helper-ok:error-retried" } else { "helper-ok" }),
            Cmp::Lost if p.zero > 0 => {
                r.outcome("VIOLATION:ok-but-incomplete");
                viol(
                    r,
                    "ok-but-incomplete",
                    format!("Ok was returned although write answered 0 for a non-empty remainder ({} bytes accepted until then) and the rest of it was never delivered", p.accepted_at_zero),
                )
            }
            Cmp::Lost => {
                r.outcome("VIOLATION:helper-ok-bytes-lost");
                viol(r, if p.hard == 0 && p.eintr > 0 { "bytes-lost-eintr" } else { "bytes-lost" }, "Ok was returned".into())
            }
            other => {
                r.outcome("VIOLATION:dup-or-reorder");
                viol(r, dup_or_reorder(other), "Ok was returned".into())
            }
        },
        Ok(Some(false)) => {
            if p.eintr + p.hard + p.zero == 0 {
                r.outcome("VIOLATION:helper-spurious-error");
                viol(r, "spurious-error", "Err was returned although the kernel reported no error".into());
            } else if p.zero > 0 {
                // Err after a 0 answer: what was accepted is a prefix of the text and nothing was written after that answer
                match cmp {
                    Cmp::Duplicated | Cmp::Reordered => {
                        r.outcome("VIOLATION:dup-or-reorder");
                        viol(r, dup_or_reorder(cmp), "Err was returned after a 0 answer".into())
                    }
                    _ if !expected.as_bytes().starts_with(&p.accepted) || p.calls_after_zero > 0 => {
                        r.outcome("VIOLATION:continued-after-zero-write");
                        viol(r, "continued-after-zero-write", format!("Err was returned, but {} write call(s) followed the 0 answer within the same write_fmt", p.calls_after_zero))
                    }
                    _ => r.outcome("helper-err:zero-write-returned-as-error"),
                }
            } else {
                match cmp {
                    Cmp::Equal | Cmp::Lost => r.outcome(if p.hard > 0 { "helper-err:EAGAIN/EIO-returned" } else { "helper-err:EINTR-returned-not-retried" }),
                    other => {
                        r.outcome("VIOLATION:dup-or-reorder");
                        viol(r, dup_or_reorder(other), "Err was returned".into())
                    }
                }
            }
        }
    }
    ran
}

/// Breadth-first (shortest script first).  A script is extended only when the run consumed it
/// completely and issued at least one more write (answered by the default "all").
fn enumerate(c: &Combo, max_len: usize, r: &mut Report) {
    let mut level: Vec<Vec<u8>> = vec![vec![]];
    for depth in 0..=max_len {
        let mut next = Vec::new();
        for s in &level {
            let ran = run_case(c, s, r, false);
            if ran.extend && depth < max_len {
                for sym in 0..SYMS.len() as u8 {
                    let mut n = s.clone();
                    n.push(sym);
                    next.push(n);
                }
            }
        }
        level = next;
        if level.is_empty() {
            break;
        }
    }
}

fn combos(thorough: bool) -> Vec<Combo> {
    let mut v = Vec::new();
    let mut add = |op, shape, len| v.push(Combo { op, shape, len });
    for op in ["print", "println", "eprint", "eprintln"] {
        add(op, "lit0", 0);
        if op.ends_with("ln") {
            add(op, "bare", 0);
        }
        add(op, "lit5", 5);
        for len in [0, 1, 5, 40, 600] {
            add(op, "one", len);
        }
        for len in [1, 5, 40, 600] {
            add(op, "two", len);
        }
        for len in [5, 40, 600] {
            add(op, "mixed", len);
        }
        for len in [5, 40] {
            add(op, "pieces", len);
            add(op, "pad", len);
            add(op, "dbgstr", len);
        }
        if thorough {
            add(op, "pad", 600);
            add(op, "one", 4095);
            add(op, "one", 4097);
        }
    }
    add("dbg", "bare", 0);
    for len in [1, 40, 600] {
        add("dbg", "one", len);
    }
    add("dbg", "two", 5);
    add("dbg", "struct", 5);
    for len in [0, 1, 5, 40, 600] {
        add("write_str", "str", len);
    }
    add("write_newline", "newline", 0);
    add("write_fmt", "one", 5);
    add("write_fmt", "one", 600);
    add("write_fmt", "two", 40);
    add("write_fmt", "mixed", 40);
    add("write_fmt", "pad", 5);
    // the same multi-piece formats through both writers (stderr above, stdout here)
    for op in ["write_fmt", "write_fmt_out"] {
        add(op, "pieces", 5);
        add(op, "pieces", 40);
    }
    add("write_fmt_out", "one", 5);
    add("write_fmt_out", "two", 40);
    add("write_fmt_out", "mixed", 40);
    v
}

pub fn phase(args: &Args) -> Report {
    let t0 = now();
    // DESIGN.md: <= 5 (thorough <= 7).  (EINTR is retried by print.rs, so it is a continuing answer and the tree is wide.)
    let max_len = if args.thorough { 7 } else { 5 };
    let cs = combos(args.thorough);
    let mut items = Vec::new();
    for c in cs.iter().cloned() {
        let path = shard_path(&args.out, items.len());
        items.push(isolated(format!("{}-{}-{}", c.op, c.shape, c.len), move || {
            let mut r = Report::new();
            shard_begin(&mut r, Some(path));
            enumerate(&c, max_len, &mut r);
            match (c.op, c.shape, c.len) {
                ("println", "two", 5) => {
                    r.sample(json!({"case": case_json(&c, &[1, 0, 2, 0]),
                        "kernel_model": "println!(\"{}{}\", \"!#\", \"$%&\"): write(1,\"!#\") -> 1; write(1,\"#\") -> 1 (all); write(1,\"$%&\") -> 2; write(1,\"&\") -> 1 (all); write(1,\"\\n\") -> 1 (default)",
                        "oracle": "no error injected: accepted bytes == \"!#$%&\\n\""}));
                    r.sample(json!({"case": case_json(&c, &[1, S_EINTR]), "oracle": "only EINTR injected and the macro returns nothing: accepted bytes must still be the whole text"}));
                    r.sample(json!({"case": case_json(&c, &[0, S_EIO]), "oracle": "EIO: accepted bytes must be the expected text with bytes deleted (no duplicate, no reordering); what is dropped is recorded as outcome"}));
                }
                ("write_fmt_out", "pieces", 5) => {
                    r.sample(json!({"case": case_json(&c, &[1, S_ZERO]),
                        "kernel_model": "write_fmt(\"<{}{}>\", \"!\", \"#$\") on the stdout writer: write(1,\"<\") -> 1; write(1,\"!\") -> 0",
                        "oracle": "0 for a non-empty remainder: Err with \"<\" accepted and no further write; Ok with bytes missing is C15:<op>:ok-but-incomplete"}));
                }
                ("write_str", "str", 40) => {
                    r.sample(json!({"case": case_json(&c, &[3, 3, S_EAGAIN]), "oracle": "Err allowed (an error was reported); Ok only with all 40 bytes accepted in order"}));
                }
                ("dbg", "struct", 5) => {
                    r.sample(json!({"case": case_json(&c, &[0, 0, 1, 0, 2]), "note": "dbg!(&rec) pretty-prints through many small fragments to fd 2"}));
                }
                _ => {}
            }
            shard_end();
            r
        }));
    }
    let mut r = run_isolated(items, &args.out, "C15");
    r.rule = format!(
        "model kernel over the syscall seam answering every write/writev on fd 1/2; for each of {} (operation, format shape, text length) combinations - print!/println!/eprint!/eprintln! \
         x {{empty literal, bare *ln, literal only, one argument, two arguments, literal+arguments, two adjacent arguments between literals, padded (one write per pad char), Debug-quoted}} x total lengths around {{0,1,5,40,600}}; \
         dbg! in its four forms; __UnixWriter::write_str/__write_newline/write_fmt (stdout and stderr writer) - every script of <= {max_len} answers over {{all, 1, 2, 7 bytes, EINTR, EAGAIN, EIO, 0 (to a non-empty buffer)}}, generated breadth-first and \
         extended only while the run consumed the whole script and wrote again. A case is non-trivial (counted once) when the whole script was consumed, it does not end in \"all\" (that is the \
         default continuation, i.e. the shorter script) and no short count >= the offered length and no 0 answer to an empty buffer occurs (those are \"all\"); the others are run but not counted.",
        cs.len()
    );
    r.bound("max_script_len", max_len);
    r.bound("answers", json!(SYMS));
    r.bound("combinations", cs.len());
    r.bound("text_lengths", json!([0, 1, 5, 40, 600]));
    r.bound("livelock_horizon_write_calls", HORIZON);
    r.note(format!("wall {:.2}s", t0.elapsed().as_secs_f64()));
    r.note("print.rs has no internal buffer and documents no length limit or truncation: every fragment of the formatter goes to write(2) directly (lengths 4095/4097 added in the thorough tier only as a page-size straddle)".to_string());
    r.note("print.rs documents no error behaviour; observed: the macros discard the fmt::Error (no panic), so after EAGAIN/EIO the rest of the text is dropped and the *ln newline is still attempted - accepted by the oracle (outcome classes hard-error:*)".to_string());
    r
}

pub fn replay(v: &Value, r: &mut Report) {
    fn leak(s: &str) -> &'static str {
        Box::leak(s.to_string().into_boxed_str())
    }
    let c = Combo { op: leak(v["op"].as_str().unwrap_or("print")), shape: leak(v["shape"].as_str().unwrap_or("one")), len: v["len"].as_u64().unwrap_or(5) as usize };
    let script: Vec<u8> = v["script"]
        .as_array()
        .map(|a| a.iter().map(|x| SYMS.iter().position(|s| Some(*s) == x.as_str()).unwrap_or(0) as u8).collect())
        .unwrap_or_default();
    run_case(&c, &script, r, true);
}
